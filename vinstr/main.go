package main

import (
	"fmt"
	"golang.org/x/tools/go/packages"
)

func main() { fmt.Println(packages.NeedName) }
