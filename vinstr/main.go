// vinstr rewrites the synchronisation operations of selected packages of the
// repository under test into calls of verif/mc/vrt (see /verif/DESIGN.md §3.1)
// and emits a `go build -overlay` file. The repository itself is never
// modified: the rewritten sources are written to -out.
//
// It fails closed: any syntactic form it does not know how to rewrite is
// reported as INSTRUMENTATION-ERROR and the exit status is 2.
package main

import (
	"bytes"
	"encoding/json"
	"flag"
	"fmt"
	"go/ast"
	"go/format"
	"go/token"
	"go/types"
	"os"
	"path"
	"path/filepath"
	"regexp"
	"sort"
	"strconv"
	"strings"

	"golang.org/x/tools/go/ast/astutil"
	"golang.org/x/tools/go/packages"
)

const vrtPath = "verif/mc/vrt"
const vrtName = "vrt__"

var stdRedirect = map[string]string{
	"sync":        vrtPath + "/vsync",
	"sync/atomic": vrtPath + "/vatomic",
	"time":        vrtPath + "/vtime",
}

type spec struct {
	// Packages to instrument, relative to the repository root.
	Packages []string `json:"packages"`
	// Per-package extra import redirections: {"destination": {"net": "verif/mc/vrt/vnet"}}
	Redirect map[string]map[string]string `json:"redirect"`
	// Fine-grained yield groups: group -> list of function names
	// ("pkgdir.Func" or "pkgdir.Recv.Method", Recv without '*').
	Fine map[string][]string `json:"fine"`
	// Extra overlay entries (repo-relative target -> absolute source).
	Add map[string]string `json:"add"`
	// Textual tweaks of property-irrelevant resource parameters, applied
	// before parsing (skipped silently when the text is not found exactly once).
	Tweaks []tweak `json:"tweaks"`
	// Packages (repo-relative dirs) for which VerifResetGlobals() is generated: every package-level
	// variable is assigned its initialiser again (its zero value when it has none). Generated from
	// the current source, so it follows whatever variables the package has.
	ResetGlobals []string `json:"resetglobals"`
}

type tweak struct {
	File string `json:"file"`
	Old  string `json:"old"`
	New  string `json:"new"`
}

func fatal(format string, a ...interface{}) {
	fmt.Fprintf(os.Stderr, "INSTRUMENTATION-ERROR: "+format+"\n", a...)
	os.Exit(2)
}

func main() {
	repo := flag.String("repo", "/repo", "repository root")
	out := flag.String("out", "", "output directory")
	specFile := flag.String("spec", "", "JSON spec file")
	access := flag.String("access", "", "directory of overlay-only accessor files: <dir>/<pkg path>/<name>.go.in is added as <repo>/<pkg path>/zz_verif_<name>.go")
	uses := flag.String("uses", "", "comma-separated directories of harness sources: an accessor file is only added when one of the names it declares occurs in them (empty: add all)")
	flag.Parse()
	if *out == "" || *specFile == "" {
		fatal("usage: vinstr -repo DIR -out DIR -spec FILE")
	}
	var sp spec
	b, err := os.ReadFile(*specFile)
	if err != nil {
		fatal("%v", err)
	}
	if err := json.Unmarshal(b, &sp); err != nil {
		fatal("spec: %v", err)
	}
	fine := map[string]string{}
	for g, fs := range sp.Fine {
		for _, f := range fs {
			fine[f] = g
		}
	}
	fineSeen := map[string]bool{}

	var patterns []string
	for _, p := range sp.Packages {
		patterns = append(patterns, "./"+p)
	}
	cfg := &packages.Config{
		Mode: packages.NeedName | packages.NeedFiles | packages.NeedCompiledGoFiles | packages.NeedSyntax |
			packages.NeedTypes | packages.NeedTypesInfo | packages.NeedImports | packages.NeedDeps,
		Dir: *repo,
		Env: append(os.Environ(), "GOFLAGS=-mod=mod", "GOPROXY=off", "GOSUMDB=off", "GOTOOLCHAIN=local"),
	}
	cfg.Overlay = map[string][]byte{}
	for _, tw := range sp.Tweaks {
		path := filepath.Join(*repo, tw.File)
		src, ok := cfg.Overlay[path]
		if !ok {
			src, err = os.ReadFile(path)
			if err != nil {
				continue
			}
		}
		if bytes.Count(src, []byte(tw.Old)) != 1 {
			fmt.Printf("vinstr: tweak of %s skipped (text not found exactly once)\n", tw.File)
			continue
		}
		cfg.Overlay[path] = bytes.Replace(src, []byte(tw.Old), []byte(tw.New), 1)
	}
	var pkgs []*packages.Package
	if len(patterns) > 0 {
		pkgs, err = packages.Load(cfg, patterns...)
		if err != nil {
			fatal("load: %v", err)
		}
	}
	overlay := map[string]string{}
	nfiles, npoints := 0, 0
	resetPkgs, resetNames, resetByFile := map[string]bool{}, map[string][]string{}, map[string]string{}
	for _, p := range sp.ResetGlobals {
		resetPkgs[p] = true
	}
	for _, pkg := range pkgs {
		if len(pkg.Errors) > 0 {
			fatal("package %s: %v", pkg.PkgPath, pkg.Errors[0])
		}
		rel, err := filepath.Rel(*repo, filepath.Dir(pkg.GoFiles[0]))
		if err != nil {
			fatal("%v", err)
		}
		for i, f := range pkg.Syntax {
			name := pkg.CompiledGoFiles[i]
			if strings.HasSuffix(name, "_test.go") {
				continue
			}
			r := &rewriter{fset: pkg.Fset, info: pkg.TypesInfo, pkgDir: rel, fine: fine, fineSeen: fineSeen, file: name,
				redirect: sp.Redirect[rel]}
			changed := r.file_(f)
			if resetPkgs[rel] {
				if fn := resetFunc(pkg.Fset, f, len(resetNames[rel])); fn != "" {
					resetNames[rel] = append(resetNames[rel], fn)
					resetByFile[name] = fn
					changed = true
				}
			}
			npoints += r.points
			if _, tweaked := cfg.Overlay[name]; !changed && !tweaked {
				continue
			}
			var buf bytes.Buffer
			if err := format.Node(&buf, pkg.Fset, f); err != nil {
				fatal("%s: print: %v", name, err)
			}
			if fn, ok := resetByFile[name]; ok {
				buf.WriteString(resetText[fn])
			}
			dst := filepath.Join(*out, rel, filepath.Base(name))
			if err := os.MkdirAll(filepath.Dir(dst), 0o755); err != nil {
				fatal("%v", err)
			}
			if err := os.WriteFile(dst, buf.Bytes(), 0o644); err != nil {
				fatal("%v", err)
			}
			overlay[name] = dst
			nfiles++
		}
	}
	for rel, fns := range resetNames {
		// the package-level entry point calls the per-file functions
		var b bytes.Buffer
		pkgName := ""
		for _, pkg := range pkgs {
			if r, _ := filepath.Rel(*repo, filepath.Dir(pkg.GoFiles[0])); r == rel {
				pkgName = pkg.Name
			}
		}
		fmt.Fprintf(&b, "package %s\n\n// VerifResetGlobals is generated by vinstr: every package-level variable gets its initial value again.\nfunc VerifResetGlobals() {\n", pkgName)
		for _, fn := range fns {
			fmt.Fprintf(&b, "\t%s()\n", fn)
		}
		b.WriteString("}\n")
		dst := filepath.Join(*out, rel, "zz_verif_resetglobals.go")
		os.MkdirAll(filepath.Dir(dst), 0o755)
		if err := os.WriteFile(dst, b.Bytes(), 0o644); err != nil {
			fatal("%v", err)
		}
		overlay[filepath.Join(*repo, rel, "zz_verif_resetglobals.go")] = dst
	}
	for p := range resetPkgs {
		if len(resetNames[p]) == 0 {
			fatal("resetglobals: package %q has no package-level variables (or is not in \"packages\")", p)
		}
	}
	for f := range fine {
		if !fineSeen[f] {
			fatal("fine-grained function %q not found", f)
		}
	}
	for target, src := range sp.Add {
		overlay[filepath.Join(*repo, target)] = src
	}
	if *access != "" {
		var usesSrc []byte
		for _, d := range strings.Split(*uses, ",") {
			if d == "" {
				continue
			}
			ents, _ := os.ReadDir(d)
			for _, e := range ents {
				if strings.HasSuffix(e.Name(), ".go") {
					b, _ := os.ReadFile(filepath.Join(d, e.Name()))
					usesSrc = append(usesSrc, b...)
				}
			}
		}
		filepath.Walk(*access, func(path string, fi os.FileInfo, err error) error {
			if err != nil || fi.IsDir() || !strings.HasSuffix(path, ".go.in") {
				return nil
			}
			if *uses != "" && !accessorUsed(path, usesSrc, filepath.Base(filepath.Dir(*specFile))) {
				return nil
			}
			rel, _ := filepath.Rel(*access, path)
			dir := filepath.Dir(rel)
			if _, err := os.Stat(filepath.Join(*repo, dir)); err != nil {
				return nil
			}
			name := "zz_verif_" + strings.TrimSuffix(filepath.Base(rel), ".in")
			overlay[filepath.Join(*repo, dir, name)] = path
			return nil
		})
	}
	ob, _ := json.MarshalIndent(map[string]interface{}{"Replace": overlay}, "", " ")
	if err := os.WriteFile(filepath.Join(*out, "overlay.json"), ob, 0o644); err != nil {
		fatal("%v", err)
	}
	fmt.Printf("vinstr: %d packages, %d files rewritten, %d operations instrumented\n", len(pkgs), nfiles, npoints)
}

// accessorUsed: does the harness source mention a Verif* name the accessor file declares?
func accessorUsed(file string, src []byte, harness string) bool {
	b, err := os.ReadFile(file)
	if err != nil {
		return false
	}
	// an accessor that is not called by name (an init hook) names its harnesses: "// verif:for c20"
	if m := accessorFor.FindSubmatch(b); m != nil {
		for _, id := range strings.Split(string(m[1]), ",") {
			if strings.TrimSpace(id) == harness {
				return true
			}
		}
		return false
	}
	for _, m := range accessorName.FindAllSubmatch(b, -1) {
		if bytes.Contains(src, m[1]) {
			return true
		}
	}
	return false
}

var accessorFor = regexp.MustCompile(`(?m)^// verif:for ([a-z0-9, ]+)$`)

var accessorName = regexp.MustCompile(`(?m)^func (?:\([^)]*\) )?(Verif[A-Za-z0-9_]*)`)

var resetText = map[string]string{}

// resetFunc records the text of a function that re-initialises the package-level variables declared
// in f and returns its name ("" when f declares none).
func resetFunc(fset *token.FileSet, f *ast.File, n int) string {
	var body bytes.Buffer
	for _, d := range f.Decls {
		gd, ok := d.(*ast.GenDecl)
		if !ok || gd.Tok != token.VAR {
			continue
		}
		for _, sp := range gd.Specs {
			vs := sp.(*ast.ValueSpec)
			var names []string
			blank := false
			for _, id := range vs.Names {
				names = append(names, id.Name)
				blank = blank || id.Name == "_"
			}
			if blank {
				continue
			}
			if len(vs.Values) > 0 {
				var vals []string
				for _, v := range vs.Values {
					var b bytes.Buffer
					format.Node(&b, fset, v)
					vals = append(vals, b.String())
				}
				fmt.Fprintf(&body, "\t%s = %s\n", strings.Join(names, ", "), strings.Join(vals, ", "))
			} else if vs.Type != nil {
				var b bytes.Buffer
				format.Node(&b, fset, vs.Type)
				for _, nm := range names {
					fmt.Fprintf(&body, "\t{\n\t\tvar zero %s\n\t\t%s = zero\n\t}\n", b.String(), nm)
				}
			}
		}
	}
	// init functions of the file run again after the variables are reset: init() cannot be called, so
	// each is renamed and a new init() forwards to it
	var inits bytes.Buffer
	k := 0
	for _, d := range f.Decls {
		if fd, ok := d.(*ast.FuncDecl); ok && fd.Recv == nil && fd.Name.Name == "init" && fd.Body != nil {
			nm := fmt.Sprintf("verifInit%d_%d", n, k)
			k++
			fd.Name = ast.NewIdent(nm)
			fmt.Fprintf(&body, "\t%s()\n", nm)
			fmt.Fprintf(&inits, "\nfunc init() { %s() }\n", nm)
		}
	}
	if body.Len() == 0 {
		return ""
	}
	name := fmt.Sprintf("verifResetGlobals%d", n)
	resetText[name] = fmt.Sprintf("\n// generated by vinstr\nfunc %s() {\n%s}\n%s", name, body.String(), inits.String())
	return name
}

type rewriter struct {
	fset     *token.FileSet
	info     *types.Info
	pkgDir   string
	file     string
	fine     map[string]string
	fineSeen map[string]bool
	redirect map[string]string
	tmp      int
	points   int
	usedVrt  bool
}

// fineGroup finds the fine-grained group of a function: exact name first, then glob patterns
// ("destination.Writer.*", "route.dispatch*") so that helpers split off by a refactoring stay covered.
func (r *rewriter) fineGroup(key string) (group, pattern string, ok bool) {
	if g, ok := r.fine[key]; ok {
		return g, key, true
	}
	for pat, g := range r.fine {
		if strings.ContainsAny(pat, "*?[") {
			if m, _ := path.Match(pat, key); m {
				return g, pat, true
			}
		}
	}
	return "", "", false
}

func (r *rewriter) errf(n ast.Node, format string, a ...interface{}) {
	fatal("%s: %s", r.fset.Position(n.Pos()), fmt.Sprintf(format, a...))
}

func (r *rewriter) name(prefix string) *ast.Ident {
	r.tmp++
	return ast.NewIdent(fmt.Sprintf("_v%s%d", prefix, r.tmp))
}

func (r *rewriter) vrt(fn string, args ...ast.Expr) *ast.CallExpr {
	r.usedVrt = true
	return &ast.CallExpr{Fun: &ast.SelectorExpr{X: ast.NewIdent(vrtName), Sel: ast.NewIdent(fn)}, Args: args}
}

func define(lhs []ast.Expr, rhs ...ast.Expr) *ast.AssignStmt {
	return &ast.AssignStmt{Lhs: lhs, Tok: token.DEFINE, Rhs: rhs}
}

func exprs(ids ...*ast.Ident) []ast.Expr {
	out := make([]ast.Expr, len(ids))
	for i, id := range ids {
		out[i] = id
	}
	return out
}

// file_ rewrites one file in place; reports whether anything changed.
func (r *rewriter) file_(f *ast.File) bool {
	changed := false
	// 1. imports
	for _, imp := range f.Imports {
		p, _ := strconv.Unquote(imp.Path.Value)
		np, ok := stdRedirect[p]
		if r.redirect != nil {
			if x, ok2 := r.redirect[p]; ok2 {
				np, ok = x, true
			}
		}
		if !ok {
			continue
		}
		if imp.Name == nil {
			base := p
			if i := strings.LastIndex(p, "/"); i >= 0 {
				base = p[i+1:]
			}
			imp.Name = ast.NewIdent(base)
		}
		imp.Path.Value = strconv.Quote(np)
		imp.EndPos = 0
		changed = true
	}
	// 2. builtin close(ch) -> vrt.Close(ch)
	ast.Inspect(f, func(n ast.Node) bool {
		if c, ok := n.(*ast.CallExpr); ok {
			if id, ok := c.Fun.(*ast.Ident); ok && id.Name == "close" {
				if _, isB := r.info.Uses[id].(*types.Builtin); isB {
					c.Fun = &ast.SelectorExpr{X: ast.NewIdent(vrtName), Sel: ast.NewIdent("Close")}
					r.usedVrt = true
					r.points++
				}
			}
		}
		return true
	})
	// 3. fine-grained yields (before channel rewriting, on original statements)
	for _, d := range f.Decls {
		fd, ok := d.(*ast.FuncDecl)
		if !ok || fd.Body == nil {
			continue
		}
		key := r.pkgDir + "." + fd.Name.Name
		if fd.Recv != nil && len(fd.Recv.List) == 1 {
			t := fd.Recv.List[0].Type
			if s, ok := t.(*ast.StarExpr); ok {
				t = s.X
			}
			if id, ok := t.(*ast.Ident); ok {
				key = r.pkgDir + "." + id.Name + "." + fd.Name.Name
			}
		}
		if g, pat, ok := r.fineGroup(key); ok {
			r.fineSeen[pat] = true
			r.yields(fd.Body, g)
		}
	}
	// 4. channel operations, go statements: collect all function bodies first
	var bodies []*ast.BlockStmt
	ast.Inspect(f, func(n ast.Node) bool {
		switch x := n.(type) {
		case *ast.FuncDecl:
			if x.Body != nil {
				bodies = append(bodies, x.Body)
			}
		case *ast.FuncLit:
			bodies = append(bodies, x.Body)
		}
		return true
	})
	for _, b := range bodies {
		b.List = r.block(b.List)
	}
	if r.usedVrt {
		r.addImport(f)
		changed = true
	}
	if changed {
		// keep only the comments in front of the package clause (build
		// constraints, file doc): positions of the rest would be misplaced
		var keep []*ast.CommentGroup
		for _, cg := range f.Comments {
			if cg.End() < f.Package {
				keep = append(keep, cg)
			}
		}
		f.Comments = keep
		f.Doc = nil
		ast.Inspect(f, func(n ast.Node) bool {
			switch x := n.(type) {
			case *ast.FuncDecl:
				x.Doc = nil
			case *ast.GenDecl:
				x.Doc = nil
			case *ast.Field:
				x.Doc, x.Comment = nil, nil
			case *ast.ValueSpec:
				x.Doc, x.Comment = nil, nil
			case *ast.TypeSpec:
				x.Doc, x.Comment = nil, nil
			case *ast.ImportSpec:
				x.Doc, x.Comment = nil, nil
			}
			return true
		})
	}
	return changed
}

func (r *rewriter) addImport(f *ast.File) {
	spec := &ast.ImportSpec{Name: ast.NewIdent(vrtName), Path: &ast.BasicLit{Kind: token.STRING, Value: strconv.Quote(vrtPath)}}
	decl := &ast.GenDecl{Tok: token.IMPORT, Specs: []ast.Spec{spec}}
	f.Decls = append([]ast.Decl{decl}, f.Decls...)
	f.Imports = append(f.Imports, spec)
}

// yields inserts vrt.YieldG(group) before every statement of every statement
// list below n (function literals included).
func (r *rewriter) yields(n ast.Node, group string) {
	ins := func(list []ast.Stmt) []ast.Stmt {
		out := make([]ast.Stmt, 0, 2*len(list))
		for _, s := range list {
			if _, isDecl := s.(*ast.DeclStmt); !isDecl {
				out = append(out, &ast.ExprStmt{X: r.vrt("YieldG", &ast.BasicLit{Kind: token.STRING, Value: strconv.Quote(group)})})
				r.points++
			}
			out = append(out, s)
		}
		return out
	}
	skip := map[*ast.BlockStmt]bool{} // bodies of switch/select hold clauses, not statements
	ast.Inspect(n, func(n ast.Node) bool {
		switch x := n.(type) {
		case *ast.SwitchStmt:
			skip[x.Body] = true
		case *ast.TypeSwitchStmt:
			skip[x.Body] = true
		case *ast.SelectStmt:
			skip[x.Body] = true
		case *ast.BlockStmt:
			if !skip[x] {
				x.List = ins(x.List)
			}
		case *ast.CaseClause:
			x.Body = ins(x.Body)
		case *ast.CommClause:
			x.Body = ins(x.Body)
		}
		return true
	})
}

func (r *rewriter) block(list []ast.Stmt) []ast.Stmt {
	var out []ast.Stmt
	for _, s := range list {
		out = append(out, r.stmt(s)...)
	}
	return out
}

func (r *rewriter) one(s ast.Stmt) ast.Stmt {
	if s == nil {
		return nil
	}
	res := r.stmt(s)
	if len(res) == 1 {
		return res[0]
	}
	return &ast.BlockStmt{List: res}
}

// hasRecv reports whether e contains a receive expression outside function literals.
func hasRecv(n ast.Node) bool {
	if n == nil {
		return false
	}
	found := false
	ast.Inspect(n, func(n ast.Node) bool {
		switch x := n.(type) {
		case *ast.FuncLit:
			return false
		case *ast.UnaryExpr:
			if x.Op == token.ARROW {
				found = true
			}
		}
		return !found
	})
	return found
}

func unparen(e ast.Expr) ast.Expr {
	for {
		p, ok := e.(*ast.ParenExpr)
		if !ok {
			return e
		}
		e = p.X
	}
}

func asRecv(e ast.Expr) *ast.UnaryExpr {
	if u, ok := unparen(e).(*ast.UnaryExpr); ok && u.Op == token.ARROW {
		return u
	}
	return nil
}

// constLike: expression must not be hoisted into a := temporary.
func (r *rewriter) constLike(e ast.Expr) bool {
	tv, ok := r.info.Types[e]
	if !ok {
		return false
	}
	return tv.Value != nil || tv.IsNil()
}

func (r *rewriter) isChan(e ast.Expr) bool {
	tv, ok := r.info.Types[e]
	if !ok || tv.Type == nil {
		return false
	}
	_, isC := tv.Type.Underlying().(*types.Chan)
	return isC
}

func (r *rewriter) stmt(s ast.Stmt) []ast.Stmt {
	switch x := s.(type) {
	case nil:
		return nil
	case *ast.BlockStmt:
		x.List = r.block(x.List)
		return []ast.Stmt{x}
	case *ast.IfStmt:
		if hasRecv(x.Init) || hasRecv(x.Cond) {
			r.errf(x, "receive in if header not supported")
		}
		x.Body.List = r.block(x.Body.List)
		if x.Else != nil {
			x.Else = r.one(x.Else)
		}
		return []ast.Stmt{x}
	case *ast.ForStmt:
		if hasRecv(x.Init) || hasRecv(x.Cond) || hasRecv(x.Post) {
			r.errf(x, "receive in for header not supported")
		}
		x.Body.List = r.block(x.Body.List)
		return []ast.Stmt{x}
	case *ast.RangeStmt:
		return r.rangeStmt(x, nil)
	case *ast.SwitchStmt:
		if hasRecv(x.Init) || hasRecv(x.Tag) {
			r.errf(x, "receive in switch header not supported")
		}
		for _, c := range x.Body.List {
			cc := c.(*ast.CaseClause)
			for _, e := range cc.List {
				if hasRecv(e) {
					r.errf(e, "receive in case expression not supported")
				}
			}
			cc.Body = r.block(cc.Body)
		}
		return []ast.Stmt{x}
	case *ast.TypeSwitchStmt:
		if hasRecv(x.Init) || hasRecv(x.Assign) {
			r.errf(x, "receive in type switch header not supported")
		}
		for _, c := range x.Body.List {
			cc := c.(*ast.CaseClause)
			cc.Body = r.block(cc.Body)
		}
		return []ast.Stmt{x}
	case *ast.SelectStmt:
		return []ast.Stmt{r.selectStmt(x, nil)}
	case *ast.LabeledStmt:
		switch in := x.Stmt.(type) {
		case *ast.RangeStmt:
			return r.rangeStmt(in, x)
		case *ast.SelectStmt:
			return []ast.Stmt{r.selectStmt(in, x)}
		}
		res := r.stmt(x.Stmt)
		if len(res) == 0 {
			return []ast.Stmt{x}
		}
		x.Stmt = res[0]
		return append([]ast.Stmt{x}, res[1:]...)
	case *ast.GoStmt:
		return []ast.Stmt{r.goStmt(x)}
	case *ast.SendStmt:
		if hasRecv(x.Chan) || hasRecv(x.Value) {
			r.errf(x, "receive inside send statement not supported")
		}
		c := r.name("c")
		list := []ast.Stmt{define(exprs(c), x.Chan)}
		val := x.Value
		if !r.constLike(val) {
			v := r.name("v")
			list = append(list, define(exprs(v), val))
			val = v
		}
		h := r.name("h")
		list = append(list,
			define(exprs(h), r.vrt("BeforeSend", c)),
			&ast.SendStmt{Chan: c, Value: val},
			&ast.ExprStmt{X: r.vrt("After", h)})
		r.points++
		return []ast.Stmt{&ast.BlockStmt{List: list}}
	case *ast.ExprStmt:
		if u := asRecv(x.X); u != nil {
			pre, c, post := r.recvGuards(u)
			u.X = c
			return append(append(pre, x), post...)
		}
		if hasRecv(x.X) {
			if res := r.hoistNested(x); res != nil {
				return res
			}
			r.errf(x, "receive nested in expression statement not supported")
		}
		return []ast.Stmt{x}
	case *ast.AssignStmt:
		if len(x.Rhs) == 1 {
			if u := asRecv(x.Rhs[0]); u != nil {
				for _, l := range x.Lhs {
					if hasRecv(l) {
						r.errf(x, "receive on left-hand side not supported")
					}
				}
				pre, c, post := r.recvGuards(u)
				u.X = c
				return append(append(pre, x), post...)
			}
		}
		if hasRecv(x) {
			if x.Tok != token.DEFINE || true {
				if res := r.hoistNested(x); res != nil {
					return res
				}
			}
			r.errf(x, "receive nested in assignment not supported")
		}
		return []ast.Stmt{x}
	case *ast.ReturnStmt:
		if len(x.Results) == 1 {
			if u := asRecv(x.Results[0]); u != nil {
				pre, c, post := r.recvGuards(u)
				res := r.name("r")
				u.X = c
				list := append(pre, define(exprs(res), u))
				list = append(list, post...)
				x.Results[0] = res
				return append(list, x)
			}
		}
		if hasRecv(x) {
			if res := r.hoistNested(x); res != nil {
				return res
			}
			r.errf(x, "receive nested in return not supported")
		}
		return []ast.Stmt{x}
	case *ast.DeclStmt, *ast.IncDecStmt, *ast.DeferStmt:
		if hasRecv(x) {
			r.errf(x, "receive in this statement form not supported")
		}
		return []ast.Stmt{x}
	case *ast.BranchStmt, *ast.EmptyStmt:
		return []ast.Stmt{x}
	}
	r.errf(s, "unknown statement type %T", s)
	return nil
}

// hoistNested handles a statement (expression statement, assignment, return) that contains exactly one
// receive nested inside a larger expression, e.g. x, _ = f(<-ch, y): when no call and no other receive is
// evaluated before it (Go evaluates calls and receives in lexical left-to-right order), the receive can be
// performed first into a temporary without changing the meaning. Returns nil when the form does not apply.
func (r *rewriter) hoistNested(s ast.Stmt) []ast.Stmt {
	var recvs []*ast.UnaryExpr
	var stack []ast.Node
	var anc []ast.Node // ancestors of the first receive
	ast.Inspect(s, func(n ast.Node) bool {
		if n == nil {
			stack = stack[:len(stack)-1]
			return true
		}
		if _, ok := n.(*ast.FuncLit); ok {
			return false
		}
		if u, ok := n.(*ast.UnaryExpr); ok && u.Op == token.ARROW {
			if len(recvs) == 0 {
				anc = append([]ast.Node(nil), stack...)
			}
			recvs = append(recvs, u)
		}
		stack = append(stack, n)
		return true
	})
	if len(recvs) != 1 {
		return nil
	}
	u := recvs[0]
	isAnc := map[ast.Node]bool{}
	for _, a := range anc {
		isAnc[a] = true
		// the right operand of && and || is evaluated conditionally
		if b, isBin := a.(*ast.BinaryExpr); isBin && (b.Op == token.LAND || b.Op == token.LOR) && u.Pos() >= b.Y.Pos() {
			return nil
		}
	}
	ok := true
	ast.Inspect(s, func(n ast.Node) bool {
		if n == nil || !ok {
			return false
		}
		if _, isLit := n.(*ast.FuncLit); isLit {
			return false
		}
		if c, isCall := n.(*ast.CallExpr); isCall {
			if tv, has := r.info.Types[c.Fun]; has && tv.IsType() {
				return true // a conversion evaluates nothing by itself
			}
			if isAnc[c] {
				// an enclosing call runs after its arguments; the expression that yields the function must not call
				ast.Inspect(c.Fun, func(m ast.Node) bool {
					if _, bad := m.(*ast.CallExpr); bad {
						ok = false
					}
					return ok
				})
				return true
			}
			if c.Pos() < u.Pos() {
				ok = false
			}
		}
		return true
	})
	if !ok {
		return nil
	}
	if ls, isAssign := s.(*ast.AssignStmt); isAssign {
		for _, l := range ls.Lhs {
			if hasRecv(l) {
				return nil
			}
		}
	}
	pre, c, post := r.recvGuards(u)
	tmp := r.name("r")
	recv := &ast.UnaryExpr{Op: token.ARROW, X: c}
	list := append(pre, define(exprs(tmp), recv))
	list = append(list, post...)
	astutil.Apply(s, func(cur *astutil.Cursor) bool {
		if cur.Node() == u {
			cur.Replace(tmp)
			return false
		}
		return true
	}, nil)
	return append(list, s)
}

// recvGuards returns the statements to put before and after a statement
// that performs the receive u (whose operand the caller replaces by c).
func (r *rewriter) recvGuards(u *ast.UnaryExpr) (pre []ast.Stmt, c *ast.Ident, post []ast.Stmt) {
	if hasRecv(u.X) {
		r.errf(u, "nested receive not supported")
	}
	c = r.name("c")
	h := r.name("h")
	pre = []ast.Stmt{define(exprs(c), u.X), define(exprs(h), r.vrt("BeforeRecv", c))}
	post = []ast.Stmt{&ast.ExprStmt{X: r.vrt("After", h)}}
	r.points++
	return
}

func (r *rewriter) goStmt(g *ast.GoStmt) ast.Stmt {
	call := g.Call
	var list []ast.Stmt
	fn := call.Fun
	if _, isLit := unparen(fn).(*ast.FuncLit); !isLit || true {
		f := r.name("f")
		list = append(list, define(exprs(f), fn))
		fn = f
	}
	args := make([]ast.Expr, len(call.Args))
	for i, a := range call.Args {
		if hasRecv(a) {
			r.errf(a, "receive in go argument not supported")
		}
		if r.constLike(a) {
			args[i] = a
			continue
		}
		v := r.name("a")
		list = append(list, define(exprs(v), a))
		args[i] = v
	}
	inner := &ast.CallExpr{Fun: fn, Args: args, Ellipsis: call.Ellipsis}
	lit := &ast.FuncLit{Type: &ast.FuncType{Params: &ast.FieldList{}}, Body: &ast.BlockStmt{List: []ast.Stmt{&ast.ExprStmt{X: inner}}}}
	list = append(list, &ast.ExprStmt{X: r.vrt("Go", lit)})
	r.points++
	return &ast.BlockStmt{List: list}
}

func (r *rewriter) rangeStmt(x *ast.RangeStmt, lbl *ast.LabeledStmt) []ast.Stmt {
	wrap := func(s ast.Stmt) ast.Stmt {
		if lbl != nil {
			lbl.Stmt = s
			return lbl
		}
		return s
	}
	if !r.isChan(x.X) {
		if hasRecv(x.X) {
			r.errf(x, "receive in range expression not supported")
		}
		x.Body.List = r.block(x.Body.List)
		return []ast.Stmt{wrap(x)}
	}
	c := r.name("c")
	h := r.name("h")
	ok := r.name("ok")
	var lhs []ast.Expr
	tok := x.Tok
	if x.Key != nil {
		lhs = []ast.Expr{x.Key, ok}
		if tok == token.ASSIGN {
			// v = range: ok must be declared separately
			r.errf(x, "range over channel with = not supported")
		}
	} else {
		lhs = []ast.Expr{ast.NewIdent("_"), ok}
		tok = token.DEFINE
	}
	body := []ast.Stmt{
		define(exprs(h), r.vrt("BeforeRecv", c)),
		&ast.AssignStmt{Lhs: lhs, Tok: tok, Rhs: []ast.Expr{&ast.UnaryExpr{Op: token.ARROW, X: c}}},
		&ast.ExprStmt{X: r.vrt("After", h)},
		&ast.IfStmt{Cond: &ast.UnaryExpr{Op: token.NOT, X: ok}, Body: &ast.BlockStmt{List: []ast.Stmt{&ast.BranchStmt{Tok: token.BREAK}}}},
	}
	body = append(body, r.block(x.Body.List)...)
	r.points++
	loop := &ast.ForStmt{Body: &ast.BlockStmt{List: body}}
	return []ast.Stmt{&ast.BlockStmt{List: []ast.Stmt{define(exprs(c), x.X), wrap(loop)}}}
}

func (r *rewriter) selectStmt(x *ast.SelectStmt, lbl *ast.LabeledStmt) ast.Stmt {
	var pre []ast.Stmt
	var cases []ast.Expr
	var clauses []ast.Stmt
	hasDefault := false
	h := r.name("h")
	k := r.name("k")
	idx := 0
	for _, c := range x.Body.List {
		cc := c.(*ast.CommClause)
		if cc.Comm == nil {
			hasDefault = true
			clauses = append(clauses, &ast.CaseClause{List: nil, Body: r.block(cc.Body)})
			continue
		}
		var comm ast.Stmt
		switch m := cc.Comm.(type) {
		case *ast.SendStmt:
			if hasRecv(m.Chan) || hasRecv(m.Value) {
				r.errf(m, "receive inside select send not supported")
			}
			ch := r.name("c")
			pre = append(pre, define(exprs(ch), m.Chan))
			val := m.Value
			if !r.constLike(val) {
				v := r.name("v")
				pre = append(pre, define(exprs(v), val))
				val = v
			}
			cases = append(cases, r.vrt("SendCase", ch))
			comm = &ast.SendStmt{Chan: ch, Value: val}
		case *ast.ExprStmt:
			u := asRecv(m.X)
			if u == nil || hasRecv(u.X) {
				r.errf(m, "unsupported select receive")
			}
			ch := r.name("c")
			pre = append(pre, define(exprs(ch), u.X))
			cases = append(cases, r.vrt("RecvCase", ch))
			u.X = ch
			comm = m
		case *ast.AssignStmt:
			if len(m.Rhs) != 1 {
				r.errf(m, "unsupported select receive")
			}
			u := asRecv(m.Rhs[0])
			if u == nil || hasRecv(u.X) {
				r.errf(m, "unsupported select receive")
			}
			for _, l := range m.Lhs {
				if hasRecv(l) {
					r.errf(m, "unsupported select receive")
				}
			}
			ch := r.name("c")
			pre = append(pre, define(exprs(ch), u.X))
			cases = append(cases, r.vrt("RecvCase", ch))
			u.X = ch
			comm = m
		default:
			r.errf(cc, "unsupported comm clause %T", cc.Comm)
		}
		body := []ast.Stmt{comm, &ast.ExprStmt{X: r.vrt("After", h)}}
		body = append(body, r.block(cc.Body)...)
		clauses = append(clauses, &ast.CaseClause{List: []ast.Expr{&ast.BasicLit{Kind: token.INT, Value: strconv.Itoa(idx)}}, Body: body})
		idx++
		r.points++
	}
	def := "false"
	if hasDefault {
		def = "true"
	}
	args := append([]ast.Expr{ast.NewIdent(def)}, cases...)
	pre = append(pre,
		define(exprs(h, k), r.vrt("Select", args...)),
		&ast.AssignStmt{Lhs: []ast.Expr{ast.NewIdent("_")}, Tok: token.ASSIGN, Rhs: []ast.Expr{h}})
	var sw ast.Stmt = &ast.SwitchStmt{Tag: k, Body: &ast.BlockStmt{List: clauses}}
	if lbl != nil {
		lbl.Stmt = sw
		sw = lbl
	}
	return &ast.BlockStmt{List: append(pre, sw)}
}

var _ = sort.Strings
