#!/bin/bash
# scripts/benigncheck.sh C05 [tier] — run our check against a behaviour-preserving change produced by an
# independent sub-agent (/tmp/ben-C05-out/patch.diff + notes.md) and archive it under /verif/benign/C05/.
# Expected: exit 0 (no alarm). Anything else is examined by hand: either the change does alter behaviour
# (then it is not benign) or the check demands more than the property (then the check is corrected).
set -u
export GOFLAGS=-mod=mod GOPROXY=off GOSUMDB=off GOTOOLCHAIN=local
ID=$1; TIER=${2:-quick}; OUT=/tmp/ben-$ID-out; DST=/verif/benign/$ID
[ -f $OUT/patch.diff ] || { echo "$ID: no patch.diff"; exit 2; }
mkdir -p $DST
WT=$(mktemp -d /tmp/bc-XXXXXX); rmdir $WT
git -C /repo worktree add -q --detach $WT HEAD || exit 2
trap 'git -C /repo worktree remove --force $WT 2>/dev/null; rm -rf $WT /verif/.work/*$(basename $WT | tr -c "A-Za-z0-9\n" "_")*' EXIT
git -C $WT apply $OUT/patch.diff 2>/dev/null || { echo "$ID: patch does not apply"; exit 3; }
build=ok; (cd $WT && go build ./... >/dev/null 2>&1) || build=FAIL
suite=ok; (cd $WT && go test -vet=off -count=1 ./... > $WT/suite.log 2>&1) || suite=FAIL
out=$(cd /verif && VERIF_REPO=$WT ./check $ID $TIER 2>&1); rc=$?
verdict=QUIET; [ $rc -eq 1 ] && verdict=ALARM; [ $rc -ge 2 ] && verdict=INFRA
first=$(echo "$out" | grep -A1 "^VIOLATION\|^INFRA\|INSTRUMENTATION" | head -3 | tr '\n' ' ' | cut -c1-400)
cp $OUT/patch.diff $DST/patch.diff
[ -f $OUT/notes.md ] && cp $OUT/notes.md $DST/notes.md
python3 - "$ID" "$build" "$suite" "$verdict" "$rc" "$first" "$TIER" "$(git -C $WT diff --stat | tail -1)" > $DST/meta.json <<'PY'
import json,sys,subprocess
ID,build,suite,verdict,rc,first,tier,stat=sys.argv[1:9]
head=subprocess.check_output(['git','-C','/repo','rev-parse','--short','HEAD']).decode().strip()
print(json.dumps({"property":ID,"kind":"behaviour-preserving change (false-alarm probe)","origin":"independent sub-agent given only the property text and a scratch worktree",
 "repo_head_checked":head,"build_with_change":build,"pinned_suite_with_change":suite,"diffstat":stat.strip(),
 "our_check":"VERIF_REPO=<worktree with patch> ./check %s %s"%(ID,tier),"our_check_exit":int(rc),"our_check_verdict":verdict,"first_output":first},indent=1))
PY
echo "$ID: build=$build suite=$suite check=$verdict (rc=$rc) | $first"
