#!/usr/bin/env python3
"""scripts/seed_prompt.py <id> <round> — print the prompt handed to an independent seeding sub-agent.
The agent gets the property record (verbatim from properties.jsonl), a scratch worktree and the
one-line descriptions of the changes earlier rounds produced (so that it picks another site and
mechanism). Nothing about the checks in /verif is included."""
import json, sys, os, glob
pid, rnd = sys.argv[1], sys.argv[2]
prop = None
for l in open('/verif/properties.jsonl'):
    p = json.loads(l)
    if p['id'] == pid:
        prop = p
earlier = []
for d in sorted(glob.glob('/verif/seeded/%s*' % pid)):
    try:
        m = json.load(open(d + '/meta.json'))
        if m.get('change'):
            earlier.append(m['change'])
    except Exception:
        pass
wt = '/tmp/seed%s-%s' % (rnd, pid)
out = wt + '-out'
print(f"""You are helping to test a verification effort for the Go project graphite-ng/carbon-relay-ng (a Graphite carbon metrics relay). You work ONLY in your own scratch git worktree of the repository at {wt} (already created; it is a detached checkout of the project's current HEAD). Do not read or write anything under /verif or /repo, and do not look at other /tmp/seed* directories. There is no network. For every shell call use: export GOFLAGS=-mod=mod GOPROXY=off GOSUMDB=off GOTOOLCHAIN=local

Here is a semantic property of carbon-relay-ng that is supposed to hold (JSON record):

{json.dumps(prop, indent=1)}

YOUR TASK: produce ONE realistic change to the repository's non-test Go source (the kind of slip a competent developer could make in a refactoring, optimisation or feature patch, 1-40 changed lines) that BREAKS this property, while
  (a) the repository still compiles (`go build ./...`),
  (b) the existing test suite still passes unedited: `cd {wt} && go test -vet=off -count=1 ./...` (takes ~15-60 s; run it),
  (c) the breakage needs something SPECIFIC to manifest — a particular interleaving, a crash or fault at a particular point, a multi-step sequence of operations, an unusual input or configuration value, or two cooperating sites that each look fine alone — NOT something ordinary use would expose at once.

Earlier rounds already produced the following changes for this property; choose a DIFFERENT site and a DIFFERENT mechanism from all of them:
""" + ''.join('  - %s\n' % e for e in earlier) + f"""
Deliverables, all under {out}/ (create the directory):
  1. patch.diff — `git -C {wt} diff` of your change to non-test sources only (no new test files in the diff).
  2. A demonstration: a NEW Go test file in the worktree (name it <pkg>/seed_demo_test.go or similar, test function names must start with TestSeed) that FAILS with your change and PASSES without it. Leave it as an untracked file in the worktree (do not put it in patch.diff). It must be deterministic (no flaky sleeps; if it needs a schedule, force it with channels/hooks available in the test, or loop until it is certain) and finish within 2 minutes. Verify both directions yourself: run it with the change (fails), save the change with `git diff > /tmp/seedN-ID.patch`-style file in your OUT directory, `git apply -R` it / run (passes) / `git apply` it again — NEVER use `git stash`: the stash is shared by all worktrees of the repository and other agents work in sibling worktrees.
  3. notes.md — what the change is (file/function), why it breaks the property as stated (refer to the statement's wording), and exactly what is needed for it to manifest (the input, schedule, fault point or operation sequence).

Rules: do not edit or delete existing tests; do not add build tags; do not touch go.mod/go.sum/vendor; keep the change small and plausible (no `if name == "magic"` special-casing; no sleeps added to production code); the change must break THIS property as stated, within its quantifier (not merely some other behaviour). If, while reading the code, you notice that the UNCHANGED code already violates the property for some input/schedule, say so in notes.md under a heading "Side remark" with the concrete failing case — but still deliver a change as asked.

When done, leave the worktree with your change applied and the demo test present, and reply with a 5-line summary: file/function changed, mechanism, what it needs to manifest, and the demo command with its results with/without the change.""")
