#!/bin/bash
# validate MANIFEST.json and all evidence files against the schemas
python3-vt - <<'PY'
import json, jsonschema, glob, sys
m=json.load(open('/verif/MANIFEST.json'))
jsonschema.validate(m,json.load(open('/root/.vp/MANIFEST.schema.json')))
es=json.load(open('/root/.vp/EVIDENCE.schema.json'))
ok=True
for c in m['checks']:
    try:
        jsonschema.validate(json.load(open(c['evidence_file'])),es)
    except Exception as e:
        ok=False; print("BAD", c['evidence_file'], str(e)[:300])
props=[json.loads(l)['id'] for l in open('/verif/properties.jsonl')]
cl={c['property_id'] for c in m['checks']}; na={x['property_id'] for x in m.get('not_applicable',[])}
for p in props:
    if (p in cl)==(p in na): ok=False; print("property",p,"claimed/NA mismatch")
print("manifest+evidence OK" if ok else "PROBLEMS")
sys.exit(0 if ok else 1)
PY
