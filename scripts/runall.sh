#!/bin/bash
# scripts/runall.sh quick|thorough [ids...] — run checks one after the other, print one line each
TIER=${1:-quick}; shift
IDS=${@:-C01 C02 C03 C04 C05 C06 C07 C08 C09 C10 C11 C12 C13 C14 C15 C16 C17 C18 C19 C20}
cd /verif
for id in $IDS; do
  s=$(date +%s)
  r=$(./check $id $TIER 2>&1 | grep -E "^OK|^FAIL|INFRA|^VIOLATION|^KNOWN" | head -4 | cut -c1-220 | tr '\n' ' ')
  e=$(date +%s)
  x=$(python3 -c "
import json
try:
    e=json.load(open('/verif/evidence/$id.json')); c=e['coverage']; print({k:c[k] for k in c if k in('executions','exhaustive','evaluations','states','distinct_nontrivial')})
except Exception as ex: print('no evidence', ex)")
  echo "$id $TIER $((e-s))s $r $x"
  [ "$TIER" = thorough ] && cp evidence/$id.json .work/thorough-$id.json 2>/dev/null
done
