#!/bin/bash
# scripts/seedcheck.sh C05 — confirm a seeded change produced by an independent sub-agent
# (/tmp/seed-C05 worktree + /tmp/seed-C05-out deliverables), run our check against it, and
# archive it under /verif/seeded/C05/.
set -u
export GOFLAGS=-mod=mod GOPROXY=off GOSUMDB=off GOTOOLCHAIN=local
ID=$1; R=${SEED_ROUND:-}; SRC=/tmp/seed$R-$ID; OUT=/tmp/seed$R-$ID-out; DST=/verif/seeded/$ID$( [ -n "$R" ] && echo "-r$R" )
[ -f $OUT/patch.diff ] || { echo "$ID: no patch.diff"; exit 2; }
mkdir -p $DST
WT=$(mktemp -d /tmp/sc-XXXXXX); rmdir $WT
git -C /repo worktree add -q --detach $WT HEAD || exit 2
trap 'git -C /repo worktree remove --force $WT 2>/dev/null; rm -rf $WT /verif/.work/*$(basename $WT | tr -c "A-Za-z0-9\n" "_")*' EXIT
applies=yes
git -C $WT apply $OUT/patch.diff 2>/dev/null || git -C $WT apply --3way $OUT/patch.diff 2>/dev/null || applies=no
if [ $applies = no ]; then echo "$ID: patch does not apply to current HEAD"; echo '{"applies": false}' > $DST/meta.tmp; exit 3; fi
# demo files: untracked files of the seeder's worktree
demos=$(git -C $SRC status --porcelain | awk '$1=="??"{print $2}' | grep '_test.go$\|\.go$')
for f in $demos; do mkdir -p $WT/$(dirname $f); cp $SRC/$f $WT/$f; done
pkgs=$(for f in $demos; do echo ./$(dirname $f)/; done | sort -u | tr '\n' ' ')
build=ok; (cd $WT && go build ./... >/dev/null 2>&1) || build=FAIL
# pinned suite with the change but without the demos
for f in $demos; do mv $WT/$f $WT/$f.off; done
suite=ok; (cd $WT && go test -vet=off -count=1 ./... > $WT/suite.log 2>&1) || suite=FAIL
for f in $demos; do mv $WT/$f.off $WT/$f; done
demo_with=pass; (cd $WT && timeout 600 go test -vet=off -count=1 -run 'Seed' $pkgs > $WT/with.log 2>&1) || demo_with=fail
git -C $WT apply -R $OUT/patch.diff 2>/dev/null || (cd $WT && git checkout -q -- $(git -C $WT diff --name-only))
demo_without=pass; (cd $WT && timeout 600 go test -vet=off -count=1 -run 'Seed' $pkgs > $WT/without.log 2>&1) || demo_without=fail
git -C $WT apply $OUT/patch.diff 2>/dev/null || git -C $WT apply --3way $OUT/patch.diff 2>/dev/null
for f in $demos; do rm -f $WT/$f; done
TIER=${2:-quick}
# the run against the changed tree must not replace the evidence of the unchanged tree
EV=/verif/evidence/${ID%U}.json; [ -f $EV ] && cp $EV $EV.keep
out=$(cd /verif && VERIF_REPO=$WT ./check $ID $TIER 2>&1); rc=$?
[ -f $EV.keep ] && mv $EV.keep $EV
verdict=MISSED; if [ $rc -eq 1 ] && echo "$out" | grep -q "^VIOLATION property=$ID"; then verdict=CAUGHT; fi
first=$(echo "$out" | grep -A1 "^VIOLATION" | sed -n 2p | cut -c1-300)
cp $OUT/patch.diff $DST/patch.diff
for f in $demos; do cp $SRC/$f $DST/$(echo $f | tr '/' '_'); done
[ -f $OUT/notes.md ] && cp $OUT/notes.md $DST/notes.md
[ -f $OUT/demo.md ] && cp $OUT/demo.md $DST/demo.md
python3 - "$ID" "$build" "$suite" "$demo_with" "$demo_without" "$verdict" "$rc" "$first" "$pkgs" "$TIER" "$DST/meta.json" > $DST/meta.new <<'PY'
import json,sys,subprocess
ID,build,suite,dw,dwo,verdict,rc,first,pkgs,tier,old=sys.argv[1:12]
head=subprocess.check_output(['git','-C','/repo','rev-parse','--short','HEAD']).decode().strip()
keep={}
try:
    o=json.load(open(old))
    keep={k:v for k,v in o.items() if k in ('change','needs_to_manifest','round','history')}
    if o.get('our_check_verdict') and o.get('our_check_verdict')!=verdict:
        keep['history']=keep.get('history',[])+["earlier run of the check as it stood then: "+o['our_check_verdict']]
except Exception: pass
m=({"property":ID,"origin":"independent sub-agent given only the property text and a scratch worktree","repo_head_checked":head,
 "build_with_change":build,"pinned_suite_with_change":suite,"demo_with_change":dw,"demo_without_change":dwo,"demo_command":"go test -vet=off -count=1 -run Seed "+pkgs,
 "our_check":"VERIF_REPO=<worktree with patch> ./check %s %s"%(ID,tier),"our_check_exit":int(rc),"our_check_verdict":verdict,"first_violation":first,
 "needs_to_manifest":"see notes.md"})
m.update(keep)
print(json.dumps(m,indent=1))
PY
mv $DST/meta.new $DST/meta.json
echo "$ID: build=$build suite=$suite demo_with=$demo_with demo_without=$demo_without check=$verdict (rc=$rc) | $first"
