#!/bin/bash
# Offline setup: build the instrumenter and warm the Go build cache for every harness.
set -u
export GOFLAGS=-mod=mod GOPROXY=off GOSUMDB=off GOTOOLCHAIN=local CGO_ENABLED=0
cd /verif || exit 2
mkdir -p .bin .work evidence replays
(cd vinstr && go build -o /verif/.bin/vinstr .) || exit 2
rc=0
for d in mc/props/c*; do
  id=$(basename $d | tr 'a-z' 'A-Z')
  ./check $id --build-only || rc=2
done
exit $rc
