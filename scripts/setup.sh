#!/bin/bash
# Offline setup: build the instrumenter and warm the Go build cache for every harness.
set -u
export GOFLAGS=-mod=mod GOPROXY=off GOSUMDB=off GOTOOLCHAIN=local CGO_ENABLED=0
cd /verif || exit 2
mkdir -p .bin .work evidence replays
(cd vinstr && go build -o /verif/.bin/vinstr .) || exit 2
rc=0
for d in mc/props/c[0-9][0-9]; do
  id=$(basename $d | tr 'a-z' 'A-Z')
  ./check $id --build-only || rc=2
done
# race-enabled build of the free-running complement of C14 (needs cgo; skipped by the check if impossible)
(cd mc && CGO_ENABLED=1 go build -race -o /verif/.work/c14race-warm ./c14race >/dev/null 2>&1; rm -f /verif/.work/c14race-warm) || true
exit $rc
