#!/bin/bash
# scripts/mutant.sh <patch.diff> <property id> [tier]   — apply a property-breaking patch to /repo,
# run the check (expect VIOLATION), always revert. Prints CAUGHT / MISSED.
set -u
PATCH=$(readlink -f "$1"); ID=$2; TIER=${3:-quick}
cd /repo || exit 2
if [ -n "$(git status --porcelain)" ]; then echo "repo not clean"; exit 2; fi
git apply "$PATCH" || { echo "patch does not apply"; exit 2; }
trap 'git -C /repo checkout -- . ; git -C /repo clean -fdq' EXIT
if [ "${MUTANT_TESTS:-0}" = 1 ]; then
  (cd /repo && GOFLAGS=-mod=mod GOPROXY=off GOSUMDB=off go test -vet=off -count=1 ./... 2>&1 | grep -v "^ok\|no test files" | head -20)
fi
out=$(cd /verif && ./check "$ID" "$TIER" 2>&1); rc=$?
echo "$out" | grep -E "VIOLATION|KNOWN-FINDING|INFRA|OK property|FAIL" | head -8
if [ $rc -eq 1 ] && echo "$out" | grep -q "^VIOLATION property=$ID"; then echo "CAUGHT $(basename $PATCH) by $ID"; else echo "MISSED $(basename $PATCH) by $ID (rc=$rc)"; fi
