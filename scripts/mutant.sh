#!/bin/bash
# scripts/mutant.sh <patch.diff> <property id> [tier]
# Applies a property-breaking patch to a scratch worktree of /repo (never to /repo itself), runs the
# check against it (expects VIOLATION), removes the worktree. MUTANT_TESTS=1 also runs the pinned
# test-suite on the patched tree. Prints CAUGHT / MISSED.
set -u
PATCH=$(readlink -f "$1"); ID=$2; TIER=${3:-quick}
WT=$(mktemp -d /tmp/mut-XXXXXX)
rmdir "$WT"
git -C /repo worktree add -q --detach "$WT" HEAD || exit 2
trap 'git -C /repo worktree remove --force "$WT" 2>/dev/null; rm -rf "$WT" /verif/.work/*$(basename $WT | tr -c "A-Za-z0-9\n" "_")*' EXIT
git -C "$WT" apply "$PATCH" || { echo "patch does not apply: $PATCH"; exit 2; }
if [ "${MUTANT_TESTS:-0}" = 1 ]; then
  (cd "$WT" && GOFLAGS=-mod=mod GOPROXY=off GOSUMDB=off go test -vet=off -count=1 ./... 2>&1 | grep -v "^ok\|no test files" | head -20)
fi
# the run against the changed tree must not replace the evidence of the unchanged tree
EV=/verif/evidence/${ID%U}.json; [ -f $EV ] && cp $EV $EV.keep
out=$(cd /verif && VERIF_REPO="$WT" ./check "$ID" "$TIER" 2>&1); rc=$?
[ -f $EV.keep ] && mv $EV.keep $EV
echo "$out" | grep -E "VIOLATION|KNOWN-FINDING|INFRA|OK property|FAIL" | head -6
if [ $rc -eq 1 ] && echo "$out" | grep -q "^VIOLATION property=${ID%U}"; then echo "CAUGHT $(basename $PATCH) by $ID"; else echo "MISSED $(basename $PATCH) by $ID (rc=$rc)"; fi
