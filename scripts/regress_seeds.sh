#!/bin/bash
# scripts/regress_seeds.sh [ids...] — re-run every archived seeded change (all rounds) against the check of
# its property; prints one line per seed. Used after changes to the machinery to see that nothing that was
# caught has become invisible.
cd /verif
for d in seeded/*/; do
  n=$(basename $d); id=${n%%-*}
  if [ $# -gt 0 ] && ! echo " $* " | grep -q " $id "; then continue; fi
  [ -f $d/patch.diff ] || continue
  r=$(scripts/mutant.sh $d/patch.diff $id 2>&1 | tail -1 | cut -c1-60)
  echo "$n $r"
done
