// Package destharn models the remote TCP endpoint of a carbon destination for
// the scheduler-controlled harnesses (C05, C06, C07): an in-memory network
// installed as vrt.SetEnv("net", *Net) and reached through the vnet shim that
// replaces package net in the instrumented destination package.
package destharn

import (
	"errors"
	"io"
	"time"

	"verif/mc/vrt"
	"verif/mc/vrt/vnet"
)

// Reading behaviour of the modelled peer.
const (
	ReadAll   = iota // the peer consumes every byte at once
	ReadNever        // the peer never reads: writes block once SockBuf bytes are in flight
)

type Net struct {
	Up      bool // a dial succeeds only while Up
	Mode    int
	SockBuf int
	Conns   []*Ep // every accepted connection, in order
	Dials   int
	Refused int
	// DialDelay > 0: a connection attempt takes this long (virtual time) before it is answered
	DialDelay time.Duration
	// WriteErrChoice: a write on a connection the peer has closed either is lost silently
	// (the kernel accepted it) or fails with a broken-pipe error - chosen exhaustively
	WriteErrChoice bool
	// CloseAfterWrites > 0: the peer closes a connection after that many Write calls on it
	CloseAfterWrites int
	// CloseFirstAfterWrites > 0: the same for the first connection only (later ones stay healthy)
	CloseFirstAfterWrites int
}

type Ep struct {
	net         *Net
	Recv        []byte // bytes the peer received before it closed
	Lost        []byte // bytes written after the peer had closed
	inFlight    int
	PeerClosed  bool
	LocalClosed bool
	Writes      int
}

var errClosed = errors.New("use of closed network connection")

func (n *Net) Dial(addr string) (vnet.Endpoint, error) {
	n.Dials++
	if n.DialDelay > 0 {
		vrt.Sleep(n.DialDelay)
	}
	if !n.Up {
		n.Refused++
		return nil, errors.New("dial tcp " + addr + ": connection refused")
	}
	e := &Ep{net: n}
	n.Conns = append(n.Conns, e)
	return e, nil
}

// ClosePeer: the remote side closes the connection (FIN): reads on our side
// return EOF, bytes written afterwards are lost.
func (e *Ep) ClosePeer() { e.PeerClosed = true }

func (e *Ep) Read(b []byte) (int, error) {
	vrt.WaitUntil("net.Read", func() bool { return e.PeerClosed || e.LocalClosed })
	if e.LocalClosed {
		return 0, errClosed
	}
	return 0, io.EOF
}

func (e *Ep) Write(b []byte) (int, error) {
	if e.LocalClosed {
		return 0, errClosed
	}
	e.Writes++
	if e.PeerClosed {
		if e.net.WriteErrChoice && vrt.Choose(2, "write after peer close: accepted-and-lost | broken pipe") == 1 {
			return 0, errors.New("write tcp: broken pipe")
		}
		e.Lost = append(e.Lost, b...)
		return len(b), nil
	}
	if e.net.Mode == ReadNever {
		if e.inFlight+len(b) > e.net.SockBuf {
			// the kernel buffer is full and nobody drains it: the write blocks
			// until the connection is closed locally
			vrt.WaitUntil("net.Write(blocked)", func() bool { return e.LocalClosed })
			return 0, errClosed
		}
		e.inFlight += len(b)
		return len(b), nil
	}
	e.Recv = append(e.Recv, b...)
	if e.net.CloseAfterWrites > 0 && e.Writes >= e.net.CloseAfterWrites {
		e.PeerClosed = true
	}
	if e.net.CloseFirstAfterWrites > 0 && e.net.Conns[0] == e && e.Writes >= e.net.CloseFirstAfterWrites {
		e.PeerClosed = true
	}
	return len(b), nil
}

func (e *Ep) Close() error {
	if e.LocalClosed {
		return errClosed
	}
	e.LocalClosed = true
	return nil
}

// AllRecv concatenates what all incarnations of the endpoint received.
func (n *Net) AllRecv() []byte {
	var out []byte
	for _, c := range n.Conns {
		out = append(out, c.Recv...)
	}
	return out
}
