// c14race is the free-running complement of the C14 check: the controlled
// scheduler serialises goroutines, so unsynchronised accesses to a Go map (on
// which the runtime aborts the whole process: "fatal error: concurrent map
// writes") can never fire under it. This program is built with -race by the
// C14 harness and drives the relay's dispatch path from several goroutines at
// once, with order validation on (the only process-wide map on that path),
// an aggregation, a blacklist, a rewriter and concurrent admin operations.
// It only produces the race detector's report on stderr; the harness decides.
package main

import (
	"fmt"
	"io"
	"os"
	"sync"
	"time"

	"github.com/grafana/carbon-relay-ng/aggregator"
	dest "github.com/grafana/carbon-relay-ng/destination"
	"github.com/grafana/carbon-relay-ng/matcher"
	"github.com/grafana/carbon-relay-ng/rewriter"
	"github.com/grafana/carbon-relay-ng/route"
	"github.com/grafana/carbon-relay-ng/table"
	"github.com/grafana/carbon-relay-ng/validate"
	m20 "github.com/metrics20/go-metrics20/carbon20"
	log "github.com/sirupsen/logrus"
)

type sink struct {
	mu sync.Mutex
	n  int
}

func (s *sink) Dispatch(buf []byte)                             { s.mu.Lock(); s.n++; s.mu.Unlock() }
func (s *sink) Match(b []byte) bool                             { return true }
func (s *sink) Snapshot() route.Snapshot                        { return route.Snapshot{Key: "sink", Type: "sink"} }
func (s *sink) Key() string                                     { return "sink" }
func (s *sink) Flush() error                                    { return nil }
func (s *sink) Shutdown() error                                 { return nil }
func (s *sink) GetDestination(i int) (*dest.Destination, error) { return nil, fmt.Errorf("none") }
func (s *sink) DelDestination(i int) error                      { return fmt.Errorf("none") }
func (s *sink) UpdateDestination(i int, o map[string]string) error {
	return fmt.Errorf("none")
}
func (s *sink) Update(o map[string]string) error { return fmt.Errorf("none") }

func main() {
	log.SetLevel(log.PanicLevel)
	log.SetOutput(io.Discard)
	if dn, err := os.OpenFile(os.DevNull, os.O_WRONLY, 0); err == nil {
		os.Stdout = dn
	}
	aggregator.InitMetrics()
	cfg, err := table.NewTableConfig("/tmp/verif-nospool", "1h", validate.LevelLegacy{Level: m20.MediumLegacy}, validate.LevelM20{Level: m20.MediumM20}, true)
	if err != nil {
		panic(err)
	}
	t := table.New(cfg)
	t.AddRoute(&sink{})
	bl, _ := matcher.New("zz", "", "", "", "", "")
	t.AddBlacklist(&bl)
	rw, _ := rewriter.New("x", "y", "", -1)
	t.AddRewriter(rw)
	am, _ := matcher.New("", "", "", "", "^a\\.(.*)", "")
	out := make(chan []byte, 1000)
	go func() {
		for range out {
		}
	}()
	agg, err := aggregator.New("sum", am, "agg.$1", true, 1, 1, false, out)
	if err != nil {
		panic(err)
	}
	t.AddAggregator(agg)

	const workers, per = 8, 4000
	var wg sync.WaitGroup
	now := uint32(time.Now().Unix())
	for w := 0; w < workers; w++ {
		wg.Add(1)
		go func(w int) {
			defer wg.Done()
			for i := 0; i < per; i++ {
				name := []string{"a.b", "a.c", "x.y", "zz.q", "m"}[i%5]
				t.Dispatch([]byte(fmt.Sprintf("%s %d %d", name, i, now+uint32(i/7))))
				if i%500 == 0 {
					t.Dispatch([]byte("not a metric"))
				}
			}
		}(w)
	}
	wg.Add(1)
	go func() {
		defer wg.Done()
		for i := 0; i < 50; i++ {
			m, _ := matcher.New("q", "", "", "", "", "")
			t.AddBlacklist(&m)
			t.Snapshot()
			t.DelBlacklist(1)
			t.Bad().Get(time.Hour)
		}
	}()
	wg.Wait()
	t.DelAggregator(0)
	fmt.Fprintln(os.Stderr, "C14RACE-DONE")
}
