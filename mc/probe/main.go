package main

import (
	"fmt"

	"github.com/grafana/carbon-relay-ng/table"
	_ "github.com/anishathalye/porcupine"
)

func main() {
	fmt.Println(table.New)
}
