// Package dq drives the real nsqd.DiskQueue on the in-memory filesystem vos
// under the controlled scheduler, one operation history per execution. The
// history is chosen with vrt.Choose, so the stateless explorer enumerates all
// histories up to the depth; scheduling choices keep their default (the queue
// is taken to rest with vrt.Quiesce after every operation).
//
// C09 uses it with the oracle "exact FIFO + depth"; C08 additionally takes a
// snapshot of the filesystem after every mutating filesystem operation of the
// last step (= every crash point) and checks recovery from each of them.
package dq

import (
	"bytes"
	"fmt"
	"strings"
	"time"

	"github.com/grafana/carbon-relay-ng/nsqd"

	"verif/mc/vrt"
	"verif/mc/vrt/vos"
)

type Config struct {
	MaxBytes  int64
	SyncEvery int64
	Sizes     []int // message sizes of the put operations
	Reopen    bool  // include close+reopen in the alphabet
	Tick      bool  // include the sync-timeout tick
	Depth     int
	Crash     bool // C08: check recovery from every crash point of the last step
	PostPut   bool // after recovery put one more message and expect it last
	First     []Op // forced first operations (used to split one configuration into several scenarios)
}

func (c Config) Name() string {
	return fmt.Sprintf("maxBytes=%d syncEvery=%d sizes=%v depth=%d first=%v", c.MaxBytes, c.SyncEvery, c.Sizes, c.Depth, c.First)
}

const syncTimeout = time.Hour
const dir = "/spool"
const qname = "q"

type Op struct {
	Kind string // put get reopen tick
	Size int
}

func (o Op) String() string {
	if o.Kind == "put" {
		return fmt.Sprintf("put(%d)", o.Size)
	}
	return o.Kind
}

func (c Config) Ops() []Op {
	var ops []Op
	for _, s := range c.Sizes {
		ops = append(ops, Op{"put", s})
	}
	ops = append(ops, Op{"get", 0})
	if c.Reopen {
		ops = append(ops, Op{"reopen", 0})
	}
	if c.Tick {
		ops = append(ops, Op{"tick", 0})
	}
	return ops
}

// image is one crash state with what the oracle needs to know about it.
type image struct {
	fs    *vos.FS
	after string // the filesystem operation after which the process died
	enq   int    // messages whose Put had been started (upper bound of what may exist)
	cMax  int    // messages the consumer may have received (gets started)
	cs    int    // messages consumed (gets completed) at the last completed metadata rename
	ws    int    // data writes completed at the last completed metadata rename
}

type Exec struct {
	Cfg  Config
	Hist []Op
	Viol string
	Out  string

	fs            *vos.FS
	q             *nsqd.DiskQueue
	msgs          [][]byte // everything ever enqueued, in order
	head          int      // model: index of the next message to be delivered
	putsStart     int
	getsStart     int
	getsDone      int
	writes        int // completed data-file writes
	cs, ws        int
	recording     bool
	images        []image
	Recovered     int
	Trivial       int
	PostAnomalies int
	Images        int
}

func payload(i, size int) []byte {
	b := make([]byte, size)
	for k := range b {
		b[k] = byte('a' + (i+k)%26)
	}
	if size > 0 {
		b[0] = byte('A' + i%26)
	}
	return b
}

func (e *Exec) open() *nsqd.DiskQueue {
	return nsqd.NewDiskQueue(qname, dir, e.Cfg.MaxBytes, e.Cfg.SyncEvery, syncTimeout).(*nsqd.DiskQueue)
}

func (e *Exec) hook(fs *vos.FS, op vos.Op) {
	if op.Kind == "write" && strings.HasSuffix(op.Path, ".dat") && !strings.Contains(op.Path, "meta") {
		e.writes++
	}
	if op.Kind == "rename" && strings.HasSuffix(op.To, ".meta.dat") {
		e.cs = e.getsDone
		e.ws = e.writes
	}
	if e.recording {
		e.images = append(e.images, image{fs: fs.Clone(), after: op.String(), enq: e.putsStart, cMax: e.getsStart, cs: e.cs, ws: e.ws})
	}
}

func (e *Exec) fail(format string, a ...interface{}) {
	if e.Viol == "" {
		e.Viol = fmt.Sprintf(format, a...)
	}
}

func (e *Exec) histString() string {
	var s []string
	for _, o := range e.Hist {
		s = append(s, o.String())
	}
	return strings.Join(s, " ")
}

func (e *Exec) apply(o Op) {
	switch o.Kind {
	case "put":
		m := payload(len(e.msgs), o.Size)
		e.msgs = append(e.msgs, m)
		e.putsStart++
		if err := e.q.Put(m); err != nil {
			e.fail("Put returned error %v", err)
		}
	case "get":
		if e.head < len(e.msgs) {
			e.getsStart++
			v, ok := vrt.RecvFrom(e.q.ReadChan())
			e.getsDone++
			if !ok {
				e.fail("read channel closed")
				return
			}
			got := v.([]byte)
			if !bytes.Equal(got, e.msgs[e.head]) {
				e.fail("FIFO: delivered %q, expected message #%d %q", got, e.head, e.msgs[e.head])
			}
			e.head++
		} else {
			if v, ok := vrt.TryRecv(e.q.ReadChan()); ok {
				e.fail("FIFO: empty queue delivered %q", v.([]byte))
			}
		}
	case "reopen":
		if err := e.q.Close(); err != nil {
			e.fail("Close returned error %v", err)
		}
		e.q = e.open()
	case "tick":
		vrt.Sleep(syncTimeout + time.Nanosecond)
	}
}

func (e *Exec) Body() {
	e.fs = vos.NewFS()
	e.fs.Hook = e.hook
	vrt.SetEnv("fs", e.fs)
	e.q = e.open()
	vrt.Quiesce()
	ops := e.Cfg.Ops()
	for step := 0; step < e.Cfg.Depth; step++ {
		var o Op
		if step < len(e.Cfg.First) {
			o = e.Cfg.First[step]
		} else {
			k := vrt.Choose(len(ops)+1, "op")
			if k == 0 {
				break
			}
			o = ops[k-1]
		}
		e.Hist = append(e.Hist, o)
		// crash points of this step are checked by the execution in which it is the last step
		e.images = e.images[:0]
		e.recording = e.Cfg.Crash
		e.apply(o)
		vrt.Quiesce()
		e.recording = false
		if e.Viol != "" {
			return
		}
		if d, want := e.q.Depth(), int64(len(e.msgs)-e.head); d != want {
			e.fail("depth at rest is %d, %d messages enqueued and not delivered (state %s)", d, want, e.q.VerifState())
			return
		}
	}
	if e.Cfg.Crash {
		e.recoverAll()
		return
	}
	// C09 final oracle: a clean restart followed by draining delivers exactly the rest
	if err := e.q.Close(); err != nil {
		e.fail("Close returned error %v", err)
		return
	}
	e.q = e.open()
	vrt.Quiesce()
	if d, want := e.q.Depth(), int64(len(e.msgs)-e.head); d != want {
		e.fail("depth after reopen is %d, want %d (state %s)", d, want, e.q.VerifState())
		return
	}
	for e.head < len(e.msgs) {
		v, ok := vrt.RecvFrom(e.q.ReadChan())
		if !ok {
			e.fail("read channel closed")
			return
		}
		if !bytes.Equal(v.([]byte), e.msgs[e.head]) {
			e.fail("FIFO after reopen: delivered %q, expected message #%d %q", v.([]byte), e.head, e.msgs[e.head])
			return
		}
		e.head++
	}
	vrt.Quiesce()
	if v, ok := vrt.TryRecv(e.q.ReadChan()); ok {
		e.fail("FIFO: drained queue delivered extra %q", v.([]byte))
		return
	}
	if d := e.q.Depth(); d != 0 {
		e.fail("depth of drained queue is %d", d)
	}
}

func (e *Exec) recoverAll() {
	e.Images = len(e.images)
	for _, im := range e.images {
		e.Recovered++
		if im.enq == 0 {
			e.Trivial++
		}
		fs := im.fs
		fs.Hook = nil
		vrt.SetEnv("fs", fs)
		q := e.open()
		var got [][]byte
		for {
			vrt.Quiesce()
			v, ok := vrt.TryRecv(q.ReadChan())
			if !ok {
				break
			}
			got = append(got, v.([]byte))
			if len(got) > len(e.msgs)+2 {
				break
			}
		}
		// the oracle of the statement: got == msgs[i:j) with cs <= i <= cMax and ws <= j <= enq
		ok := false
		for i := im.cs; i <= im.cMax && !ok; i++ {
			for j := im.ws; j <= im.enq; j++ {
				if j < i {
					continue
				}
				if j-i != len(got) {
					continue
				}
				same := true
				for k := range got {
					if !bytes.Equal(got[k], e.msgs[i+k]) {
						same = false
						break
					}
				}
				if same {
					ok = true
					break
				}
			}
		}
		if !ok {
			var gs []string
			for _, g := range got {
				gs = append(gs, string(g))
			}
			var ms []string
			for _, m := range e.msgs {
				ms = append(ms, string(m))
			}
			e.fail("crash after %s: recovered queue delivered %q; enqueued %q, consumer had taken <=%d, last completed sync covered consumed=%d written=%d; expected a contiguous run [i,j) with %d<=i<=%d, %d<=j<=%d (files %s)",
				im.after, gs, ms, im.cMax, im.cs, im.ws, im.cs, im.cMax, im.ws, im.enq, fs.Key())
			return
		}
		if e.Cfg.PostPut {
			// beyond the letter of C08 (informational): does the recovered queue
			// deliver a message enqueued after the recovery next?
			m := []byte("POST")
			if err := q.Put(m); err != nil {
				e.PostAnomalies++
			} else {
				vrt.Quiesce()
				v, ok := vrt.TryRecv(q.ReadChan())
				if !ok || !bytes.Equal(v.([]byte), m) {
					e.PostAnomalies++
				}
			}
		}
		if err := q.Close(); err != nil {
			e.fail("crash after %s: Close of the recovered queue failed: %v", im.after, err)
			return
		}
	}
}

func (e *Exec) Check(r *vrt.Result) (string, string) {
	outcome := fmt.Sprintf("%d ops, %d left", len(e.Hist), len(e.msgs)-e.head)
	h := e.Cfg.Name() + " history [" + e.histString() + "]"
	if len(r.Panics) > 0 {
		return outcome, "panic: " + r.Panics[0].Value + "\n" + h + "\n" + r.Panics[0].Stack
	}
	if r.StepLimit {
		return outcome, "livelock: step limit reached\n" + h
	}
	if !r.DriverDone {
		return outcome, fmt.Sprintf("hang: an operation never returned\n%s\nblocked: %v", h, r.Blocked)
	}
	if e.Viol != "" {
		return outcome, e.Viol + "\n" + h
	}
	return outcome, ""
}

func (e *Exec) Counts() map[string]int64 {
	return map[string]int64{"operations": int64(len(e.Hist)), "crash_points": int64(e.Images), "recoveries_run": int64(e.Recovered), "trivial_recoveries": int64(e.Trivial), "post_recovery_put_not_delivered_next": int64(e.PostAnomalies)}
}

// Split returns one configuration per possible first operation (plus nothing
// for the empty history, which every one of them subsumes trivially).
func (c Config) Split() []Config {
	var out []Config
	for _, o := range c.Ops() {
		d := c
		d.First = []Op{o}
		out = append(out, d)
	}
	return out
}

// Scenario builds the explorer scenario for one configuration.
func Scenario(c Config) *vrt.Scenario {
	return &vrt.Scenario{
		Name:  c.Name(),
		Cfg:   vrt.Config{MaxSteps: 20000},
		Model: vrt.CostDelay,
		Bound: 0,
		New:   func() vrt.Exec { return &Exec{Cfg: c} },
	}
}
