// Package harn holds helpers shared by the property harnesses.
package harn

import (
	"errors"

	dest "github.com/grafana/carbon-relay-ng/destination"
	"github.com/grafana/carbon-relay-ng/matcher"
	"github.com/grafana/carbon-relay-ng/route"
	"github.com/grafana/carbon-relay-ng/stats"
)

// Capture is a route.Route that records what it is handed. The filter is a
// real matcher.Matcher.
type Capture struct {
	K     string
	M     matcher.Matcher
	Lines []string
	Raw   [][]byte // the slices as handed over (for aliasing checks)
	Hook  func(buf []byte)
}

func NewCapture(key string, m matcher.Matcher) *Capture { return &Capture{K: key, M: m} }

func (c *Capture) Dispatch(buf []byte) {
	c.Lines = append(c.Lines, string(buf))
	c.Raw = append(c.Raw, buf)
	if c.Hook != nil {
		c.Hook(buf)
	}
}
func (c *Capture) Match(s []byte) bool { return c.M.Match(s) }
func (c *Capture) Snapshot() route.Snapshot {
	return route.Snapshot{Matcher: c.M, Type: "capture", Key: c.K}
}
func (c *Capture) Key() string     { return c.K }
func (c *Capture) Flush() error    { return nil }
func (c *Capture) Shutdown() error { return nil }
func (c *Capture) GetDestination(index int) (*dest.Destination, error) {
	return nil, errors.New("capture route has no destinations")
}
func (c *Capture) DelDestination(index int) error { return errors.New("capture route") }
func (c *Capture) UpdateDestination(index int, opts map[string]string) error {
	return errors.New("capture route")
}
func (c *Capture) Update(opts map[string]string) error { return errors.New("capture route") }

var _ route.Route = (*Capture)(nil)

// Count reads a go-metrics counter by its carbon-relay-ng key, e.g.
// "unit=Err.type=out_of_order".
func Count(key string) int64 { return stats.Counter(key).Count() }

func MustMatcher(prefix, notPrefix, sub, notSub, regex, notRegex string) matcher.Matcher {
	m, err := matcher.New(prefix, notPrefix, sub, notSub, regex, notRegex)
	if err != nil {
		panic(err)
	}
	return m
}
