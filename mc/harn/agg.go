package harn

import (
	"runtime"

	"github.com/grafana/carbon-relay-ng/aggregator"
)

// AggRest waits (free-running harnesses) until the aggregator has taken
// everything queued so far and finished processing it: first the inbox is
// observed empty, then a synchronous Snapshot round-trip is answered by the
// single-threaded run loop, which it can only do between two messages.
// (Snapshot alone is not a barrier: run()'s select may serve it before
// queued points.)
func AggRest(a *aggregator.Aggregator) {
	for a.VerifInLen() > 0 {
		runtime.Gosched()
	}
	a.Snapshot()
}
