package kit

import (
	"fmt"
	"os"
	"runtime"
	"sort"
	"strings"
	"time"

	"verif/mc/vrt"
)

// E1 runs a list of scheduler scenarios and turns the result into evidence.
type E1 struct {
	Rep       *Reporter
	Scenarios []*vrt.Scenario
	Deadline  time.Time
	Workers   int
	MaxViol   int // violations after which a scenario stops being explored (default 3)
	// Shard: explore scenarios one after the other, handing subtrees of each
	// to the worker processes (for few, very large scenarios). Default: whole
	// scenarios are explored in parallel, one per worker process.
	Shard bool
	// SigOf maps an oracle message to the signature used for known findings
	// (default: scenario-independent first line of the message).
	SigOf func(scn string, msg string) string
}

func (e *E1) Lookup(name string) *vrt.Scenario {
	for _, s := range e.Scenarios {
		if s.Name == name {
			return s
		}
	}
	return nil
}

type E1Replay struct {
	Scenario string   `json:"scenario"`
	Prefix   []int    `json:"prefix"`
	Widths   []int    `json:"widths"`
	Msg      string   `json:"msg"`
	Trace    []string `json:"trace"`
	Log      []string `json:"log"`
}

// Run explores every scenario; it returns the coverage map for the evidence.
func (e *E1) Run() map[string]interface{} {
	vrt.ServeWorker(e.Lookup)
	if e.Rep.ReplayOnly != "" {
		e.replay(e.Rep.ReplayOnly)
	}
	vrt.OnStuck = func(reason string, choices []int) {
		// only reachable in the master process (workers install their own hook)
		e.Rep.Violation(firstLine(reason), reason, E1Replay{Prefix: choices, Msg: reason})
		e.Rep.Finish(map[string]interface{}{"states": 1, "transitions": 1, "traces_validated_against_impl": 0, "samples": []string{"execution stuck, see violation"}, "exhaustive": false})
	}
	if e.Workers == 0 {
		e.Workers = runtime.NumCPU()
	}
	total := vrt.Stats{Outcomes: map[string]int{}}
	var perScn []map[string]interface{}
	exhaustive := true
	var samples []interface{}
	choiceStates := int64(0)
	var many []*vrt.Stats
	if len(e.Scenarios) >= 2 && e.Workers > 1 && !e.Shard {
		var infra string
		many, infra = vrt.ExploreMany(e.Scenarios, vrt.ExploreOpts{Workers: e.Workers, Deadline: e.Deadline, Recheck: 97, MaxViol: e.MaxViol})
		if infra != "" {
			e.Rep.Infra = infra
			return nil
		}
	}
	for si, s := range e.Scenarios {
		var st *vrt.Stats
		if many != nil {
			st = many[si]
			if st == nil {
				exhaustive = false
				perScn = append(perScn, map[string]interface{}{"scenario": s.Name, "skipped": "internal deadline"})
				continue
			}
		} else {
			if !e.Deadline.IsZero() && time.Now().After(e.Deadline) {
				exhaustive = false
				perScn = append(perScn, map[string]interface{}{"scenario": s.Name, "skipped": "internal deadline"})
				continue
			}
			st = vrt.Explore(s, vrt.ExploreOpts{Workers: e.Workers, Deadline: e.Deadline, MaxViol: e.MaxViol})
		}
		if st.Infra != "" {
			e.Rep.Infra = st.Infra
			return nil
		}
		for _, v := range st.Violations {
			_, _, _ = v, s, st
			var tr, lg []string
			msg := v.Msg
			if v.Outcome != "stuck" { // replaying a stuck execution would hang again
				r, _, m := vrt.Replay(s, v.Prefix, v.Widths)
				msg = m
				for _, p := range r.Trace {
					tr = append(tr, p.Desc)
				}
				lg = r.Log
			}
			sig := firstLine(v.Msg)
			if e.SigOf != nil {
				sig = e.SigOf(s.Name, v.Msg)
			}
			e.Rep.Violation(sig, fmt.Sprintf("scenario %s (deviations %d): %s", s.Name, v.Cost, v.Msg),
				E1Replay{Scenario: s.Name, Prefix: v.Prefix, Widths: v.Widths, Msg: msg, Trace: tr, Log: lg})
		}
		if st.Capped {
			exhaustive = false
		}
		perScn = append(perScn, map[string]interface{}{"scenario": s.Name, "executions": st.Executions, "points": st.Points,
			"distinct_outcomes": len(st.Outcomes), "bound": s.Bound, "max_trace": st.MaxTrace, "capped": st.Capped, "step_limits": st.StepLimits})
		if len(samples) < 3 && len(st.Sample) > 0 {
			samples = append(samples, map[string]interface{}{"scenario": s.Name, "default_schedule": st.Sample, "outcomes": topOutcomes(st.Outcomes, 6)})
		}
		for k, v := range st.Outcomes {
			total.Outcomes[s.Name+"|"+k] += v
		}
		for k, v := range st.Counters {
			if total.Counters == nil {
				total.Counters = map[string]int64{}
			}
			total.Counters[k] += v
		}
		total.Executions += st.Executions
		total.Points += st.Points
		total.Rechecked += st.Rechecked
		total.StepLimits += st.StepLimits
		total.Recycled += st.Recycled
		if st.MaxThreads > total.MaxThreads {
			total.MaxThreads = st.MaxThreads
		}
		choiceStates += st.Points
	}
	if len(perScn) > 60 {
		// keep the largest ones
		sort.SliceStable(perScn, func(i, j int) bool {
			a, _ := perScn[i]["executions"].(int64)
			b, _ := perScn[j]["executions"].(int64)
			return a > b
		})
		perScn = append(perScn[:60], map[string]interface{}{"more": len(perScn) - 60})
	}
	if len(samples) == 0 {
		for _, s := range e.Scenarios {
			samples = append(samples, map[string]interface{}{"scenario": s.Name})
			if len(samples) >= 3 {
				break
			}
		}
	}
	if total.Executions == 0 {
		e.Rep.Infra = "no executions"
		return nil
	}
	return map[string]interface{}{
		"states":                        choiceStates,
		"transitions":                   total.Points,
		"traces_validated_against_impl": total.Executions,
		"executions":                    total.Executions,
		"replay_determinism_checks":     total.Rechecked,
		"distinct_outcomes":             len(total.Outcomes),
		"scenarios":                     len(e.Scenarios),
		"max_threads":                   total.MaxThreads,
		"step_limit_hits":               total.StepLimits,
		"worker_processes_recycled":     total.Recycled,
		"exhaustive":                    exhaustive,
		"per_scenario":                  perScn,
		"counters":                      total.Counters,
		"samples":                       samples,
		"explanation":                   "states = scheduling/choice points visited (world stopped, enabled set computed); transitions = transitions fired; every trace is an execution of the instrumented real code, so traces_validated_against_impl = executions",
	}
}

func topOutcomes(m map[string]int, n int) []string {
	ks := make([]string, 0, len(m))
	for k := range m {
		ks = append(ks, k)
	}
	sort.Slice(ks, func(i, j int) bool { return m[ks[i]] > m[ks[j]] })
	if len(ks) > n {
		ks = ks[:n]
	}
	for i, k := range ks {
		ks[i] = fmt.Sprintf("%dx %s", m[k], k)
	}
	return ks
}

func firstLine(s string) string {
	if i := strings.IndexByte(s, '\n'); i >= 0 {
		return s[:i]
	}
	return s
}

func (e *E1) replay(path string) {
	var rp E1Replay
	if err := LoadReplay(path, &rp); err != nil {
		fmt.Println("replay:", err)
		os.Exit(2)
	}
	s := e.Lookup(rp.Scenario)
	if s == nil {
		fmt.Println("replay: unknown scenario", rp.Scenario)
		os.Exit(2)
	}
	r, outcome, msg := vrt.Replay(s, rp.Prefix, rp.Widths)
	for i, p := range r.Trace {
		fmt.Printf("%4d %s\n", i, p.Desc)
	}
	for _, l := range r.Log {
		fmt.Println("log:", l)
	}
	for _, p := range r.Panics {
		fmt.Printf("PANIC in %s: %s\n%s\n", p.Thread, p.Value, p.Stack)
	}
	fmt.Println("blocked:", r.Blocked)
	fmt.Println("outcome:", outcome)
	if r.Diverged != "" {
		fmt.Println("DIVERGED:", r.Diverged)
		os.Exit(2)
	}
	if msg != "" {
		fmt.Println("VIOLATION reproduced:", msg)
		os.Exit(1)
	}
	fmt.Println("no violation on this tree")
	os.Exit(0)
}
