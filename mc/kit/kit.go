// Package kit holds what every check shares: tier/seed, evidence files,
// replay artefacts, known findings, exit status.
package kit

import (
	"crypto/sha1"
	"encoding/hex"
	"encoding/json"
	"fmt"
	"os"
	"path/filepath"
	"sort"
	"strconv"
	"sync"
	"time"
)

const Root = "/verif"

type Finding struct {
	Property  string `json:"property"`
	Signature string `json:"signature"`
	What      string `json:"what"`
	Status    string `json:"status"` // "known" or "fixed"
	Commit    string `json:"commit,omitempty"`
}

type Reporter struct {
	ID         string
	Tier       string
	Seed       int
	Level      string
	start      time.Time
	mu         sync.Mutex
	known      map[string]Finding
	printed    map[string]bool
	viol       map[string]string // signature -> replay path
	Assume     []string
	Infra      string
	ReplayOnly string
	Out        *os.File // where VIOLATION / KNOWN-FINDING / OK lines go (the original stdout)
}

// New parses the command line: <tier> [--replay file].
func New(id, level string) *Reporter {
	r := &Reporter{ID: id, Level: level, start: time.Now(), known: map[string]Finding{}, printed: map[string]bool{}, viol: map[string]string{}, Out: os.Stdout}
	r.Tier = os.Getenv("VERIF_TIER")
	args := os.Args[1:]
	for i := 0; i < len(args); i++ {
		switch args[i] {
		case "quick", "thorough":
			r.Tier = args[i]
		case "--replay":
			if i+1 < len(args) {
				r.ReplayOnly = args[i+1]
				i++
			}
		}
	}
	if r.Tier != "thorough" {
		r.Tier = "quick"
	}
	r.Seed, _ = strconv.Atoi(os.Getenv("VERIF_SEED"))
	b, err := os.ReadFile(filepath.Join(Root, "known_findings.json"))
	if err == nil {
		var f struct {
			Findings []Finding `json:"findings"`
		}
		if err := json.Unmarshal(b, &f); err != nil {
			fmt.Fprintf(os.Stderr, "known_findings.json: %v\n", err)
			os.Exit(2)
		}
		for _, x := range f.Findings {
			if x.Property == id && x.Status == "known" {
				r.known[x.Signature] = x
			}
		}
	}
	return r
}

// Quiet redirects os.Stdout to /dev/null (the code under test prints debug
// output there); the reporter keeps writing to the original stdout.
func (r *Reporter) Quiet() {
	if dn, err := os.OpenFile(os.DevNull, os.O_WRONLY, 0); err == nil {
		os.Stdout = dn
	}
}

func (r *Reporter) Thorough() bool { return r.Tier == "thorough" }

// Violation reports one oracle failure. signature identifies the specific
// failing input / call site / history; replay is stored as JSON.
// It returns true if the violation is new (not a listed known finding).
func (r *Reporter) Violation(signature, what string, replay interface{}) bool {
	r.mu.Lock()
	defer r.mu.Unlock()
	if k, ok := r.known[signature]; ok {
		if !r.printed[signature] {
			r.printed[signature] = true
			fmt.Fprintf(r.Out, "KNOWN-FINDING: property=%s %s [%s]\n", r.ID, k.What, signature)
		}
		return false
	}
	if _, dup := r.viol[signature]; dup {
		return true
	}
	h := sha1.Sum([]byte(signature))
	path := filepath.Join(Root, "replays", fmt.Sprintf("%s-%s.json", r.ID, hex.EncodeToString(h[:5])))
	doc := map[string]interface{}{"property": r.ID, "signature": signature, "what": what, "replay": replay}
	b, _ := json.MarshalIndent(doc, "", " ")
	os.MkdirAll(filepath.Dir(path), 0o755)
	os.WriteFile(path, b, 0o644)
	r.viol[signature] = path
	if len(r.viol) <= 20 {
		fmt.Fprintf(r.Out, "VIOLATION property=%s replay=%s\n  %s\n", r.ID, path, what)
	}
	return true
}

func (r *Reporter) Violations() int {
	r.mu.Lock()
	defer r.mu.Unlock()
	return len(r.viol)
}

func (r *Reporter) KnownSeen() []string {
	r.mu.Lock()
	defer r.mu.Unlock()
	var out []string
	for k := range r.printed {
		out = append(out, k)
	}
	sort.Strings(out)
	return out
}

// Finish writes the evidence file and exits.
func (r *Reporter) Finish(coverage map[string]interface{}) {
	if r.Infra != "" {
		fmt.Fprintf(r.Out, "INFRA-ERROR property=%s %s\n", r.ID, r.Infra)
		os.Exit(2)
	}
	coverage["known_findings_seen"] = r.KnownSeen()
	ev := map[string]interface{}{
		"property_id": r.ID,
		"tier":        r.Tier,
		"seed":        r.Seed,
		"level":       r.Level,
		"coverage":    coverage,
		"assumptions": r.Assume,
		"wall_s":      time.Since(r.start).Seconds(),
		"violations":  r.Violations(),
	}
	b, _ := json.MarshalIndent(ev, "", " ")
	os.MkdirAll(filepath.Join(Root, "evidence"), 0o755)
	if err := os.WriteFile(filepath.Join(Root, "evidence", r.ID+".json"), b, 0o644); err != nil {
		fmt.Fprintln(os.Stderr, err)
		os.Exit(2)
	}
	if r.Violations() > 0 {
		fmt.Fprintf(r.Out, "FAIL property=%s violations=%d\n", r.ID, r.Violations())
		os.Exit(1)
	}
	fmt.Fprintf(r.Out, "OK property=%s tier=%s wall=%.1fs\n", r.ID, r.Tier, time.Since(r.start).Seconds())
	os.Exit(0)
}

// LoadReplay reads the "replay" member of a replay file into v.
func LoadReplay(path string, v interface{}) error {
	b, err := os.ReadFile(path)
	if err != nil {
		return err
	}
	var doc struct {
		Replay json.RawMessage `json:"replay"`
	}
	if err := json.Unmarshal(b, &doc); err != nil {
		return err
	}
	return json.Unmarshal(doc.Replay, v)
}

// Deadline returns the internal time budget of a tier.
func (r *Reporter) Deadline(quick, thorough time.Duration) time.Time {
	if r.Thorough() {
		return r.start.Add(thorough)
	}
	return r.start.Add(quick)
}
