package kit

import (
	"fmt"
	"os"
	"sort"
	"strconv"
	"strings"
	"sync"
	"sync/atomic"
	"time"
)

// Liveness watchdog for the free-running (E4) harnesses. The code under test runs
// uncontrolled there, so a change that makes it loop or block for ever would leave the check
// running instead of reporting. A harness calls Beat(slot, desc) whenever it starts a case
// (slot: the worker goroutine's number; desc is only evaluated when the watchdog fires) and
// Rest(slot) when a worker has nothing in hand. If no Beat at all arrives for `limit`, the cases
// still in hand are reported as violations ("did not return") and the check ends with the
// evidence of what was covered so far. The limit is minutes for cases that take micro- to
// milliseconds, so that a loaded machine cannot trip it: a hang detector, not a latency oracle.

type slotT struct {
	mu   sync.Mutex
	desc func() string
	at   time.Time
}

var (
	beatN int64
	slots [256]slotT
)

// Beat announces that worker `slot` starts a new case now.
func (r *Reporter) Beat(slot int, desc func() string) {
	s := &slots[slot&255]
	s.mu.Lock()
	s.desc, s.at = desc, time.Now()
	s.mu.Unlock()
	atomic.AddInt64(&beatN, 1)
}

// Beats returns the number of cases announced so far.
func (r *Reporter) Beats() int64 { return atomic.LoadInt64(&beatN) }

// Rest announces that worker `slot` has no case in hand.
func (r *Reporter) Rest(slot int) {
	s := &slots[slot&255]
	s.mu.Lock()
	s.desc = nil
	s.mu.Unlock()
	atomic.AddInt64(&beatN, 1)
}

// Watch starts the watchdog; coverage is called for the (partial) evidence when it fires.
func (r *Reporter) Watch(limit time.Duration, coverage func() map[string]interface{}) {
	if v := os.Getenv("VERIF_WATCH_LIMIT"); v != "" { // seconds; for trying the watchdog itself
		if n, err := strconv.Atoi(v); err == nil && n > 0 {
			limit = time.Duration(n) * time.Second
		}
	}
	go func() {
		last, since := int64(-1), time.Now()
		for {
			time.Sleep(2 * time.Second)
			n := atomic.LoadInt64(&beatN)
			if n != last {
				last, since = n, time.Now()
				continue
			}
			if n == 0 || time.Since(since) < limit {
				continue
			}
			var stuck []string
			for i := range slots {
				s := &slots[i]
				s.mu.Lock()
				if s.desc != nil {
					stuck = append(stuck, s.desc())
				}
				s.mu.Unlock()
			}
			if len(stuck) == 0 {
				// nothing in hand: the harness itself is busy elsewhere (not a hang of the code under test)
				last, since = -1, time.Now()
				continue
			}
			sort.Strings(stuck)
			for _, what := range stuck {
				r.Violation("did not return: "+what,
					fmt.Sprintf("the code under test did not return within %v in case: %s (a loop or a wait that never ends)", limit, what),
					map[string]interface{}{"hang": what})
			}
			cov := coverage()
			cov["exhaustive"] = false
			cov["stopped_by_liveness_watchdog"] = strings.Join(stuck, " | ")
			r.Finish(cov)
		}
	}()
}
