package ref

// Carbon's ConsistentHashRing (lib/carbon/hashing.py, the classic version
// without position bumping), written from the statement of property C15 and
// from the Python source, NOT from route/consistent_hashing.go:
//
//   - a node is the Python tuple (server, instance); instance is None or a str
//   - position(key) = int(md5(key).hexdigest()[:4], 16)
//   - every node contributes replica_count (100) entries
//     (position("%s:%d" % (node, i)), node); str(node) is the Python tuple repr
//     "('server', 'instance')" / "('server', None)"
//   - the ring is the list of entries sorted as Python 2 sorts tuples
//     (position, (server, instance)): by position, then server, then instance,
//     where None sorts before every str
//   - get_node(key) = ring[bisect_left(ring, (position(key), None)) % len(ring)]
//     and (position, None) sorts before every (position, node), so this is the
//     first entry whose position is >= the key's position, wrapping to entry 0.

import (
	"crypto/md5"
	"encoding/hex"
	"fmt"
	"sort"
	"strconv"
)

const RingReplicas = 100

// RingNode is a carbon (server, instance) tuple; HasInst == false is None.
type RingNode struct {
	Host    string
	Inst    string
	HasInst bool
}

func pyStrRepr(s string) string {
	for i := 0; i < len(s); i++ {
		c := s[i]
		ok := c >= 'a' && c <= 'z' || c >= 'A' && c <= 'Z' || c >= '0' && c <= '9' || c == '.' || c == '-' || c == '_'
		if !ok {
			panic(fmt.Sprintf("ref.RingNode: %q is outside the characters whose Python repr is known to this model", s))
		}
	}
	return "'" + s + "'"
}

// PyRepr is str((server, instance)) in Python.
func (n RingNode) PyRepr() string {
	if n.HasInst {
		return "(" + pyStrRepr(n.Host) + ", " + pyStrRepr(n.Inst) + ")"
	}
	return "(" + pyStrRepr(n.Host) + ", None)"
}

func (n RingNode) String() string {
	if n.HasInst {
		return n.Host + "/" + n.Inst
	}
	return n.Host + "/-"
}

// ringNodeLess is Python 2's (server, instance) < (server, instance).
func ringNodeLess(a, b RingNode) bool {
	if a.Host != b.Host {
		return a.Host < b.Host // str comparison is bytewise in Python 2
	}
	switch {
	case !a.HasInst && !b.HasInst:
		return false
	case !a.HasInst:
		return true // None < any str
	case !b.HasInst:
		return false
	}
	return a.Inst < b.Inst
}

// RingPosition is compute_ring_position.
func RingPosition(key string) uint16 {
	sum := md5.Sum([]byte(key))
	v, err := strconv.ParseUint(hex.EncodeToString(sum[:])[:4], 16, 32)
	if err != nil {
		panic(err)
	}
	return uint16(v)
}

type ringEntry struct {
	pos  uint16
	node int
}

// Ring is a ConsistentHashRing over Nodes; owners are reported as indexes
// into Nodes (the order the nodes were given in, which must not matter).
type Ring struct {
	Nodes   []RingNode
	entries []ringEntry
}

func NewRing(nodes []RingNode) (*Ring, error) {
	r := &Ring{Nodes: append([]RingNode(nil), nodes...)}
	for i, n := range nodes {
		for j := 0; j < i; j++ {
			if nodes[j] == n {
				return nil, fmt.Errorf("destination instance %s already configured", n.PyRepr())
			}
		}
		for k := 0; k < RingReplicas; k++ {
			r.entries = append(r.entries, ringEntry{RingPosition(n.PyRepr() + ":" + strconv.Itoa(k)), i})
		}
	}
	sort.SliceStable(r.entries, func(a, b int) bool {
		ea, eb := r.entries[a], r.entries[b]
		if ea.pos != eb.pos {
			return ea.pos < eb.pos
		}
		return ringNodeLess(r.Nodes[ea.node], r.Nodes[eb.node])
	})
	return r, nil
}

// OwnerAt is get_node for any key whose ring position is pos.
func (r *Ring) OwnerAt(pos uint16) int {
	for _, e := range r.entries {
		if e.pos >= pos {
			return e.node
		}
	}
	return r.entries[0].node
}

func (r *Ring) Owner(key string) int { return r.OwnerAt(RingPosition(key)) }

// OwnerTable is OwnerAt for all 65536 positions, by one sweep over the ring.
func (r *Ring) OwnerTable() []uint8 {
	t := make([]uint8, 65536)
	i := 0
	for p := 0; p < 65536; p++ {
		for i < len(r.entries) && int(r.entries[i].pos) < p {
			i++
		}
		if i < len(r.entries) {
			t[p] = uint8(r.entries[i].node)
		} else {
			t[p] = uint8(r.entries[0].node)
		}
	}
	return t
}

// Positions returns the positions of the entries of node i (with duplicates).
func (r *Ring) Positions(i int) []uint16 {
	var out []uint16
	for _, e := range r.entries {
		if e.node == i {
			out = append(out, e.pos)
		}
	}
	return out
}

// Ties returns the positions held by entries of more than one node.
func (r *Ring) Ties() []uint16 {
	var out []uint16
	for i := 1; i < len(r.entries); i++ {
		if r.entries[i].pos == r.entries[i-1].pos && r.entries[i].node != r.entries[i-1].node {
			if len(out) == 0 || out[len(out)-1] != r.entries[i].pos {
				out = append(out, r.entries[i].pos)
			}
		}
	}
	return out
}
