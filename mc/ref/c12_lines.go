package ref

// Lines is the reference framing of property C12, written from the property
// statement only: the newline-delimited lines of a byte stream, one optional
// trailing carriage return removed from each, a final unterminated line
// included; nothing follows a final newline.
func Lines(stream []byte) [][]byte {
	var out [][]byte
	start := 0
	emit := func(line []byte) {
		if n := len(line); n > 0 && line[n-1] == '\r' {
			line = line[:n-1]
		}
		out = append(out, line)
	}
	for i, b := range stream {
		if b == '\n' {
			emit(stream[start:i])
			start = i + 1
		}
	}
	if start < len(stream) {
		emit(stream[start:])
	}
	return out
}

// RawLineLens returns, for every line of Lines(stream), its length on the
// wire without the newline but including the optional carriage return.
func RawLineLens(stream []byte) []int {
	var out []int
	start := 0
	for i, b := range stream {
		if b == '\n' {
			out = append(out, i-start)
			start = i + 1
		}
	}
	if start < len(stream) {
		out = append(out, len(stream)-start)
	}
	return out
}
