package ref

// Reference model of one aggregation rule (property C10), written from the
// property statement, DESIGN.md Appendix C and docs/aggregation.md - NOT from
// aggregator/aggregator.go or aggregator/processor.go.
//
//   state   map (bucket, key) -> list of (timestamp, value) in arrival order,
//           plus the clock
//   point(name, ts, v) at clock t, key = expand(name):
//           b = ts - ts mod I; if (b, key) exists: append;
//           else if b > t - W: create; else TooOld+1
//   tick(t) for every bucket b <= t - W in ascending order, for every key (any
//           order) emit "key f(values) b" (percentiles: "key.pNN ..." for the
//           six percentiles), then forget the bucket
//
// What docs/aggregation.md says about the functions, and how far the model
// commits itself:
//
//   avg     "average (mean)"
//   count   "number of points/values seen"
//   delta   "difference between highest and lowest value seen"
//   derive  "derivative (needs at least 2 input values. if more, derives from
//           oldest to newest)": (v_newest - v_oldest) / (t_newest - t_oldest)
//           by timestamp. No line when the bucket has no two points with
//           different timestamps (no derivative exists). When several points
//           carry the oldest (newest) timestamp the documentation does not say
//           which one counts: any of them is accepted.
//   last    "last value seen in the bucket" (arrival order)
//   max/min "max/min value seen in the bucket"
//   stdev   "standard devation": the documentation does not say population or
//           sample: both are accepted (sample only exists for n >= 2).
//   sum     "sum"
//   percentiles "a set of different percentiles", ".pxx" appended to the key.
//           The six names p25 p50 p75 p90 p95 p99 and the definition (NIST
//           handbook 2.6.2 / Hyndman-Fan R6) are the ones processor.go cites:
//           sorted Y[1..N], rank = p/100*(N+1) = k + d (k integer part):
//           k = 0 -> Y[1]; k >= N -> Y[N]; else Y[k] + d*(Y[k+1]-Y[k]).

import (
	"fmt"
	"math"
	"regexp"
	"sort"
	"strconv"
	"strings"
	"sync"
)

var AggFunctions = []string{"avg", "count", "delta", "derive", "last", "max", "min", "stdev", "sum", "percentiles"}

var AggPercentiles = []int{25, 50, 75, 90, 95, 99}

type AggPoint struct {
	TS  int64
	Val float64
}

type AggCell struct {
	Bucket int64
	Key    string
}

// AggLine is one expected output line: name, bucket start, and the set of
// acceptable values (one element except where the documentation leaves a
// choice).
type AggLine struct {
	Name   string
	Bucket int64
	Accept []float64
}

type AggModel struct {
	Fun      string
	Interval int64
	Wait     int64
	Now      int64
	re       *regexp.Regexp
	format   string
	cells    map[AggCell][]AggPoint
	// Emitted counts how often the model emitted a (bucket, key): never more than once.
	Emitted map[AggCell]int
}

var (
	aggReMu sync.Mutex
	aggRe   = map[string]*regexp.Regexp{}
)

func NewAggModel(fun, regex, format string, interval, wait, now int64) *AggModel {
	aggReMu.Lock()
	re := aggRe[regex]
	if re == nil {
		re = regexp.MustCompile(regex)
		aggRe[regex] = re
	}
	aggReMu.Unlock()
	return &AggModel{Fun: fun, Interval: interval, Wait: wait, Now: now, re: re, format: format,
		cells: map[AggCell][]AggPoint{}, Emitted: map[AggCell]int{}}
}

// Expand gives the output key of an input name (false: the rule does not match).
func (m *AggModel) Expand(name string) (string, bool) {
	loc := m.re.FindStringSubmatchIndex(name)
	if loc == nil {
		return "", false
	}
	return string(m.re.ExpandString(nil, m.format, name, loc)), true
}

// Point processes one point at the current clock. matched: the rule applies to
// the name; accepted: it contributes to a bucket (otherwise it is too old).
func (m *AggModel) Point(name string, ts int64, v float64) (matched, accepted bool) {
	key, ok := m.Expand(name)
	if !ok {
		return false, false
	}
	c := AggCell{ts - ts%m.Interval, key}
	if _, ok := m.cells[c]; !ok && !(c.Bucket > m.Now-m.Wait) {
		return true, false
	}
	m.cells[c] = append(m.cells[c], AggPoint{ts, v})
	return true, true
}

// Tick advances the clock to t and returns what must be emitted: one group
// per due bucket, ascending; inside a group the lines are sorted by name.
// A tick carries its own time; it never lies above the clock, it may lie below
// it (a tick that was delivered late): what is due is decided by the tick's time.
func (m *AggModel) Tick(t int64) [][]AggLine {
	if t > m.Now {
		m.Now = t
	}
	due := map[int64][]AggCell{}
	var bs []int64
	for c := range m.cells {
		if c.Bucket <= t-m.Wait {
			if _, ok := due[c.Bucket]; !ok {
				bs = append(bs, c.Bucket)
			}
			due[c.Bucket] = append(due[c.Bucket], c)
		}
	}
	sort.Slice(bs, func(i, j int) bool { return bs[i] < bs[j] })
	var out [][]AggLine
	for _, b := range bs {
		var g []AggLine
		for _, c := range due[b] {
			g = append(g, AggResult(m.Fun, c.Key, c.Bucket, m.cells[c])...)
			m.Emitted[c]++
			delete(m.cells, c)
		}
		sort.Slice(g, func(i, j int) bool { return g[i].Name < g[j].Name })
		if len(g) > 0 {
			out = append(out, g)
		}
	}
	return out
}

// Clone returns an independent copy of the model.
func (m *AggModel) Clone() *AggModel {
	n := *m
	n.cells = make(map[AggCell][]AggPoint, len(m.cells))
	for c, l := range m.cells {
		n.cells[c] = append([]AggPoint(nil), l...)
	}
	n.Emitted = make(map[AggCell]int, len(m.Emitted))
	for c, k := range m.Emitted {
		n.Emitted[c] = k
	}
	return &n
}

// Advance moves the clock without a tick.
func (m *AggModel) Advance(t int64) {
	if t > m.Now {
		m.Now = t
	}
}

// Open lists the open (bucket, key) pairs, sorted.
func (m *AggModel) Open() []AggCell {
	var cs []AggCell
	for c := range m.cells {
		cs = append(cs, c)
	}
	sort.Slice(cs, func(i, j int) bool {
		if cs[i].Bucket != cs[j].Bucket {
			return cs[i].Bucket < cs[j].Bucket
		}
		return cs[i].Key < cs[j].Key
	})
	return cs
}

func aggSorted(pts []AggPoint) []float64 {
	vs := make([]float64, len(pts))
	for i, p := range pts {
		vs[i] = p.Val
	}
	sort.Float64s(vs)
	return vs
}

func aggSum(pts []AggPoint) float64 {
	s := 0.0
	for _, p := range pts {
		s += p.Val
	}
	return s
}

// aggDeriveEnds returns the oldest and newest timestamp and the distinct
// values seen at each of them.
func aggDeriveEnds(pts []AggPoint) (t0, t1 int64, v0, v1 []float64) {
	t0, t1 = pts[0].TS, pts[0].TS
	for _, p := range pts {
		if p.TS < t0 {
			t0 = p.TS
		}
		if p.TS > t1 {
			t1 = p.TS
		}
	}
	add := func(l []float64, v float64) []float64 {
		for _, x := range l {
			if x == v {
				return l
			}
		}
		return append(l, v)
	}
	for _, p := range pts {
		if p.TS == t0 {
			v0 = add(v0, p.Val)
		}
		if p.TS == t1 {
			v1 = add(v1, p.Val)
		}
	}
	sort.Float64s(v0)
	sort.Float64s(v1)
	return
}

// AggResult computes the output lines of one (bucket, key) from the points
// that contributed to it (arrival order). pts is never empty.
func AggResult(fun, key string, bucket int64, pts []AggPoint) []AggLine {
	one := func(v ...float64) []AggLine { return []AggLine{{key, bucket, v}} }
	n := float64(len(pts))
	vs := aggSorted(pts)
	switch fun {
	case "avg":
		return one(aggSum(pts) / n)
	case "count":
		return one(n)
	case "delta":
		return one(vs[len(vs)-1] - vs[0])
	case "max":
		return one(vs[len(vs)-1])
	case "min":
		return one(vs[0])
	case "last":
		return one(pts[len(pts)-1].Val)
	case "sum":
		return one(aggSum(pts))
	case "stdev":
		mean := 0.0
		for _, v := range vs {
			mean += v
		}
		mean /= n
		ss := 0.0
		for _, v := range vs {
			ss += (v - mean) * (v - mean)
		}
		acc := []float64{math.Sqrt(ss / n)}
		if len(vs) >= 2 {
			acc = append(acc, math.Sqrt(ss/(n-1)))
		}
		return one(acc...)
	case "derive":
		t0, t1, v0, v1 := aggDeriveEnds(pts)
		if t0 == t1 {
			return nil
		}
		var acc []float64
		for _, a := range v0 {
			for _, b := range v1 {
				acc = append(acc, (b-a)/float64(t1-t0))
			}
		}
		return one(acc...)
	case "percentiles":
		var out []AggLine
		N := len(vs)
		for _, p := range AggPercentiles {
			// exact rational arithmetic for the rank: p*(N+1) = 100*k + r
			num := p * (N + 1)
			k, r := num/100, num%100
			var y float64
			switch {
			case k == 0:
				y = vs[0]
			case k >= N:
				y = vs[N-1]
			default:
				y = vs[k-1] + float64(r)/100*(vs[k]-vs[k-1])
			}
			out = append(out, AggLine{key + ".p" + strconv.Itoa(p), bucket, []float64{y}})
		}
		return out
	}
	panic("ref: unknown aggregation function " + fun)
}

// AggValueOK: does the printed value agree with an acceptable one "to
// six-decimal precision" (the %f rendering; a last-digit rounding difference
// caused by a different but equally valid order of floating-point operations
// is tolerated).
func AggValueOK(printed string, accept []float64) bool {
	for _, a := range accept {
		if printed == fmt.Sprintf("%f", a) {
			return true
		}
		for _, e := range []float64{1e-9, -1e-9} {
			if printed == fmt.Sprintf("%f", a+e*math.Max(1, math.Abs(a))) {
				return true
			}
		}
	}
	return false
}

// AggSummary is the part of a (bucket, key)'s history that determines every
// future output of the model for the given function (used for state
// merging: equal summaries => equal futures, see the comments per function).
func AggSummary(fun string, pts []AggPoint) string {
	return string(aggSummary(nil, fun, pts))
}

func aggSummary(b []byte, fun string, pts []AggPoint) []byte {
	f := func(v float64) { b = strconv.AppendFloat(b, v, 'g', -1, 64) }
	fl := func(vs []float64) {
		for _, v := range vs {
			f(v)
			b = append(b, ' ')
		}
	}
	switch fun {
	case "count":
		b = strconv.AppendInt(b, int64(len(pts)), 10)
	case "sum": // the model folds left in arrival order: sum(prefix ++ suffix) = fold(sum(prefix), suffix)
		f(aggSum(pts))
	case "avg":
		f(aggSum(pts))
		b = append(b, '/')
		b = strconv.AppendInt(b, int64(len(pts)), 10)
	case "last":
		f(pts[len(pts)-1].Val)
	case "max", "min", "delta":
		lo, hi := pts[0].Val, pts[0].Val
		for _, p := range pts {
			lo, hi = math.Min(lo, p.Val), math.Max(hi, p.Val)
		}
		if fun != "max" {
			f(lo)
		}
		b = append(b, '.', '.')
		if fun != "min" {
			f(hi)
		}
	case "derive": // oldest and newest timestamp and the sets of values seen at them
		t0, t1, v0, v1 := aggDeriveEnds(pts)
		b = strconv.AppendInt(b, t0, 10)
		b = append(b, ':')
		fl(v0)
		b = strconv.AppendInt(b, t1, 10)
		b = append(b, ':')
		fl(v1)
	default: // stdev, percentiles: computed from the sorted values
		fl(aggSorted(pts))
	}
	return b
}

// Canon renders the state canonically. full: the complete lists; otherwise
// the per-function summaries.
func (m *AggModel) Canon(full bool) string {
	b := make([]byte, 0, 128)
	b = append(b, "now="...)
	b = strconv.AppendInt(b, m.Now, 10)
	for _, c := range m.Open() {
		b = append(b, '|')
		b = strconv.AppendInt(b, c.Bucket, 10)
		b = append(b, ',')
		b = append(b, c.Key...)
		b = append(b, '=')
		if full {
			b = append(b, fmt.Sprint(m.cells[c])...)
		} else {
			b = aggSummary(b, m.Fun, m.cells[c])
		}
	}
	return string(b)
}

func (l AggLine) String() string {
	var vs []string
	for _, a := range l.Accept {
		vs = append(vs, fmt.Sprintf("%f", a))
	}
	return fmt.Sprintf("%s %s %d", l.Name, strings.Join(vs, "|"), l.Bucket)
}
