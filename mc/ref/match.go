// Package ref holds the boring reference models the harnesses compare the
// real code against. Nothing here imports the code under test.
package ref

import (
	"bytes"
	"regexp"
)

// Filter is the documented six-option filter.
type Filter struct {
	Prefix, NotPrefix, Sub, NotSub, Regex, NotRegex string
}

// Match is the documented conjunction, on the metric name only; an empty
// option imposes no constraint; regexes are unanchored RE2 searches.
func (f Filter) Match(name []byte) bool {
	if f.Prefix != "" && !bytes.HasPrefix(name, []byte(f.Prefix)) {
		return false
	}
	if f.NotPrefix != "" && bytes.HasPrefix(name, []byte(f.NotPrefix)) {
		return false
	}
	if f.Sub != "" && !bytes.Contains(name, []byte(f.Sub)) {
		return false
	}
	if f.NotSub != "" && bytes.Contains(name, []byte(f.NotSub)) {
		return false
	}
	if f.Regex != "" && !regexp.MustCompile(f.Regex).Match(name) {
		return false
	}
	if f.NotRegex != "" && regexp.MustCompile(f.NotRegex).Match(name) {
		return false
	}
	return true
}

// Compiled is Filter with the regexes compiled once.
type Compiled struct {
	F     Filter
	re    *regexp.Regexp
	notRe *regexp.Regexp
}

func (f Filter) Compile() (*Compiled, error) {
	c := &Compiled{F: f}
	var err error
	if f.Regex != "" {
		if c.re, err = regexp.Compile(f.Regex); err != nil {
			return nil, err
		}
	}
	if f.NotRegex != "" {
		if c.notRe, err = regexp.Compile(f.NotRegex); err != nil {
			return nil, err
		}
	}
	return c, nil
}

func (c *Compiled) Match(name []byte) bool {
	f := c.F
	if f.Prefix != "" && !bytes.HasPrefix(name, []byte(f.Prefix)) {
		return false
	}
	if f.NotPrefix != "" && bytes.HasPrefix(name, []byte(f.NotPrefix)) {
		return false
	}
	if f.Sub != "" && !bytes.Contains(name, []byte(f.Sub)) {
		return false
	}
	if f.NotSub != "" && bytes.Contains(name, []byte(f.NotSub)) {
		return false
	}
	if c.re != nil && !c.re.Match(name) {
		return false
	}
	if c.notRe != nil && c.notRe.Match(name) {
		return false
	}
	return true
}

func (f Filter) String() string {
	s := ""
	add := func(k, v string) {
		if v != "" {
			if s != "" {
				s += " "
			}
			s += k + "=" + v
		}
	}
	add("prefix", f.Prefix)
	add("notPrefix", f.NotPrefix)
	add("sub", f.Sub)
	add("notSub", f.NotSub)
	add("regex", f.Regex)
	add("notRegex", f.NotRegex)
	if s == "" {
		return "(none)"
	}
	return s
}
