package ref

// Reference pipeline for property C11: a routing table with aggregations,
// written from the property statement and docs/aggregation.md:
//
//   - a raw metric travels through Table.Dispatch exactly as the reference
//     routing function of C01 says (route.go): blacklist on the name as
//     received, rewriters, then the aggregations in table order; an
//     aggregation takes the metric when its COMPLETE filter (all six options)
//     accepts the name; a drop-raw aggregation that takes it withholds it from
//     every later aggregation and from all routes; every other metric goes on
//     unaffected;
//   - an aggregation that took a point adds it to the bucket
//     ts - ts mod interval of the output key obtained by expanding its format
//     with the submatches of its regex;
//   - at a tick with time `now` every bucket b with b <= now - wait is closed:
//     one line "<key> <value> <b>" per output key (value printed with six
//     decimals), and the bucket is forgotten;
//   - such an aggregate line is handed to every route whose filter accepts
//     the aggregate NAME, as emitted: it is not validated, not blacklisted,
//     not rewritten and not offered to any aggregation (hence the model has no
//     edge from Tick back into Point).
//
// Only "sum" and "count" over integer-valued points are modelled (values are
// kept as exact integers and printed as "<int>.000000"). Nothing here imports
// the code under test.

import (
	"fmt"
	"regexp"
	"sort"
	"strconv"
	"strings"
	"sync"
)

// PipeRule is what an aggregation does with the points it takes; it extends
// Table.Aggs[i] (filter, drop-raw) of the same index.
type PipeRule struct {
	Fun      string // "sum" or "count"
	Format   string // output key template; $1..$9 stand for the submatches of the filter's regex
	Interval int64
	Wait     int64
}

// Pipe is a routing table (route.go) plus the aggregation rules.
type Pipe struct {
	Table Table
	Rules []PipeRule // parallel to Table.Aggs

	memo    map[string]*pipeMemo // name -> routing outcome and output keys (pure functions of the name for a fixed table)
	noLines [][]string           // the "nothing emitted" answer of Tick
}

type pipeMemo struct {
	o    Outcome
	keys []string
}

// PipeState is the model state: the open buckets of every aggregation.
type PipeState struct {
	open []map[int64]map[string]int64 // aggregation -> bucket -> output key -> sum or count
}

func (p *Pipe) NewState() *PipeState {
	s := &PipeState{open: make([]map[int64]map[string]int64, len(p.Rules))}
	for i := range s.open {
		s.open[i] = map[int64]map[string]int64{}
	}
	return s
}

// pipeExpand substitutes $1..$9 in the format by the submatches of re on name.
func pipeExpand(format string, re *regexp.Regexp, name string) string {
	sub := re.FindStringSubmatch(name)
	var b strings.Builder
	for i := 0; i < len(format); i++ {
		c := format[i]
		if c == '$' && i+1 < len(format) && format[i+1] >= '1' && format[i+1] <= '9' {
			n := int(format[i+1] - '0')
			if n < len(sub) {
				b.WriteString(sub[n])
			}
			i++
			continue
		}
		b.WriteByte(c)
	}
	return b.String()
}

var pipeRegexes sync.Map // regex string -> *regexp.Regexp

func pipeRegex(s string) *regexp.Regexp {
	if re, ok := pipeRegexes.Load(s); ok {
		return re.(*regexp.Regexp)
	}
	re := regexp.MustCompile(s)
	pipeRegexes.Store(s, re)
	return re
}

// PipePoint is what the statement demands for one raw metric.
type PipePoint struct {
	Outcome          // routing of the raw metric (route.go): blacklisted, consumed, which aggregations took it, which routes get it
	Line    string   // the line the accepting routes are handed
	Keys    []string // per aggregation that took it: the output key it was added under ("" otherwise)
}

// Point feeds one raw metric (integer value v, timestamp ts) and updates the state.
func (p *Pipe) Point(s *PipeState, name string, v int64, ts int64) PipePoint {
	return p.point(s, name, v, ts, false)
}

// PointTooOld is Point for a timestamp older than every bucket the aggregations still accept.
func (p *Pipe) PointTooOld(s *PipeState, name string, v int64, ts int64) PipePoint {
	return p.point(s, name, v, ts, true)
}

func (p *Pipe) point(s *PipeState, name string, v int64, ts int64, tooOld bool) PipePoint {
	m := p.memo[name]
	if m == nil {
		m = &pipeMemo{o: p.Table.Dispatch(name), keys: make([]string, len(p.Rules))}
		for i, took := range m.o.AggSeen {
			if took {
				m.keys[i] = pipeExpand(p.Rules[i].Format, pipeRegex(p.Table.Aggs[i].Filter.Regex), m.o.Name)
			}
		}
		if p.memo == nil {
			p.memo = map[string]*pipeMemo{}
		}
		p.memo[name] = m
	}
	o := m.o
	pp := PipePoint{Outcome: o, Line: o.Name + " " + strconv.FormatInt(v, 10) + " " + strconv.FormatInt(ts, 10), Keys: m.keys}
	if o.Blacklisted {
		return pp
	}
	if tooOld {
		// older than every open bucket: the aggregations that take it count it as too old and keep
		// nothing; what happens to the raw metric (consumed, routed) does not depend on its age
		return pp
	}
	for i, took := range o.AggSeen {
		if !took {
			continue
		}
		r := p.Rules[i]
		key := m.keys[i]
		b := ts - ts%r.Interval
		if s.open[i][b] == nil {
			s.open[i][b] = map[string]int64{}
		}
		switch r.Fun {
		case "sum":
			s.open[i][b][key] += v
		case "count":
			s.open[i][b][key]++
		default:
			panic("ref: pipe models sum and count only, not " + r.Fun)
		}
	}
	return pp
}

// PipeTick is what the statement demands for one tick.
type PipeTick struct {
	Lines  [][]string          // per aggregation: the aggregate lines it emits (sorted)
	Routes map[string][]string // route key -> aggregate lines it is handed (sorted multiset)
	Total  int                 // number of aggregate lines emitted
}

// Tick closes the buckets that are due at `now` and routes the aggregate lines by name.
func (p *Pipe) Tick(s *PipeState, now int64) PipeTick {
	t := PipeTick{}
	for i, r := range p.Rules {
		var due []int64
		for b := range s.open[i] {
			if b <= now-r.Wait {
				due = append(due, b)
			}
		}
		if len(due) == 0 {
			continue
		}
		if t.Lines == nil {
			t.Lines = make([][]string, len(p.Rules))
			t.Routes = map[string][]string{}
		}
		sort.Slice(due, func(x, y int) bool { return due[x] < due[y] })
		for _, b := range due {
			for key, acc := range s.open[i][b] {
				line := fmt.Sprintf("%s %d.000000 %d", key, acc, b)
				t.Lines[i] = append(t.Lines[i], line)
				t.Total++
				for _, ro := range p.Table.Routes {
					if accepts(ro.Filter, key) {
						t.Routes[ro.Key] = append(t.Routes[ro.Key], line)
					}
				}
			}
			delete(s.open[i], b)
		}
		sort.Strings(t.Lines[i])
	}
	if t.Lines == nil {
		if len(p.noLines) != len(p.Rules) {
			p.noLines = make([][]string, len(p.Rules))
		}
		t.Lines = p.noLines // nothing due: no aggregation emits anything
	}
	for k := range t.Routes {
		sort.Strings(t.Routes[k])
	}
	return t
}

// Canon renders the state relative to the time `origin` (so that the same
// situation reached at different absolute times is the same state).
func (s *PipeState) Canon(origin int64) string {
	var parts []string
	for i, m := range s.open {
		for b, keys := range m {
			for k, acc := range keys {
				parts = append(parts, fmt.Sprintf("%d@%d:%s=%d", i, b-origin, k, acc))
			}
		}
	}
	sort.Strings(parts)
	return strings.Join(parts, ",")
}

// Hash is an order-independent 64-bit digest of what Canon renders (used to
// count distinct states without building strings).
func (s *PipeState) Hash(origin int64) uint64 {
	var sum uint64
	for i, m := range s.open {
		for b, keys := range m {
			for k, acc := range keys {
				h := uint64(14695981039346656037)
				mix := func(x uint64) {
					for j := 0; j < 8; j++ {
						h ^= x & 0xff
						h *= 1099511628211
						x >>= 8
					}
				}
				mix(uint64(i))
				mix(uint64(b - origin))
				mix(uint64(acc))
				for j := 0; j < len(k); j++ {
					h ^= uint64(k[j])
					h *= 1099511628211
				}
				sum += h
			}
		}
	}
	return sum
}

// Empty reports whether no bucket is open.
func (s *PipeState) Empty() bool {
	for _, m := range s.open {
		if len(m) > 0 {
			return false
		}
	}
	return true
}
