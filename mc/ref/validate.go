package ref

// Reference model of message validation (property C02).
//
// Written from docs/validation.md, the comments of examples/carbon-relay-ng.ini
// and the statement of C02 - not from the validator that the relay calls, and
// without importing it.
//
// The documentation leaves a number of points open (or states them in two
// incompatible ways). Instead of silently picking one answer, the model makes
// every such point an explicit dimension of a ValReading and evaluates a name
// under ALL readings: the verdict is *claimed* only where every reading gives
// the same answer; elsewhere the model says "open" and the check demands
// internal consistency only (forwarded xor counted+reported).

import (
	"bytes"
	"strconv"
	"unicode"
	"unicode/utf8"
)

type ValLegacy int

const (
	ValLegacyNone ValLegacy = iota
	ValLegacyMedium
	ValLegacyStrict
)

func (l ValLegacy) String() string { return [...]string{"none", "medium", "strict"}[l] }

type ValM20 int

const (
	ValM20None ValM20 = iota
	ValM20Medium
)

func (l ValM20) String() string { return [...]string{"none", "medium"}[l] }

type ValLevels struct {
	Legacy ValLegacy
	M20    ValM20
}

// ValReading fixes every point the documentation leaves open.
type ValReading struct {
	// Which grammar applies. validation.md: "if the key contains = or _is_ we
	// validate the key as metric2.0". true: anywhere in the name. false: only
	// the first dot-separated node of the name as received is inspected (what
	// the third-party detector does).
	MarkerAnywhere bool
	// The name that is validated: as received, or with one leading dot removed
	// ("graphite graciously allows a leading dot by pretending it's not there").
	// The documentation does not mention this normalisation.
	StripDot bool
	// Tag appendix: "each tag is a non-empty key and value string, separated by
	// =. Keys and values may not contain ;" - whether a value may contain a
	// further '=' is not said (graphite itself allows it).
	EqInTagValue bool
	// metrics2.0 medium. validation.md: "unit, mtype tag set ... at least two
	// tags" (0: two tags are enough); carbon-relay-ng.ini: "checks for unit and
	// mtype tag, presence of another tag" (1: at least three tags; 2: at least
	// three dot-separated nodes, whatever they look like).
	M20Count int
	// metrics2.0 medium: whether every node has to be a well-formed tag
	// (non-empty key, separator, non-empty value). Not said.
	M20StrictNodes bool
}

// ValImplLike is the reading closest to what the relay is observed to do; it is
// used for reporting only (how the open class is decided), never as an oracle.
var ValImplLike = ValReading{MarkerAnywhere: false, StripDot: true, EqInTagValue: false, M20Count: 2, M20StrictNodes: false}

func ValReadings() []ValReading {
	var out []ValReading
	for _, a := range []bool{false, true} {
		for _, b := range []bool{false, true} {
			for _, c := range []bool{false, true} {
				for d := 0; d < 3; d++ {
					for _, e := range []bool{false, true} {
						out = append(out, ValReading{a, b, c, d, e})
					}
				}
			}
		}
	}
	return out
}

// ValDims names the dimensions of a reading, in the order used by ValVerdict.Open.
var ValDims = []string{
	"grammar choice: marker (= or _is_) anywhere in the name vs in its first node only",
	"name validated as received vs with one leading dot removed",
	"'=' inside a tag-appendix value",
	"metrics2.0 medium: two tags vs a third tag vs a third node",
	"metrics2.0 medium: nodes must be well-formed tags",
}

func (r ValReading) flip(dim int) []ValReading {
	switch dim {
	case 0:
		r.MarkerAnywhere = !r.MarkerAnywhere
	case 1:
		r.StripDot = !r.StripDot
	case 2:
		r.EqInTagValue = !r.EqInTagValue
	case 3:
		a, b := r, r
		a.M20Count = (r.M20Count + 1) % 3
		b.M20Count = (r.M20Count + 2) % 3
		return []ValReading{a, b}
	case 4:
		r.M20StrictNodes = !r.M20StrictNodes
	}
	return []ValReading{r}
}

// ValFields splits a line into whitespace-separated fields (whitespace as Go
// defines it for text: unicode.IsSpace on the decoded runes; bytes that are
// not valid UTF-8 are not whitespace).
func ValFields(line []byte) [][]byte {
	var out [][]byte
	start := -1
	for i := 0; i < len(line); {
		r, w := utf8.DecodeRune(line[i:])
		sp := false
		if !(r == utf8.RuneError && w == 1) {
			sp = unicode.IsSpace(r)
		}
		if sp {
			if start >= 0 {
				out = append(out, line[start:i])
				start = -1
			}
		} else if start < 0 {
			start = i
		}
		i += w
	}
	if start >= 0 {
		out = append(out, line[start:])
	}
	return out
}

// ValParsedName is the name under which a rejected three-field line is
// reported: its first field, one leading dot removed.
func ValParsedName(field []byte) []byte {
	if len(field) > 0 && field[0] == '.' {
		return field[1:]
	}
	return field
}

var (
	valEq = []byte("=")
	valIs = []byte("_is_")
)

func valHasMarker(b []byte) bool { return bytes.Contains(b, valEq) || bytes.Contains(b, valIs) }

// ValName decides one name under one reading. reason is "" when acceptable.
func ValName(name []byte, lv ValLevels, rd ValReading) (ok bool, reason string) {
	m20 := false
	if rd.MarkerAnywhere {
		m20 = valHasMarker(name)
	} else {
		first := name
		if i := bytes.IndexByte(name, '.'); i >= 0 {
			first = name[:i]
		}
		m20 = valHasMarker(first)
	}
	t := name
	if rd.StripDot {
		t = ValParsedName(name)
	}
	// "the message has 3 fields with a non-empty key"
	if len(t) == 0 {
		return false, "empty key"
	}
	if m20 {
		return valNameM20(t, lv.M20, rd)
	}
	return valNameLegacy(t, lv.Legacy, rd)
}

func valNameLegacy(t []byte, lv ValLegacy, rd ValReading) (bool, string) {
	if lv == ValLegacyNone {
		return true, ""
	}
	key := t
	if i := bytes.IndexByte(t, ';'); i >= 0 {
		key = t[:i]
		if len(key) == 0 {
			return false, "no metric name in front of the tag appendix"
		}
		for _, seg := range bytes.Split(t[i+1:], []byte(";")) {
			j := bytes.IndexByte(seg, '=')
			if j < 0 {
				return false, "tag without '='"
			}
			k, v := seg[:j], seg[j+1:]
			if len(k) == 0 || len(v) == 0 {
				return false, "empty tag key or value"
			}
			if bytes.IndexByte(k, '!') >= 0 {
				return false, "'!' in tag key"
			}
			if !rd.EqInTagValue && bytes.IndexByte(v, '=') >= 0 {
				return false, "'=' in tag value"
			}
		}
	}
	// medium: 8-bit clean and not NUL, appendix included
	for _, c := range t {
		if c == 0 {
			return false, "NUL byte"
		}
		if c >= 0x80 {
			return false, "not 8-bit clean"
		}
	}
	if lv == ValLegacyStrict {
		prevDot := false
		for _, c := range key {
			switch {
			case c >= 'a' && c <= 'z', c >= 'A' && c <= 'Z', c >= '0' && c <= '9', c == '_', c == '-':
				prevDot = false
			case c == '.':
				if prevDot {
					return false, "consecutive dots"
				}
				prevDot = true
			default:
				return false, "character outside [A-Za-z0-9_-.]"
			}
		}
	}
	return true, ""
}

func valNameM20(t []byte, lv ValM20, rd ValReading) (bool, string) {
	if lv == ValM20None {
		return true, ""
	}
	hasEq, hasIs := bytes.Contains(t, valEq), bytes.Contains(t, valIs)
	if hasEq && hasIs {
		return false, "mixes = and _is_"
	}
	sep := valEq
	if hasIs {
		sep = valIs
	}
	nodes := bytes.Split(t, []byte("."))
	tags, unit, mtype := 0, false, false
	for _, n := range nodes {
		j := bytes.Index(n, sep)
		if j < 0 {
			if rd.M20StrictNodes {
				return false, "node is not a tag"
			}
			continue
		}
		k, v := n[:j], n[j+len(sep):]
		if rd.M20StrictNodes && (len(k) == 0 || len(v) == 0) {
			return false, "empty tag key or value"
		}
		tags++
		if string(k) == "unit" {
			unit = true
		}
		if string(k) == "mtype" {
			mtype = true
		}
	}
	if !unit {
		return false, "no unit tag"
	}
	if !mtype {
		return false, "no mtype tag"
	}
	switch rd.M20Count {
	case 0:
		if tags < 2 {
			return false, "fewer than two tags"
		}
	case 1:
		if tags < 3 {
			return false, "no tag besides unit and mtype"
		}
	case 2:
		if len(nodes) < 3 {
			return false, "no node besides unit and mtype"
		}
	}
	return true, ""
}

// ValVerdict is the model's answer for a name at given levels.
type ValVerdict struct {
	Claimed  bool   // every reading agrees
	Valid    bool   // the common answer (only if Claimed)
	Reason   string // why not (only if Claimed && !Valid; from the first reading)
	Open     uint8  // bit i set: dimension ValDims[i] changes the answer (only if !Claimed)
	ImplLike bool   // answer of ValImplLike (reporting only)
}

var valAllReadings = ValReadings()

func ValJudgeName(name []byte, lv ValLevels) ValVerdict {
	var v ValVerdict
	first, firstReason := ValName(name, lv, valAllReadings[0])
	agree := true
	for _, rd := range valAllReadings[1:] {
		ok, _ := ValName(name, lv, rd)
		if ok != first {
			agree = false
			break
		}
	}
	v.ImplLike, _ = ValName(name, lv, ValImplLike)
	if agree {
		v.Claimed, v.Valid, v.Reason = true, first, firstReason
		return v
	}
	for _, rd := range valAllReadings {
		ok, _ := ValName(name, lv, rd)
		for d := range ValDims {
			if v.Open&(1<<uint(d)) != 0 {
				continue
			}
			for _, o := range rd.flip(d) {
				if ok2, _ := ValName(name, lv, o); ok2 != ok {
					v.Open |= 1 << uint(d)
				}
			}
		}
	}
	return v
}

// Tri-state answer for the numeric fields.
type ValTri int

const (
	ValNo ValTri = iota
	ValYes
	ValOpen
)

// ValValue: "the value parses to an int or float" / statement: "a numeric
// value". Plain decimal notation (optionally signed, fraction, exponent) is
// numeric under any reading; what only Go's float syntax accepts beyond that
// (hexadecimal floats, NaN, Inf, digit-separating underscores) is left open.
func ValValue(s []byte) ValTri {
	if _, err := strconv.ParseFloat(string(s), 64); err != nil {
		return ValNo
	}
	if valPlainDecimal(s) {
		return ValYes
	}
	return ValOpen
}

// ValTimestamp: "the timestamp is a unix timestamp" / statement: "a numeric
// ... timestamp": the statement's reading (numeric) is used; what is numeric
// only in Go's extended syntax is left open, as for the value.
func ValTimestamp(s []byte) ValTri { return ValValue(s) }

func valPlainDecimal(s []byte) bool {
	i := 0
	if i < len(s) && (s[i] == '+' || s[i] == '-') {
		i++
	}
	digits := 0
	for i < len(s) && s[i] >= '0' && s[i] <= '9' {
		i++
		digits++
	}
	if i < len(s) && s[i] == '.' {
		i++
		for i < len(s) && s[i] >= '0' && s[i] <= '9' {
			i++
			digits++
		}
	}
	if digits == 0 {
		return false
	}
	if i < len(s) && (s[i] == 'e' || s[i] == 'E') {
		i++
		if i < len(s) && (s[i] == '+' || s[i] == '-') {
			i++
		}
		ed := 0
		for i < len(s) && s[i] >= '0' && s[i] <= '9' {
			i++
			ed++
		}
		if ed == 0 {
			return false
		}
	}
	return i == len(s)
}

// ValLineVerdict combines field count, name verdict and the numeric fields.
type ValLineVerdict struct {
	Claimed bool
	Valid   bool
	Reason  string
	Name    []byte // parsed name ("" unless there are exactly three fields)
	Fields  [][]byte
}

func ValJudgeLine(line []byte, name func(field []byte) ValVerdict) ValLineVerdict {
	f := ValFields(line)
	out := ValLineVerdict{Fields: f}
	if len(f) != 3 {
		out.Claimed, out.Valid, out.Reason = true, false, "not exactly three fields"
		return out
	}
	out.Name = ValParsedName(f[0])
	nv := name(f[0])
	val, ts := ValValue(f[1]), ValTimestamp(f[2])
	switch {
	case nv.Claimed && !nv.Valid:
		out.Claimed, out.Reason = true, "name: "+nv.Reason
	case val == ValNo:
		out.Claimed, out.Reason = true, "value is not numeric"
	case ts == ValNo:
		out.Claimed, out.Reason = true, "timestamp is not numeric"
	case !nv.Claimed || val == ValOpen || ts == ValOpen:
		out.Claimed = false
	default:
		out.Claimed, out.Valid = true, true
	}
	return out
}
