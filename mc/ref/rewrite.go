package ref

// Reference rewriter for C04. Written from docs/rewriting.md and the property
// statement, not from rewriter/rewriter.go:
//
//   - rules are processed in series, each one on the name produced by the
//     previous one, and on the name only;
//   - a rule whose `not` is non-empty is skipped when the (current) name
//     matches it: `not` wrapped in forward slashes is a regular expression
//     (unanchored search), anything else a substring;
//   - `old` wrapped in forward slashes is a regular expression: every
//     (leftmost, non-overlapping) match is replaced by `new`, in which
//     ${n} / $n / ${name} stand for the submatches and $$ for a dollar sign
//     (the documented Regexp.Expand template language);
//   - otherwise the first `max` non-overlapping occurrences of the literal
//     `old` are replaced, scanning left to right; -1 means all of them, 0 is
//     "a maximum of zero items", i.e. nothing is replaced.
//
// The only thing taken from the standard library is regular-expression
// *matching* (regexp.FindAllStringSubmatchIndex); replacement, expansion and
// the literal scan are spelled out here.

import (
	"fmt"
	"regexp"
	"strconv"
	"strings"
)

type RewriteRule struct {
	Old string `json:"old"`
	New string `json:"new"`
	Not string `json:"not"`
	Max int    `json:"max"`
}

func (r RewriteRule) String() string {
	s := fmt.Sprintf("%s->%q max=%d", r.Old, r.New, r.Max)
	if r.Not != "" {
		s += " not=" + r.Not
	}
	return s
}

func RulesString(rules []RewriteRule) string {
	if len(rules) == 0 {
		return "[]"
	}
	parts := make([]string, len(rules))
	for i, r := range rules {
		parts[i] = r.String()
	}
	return "[" + strings.Join(parts, "; ") + "]"
}

func rwSlashed(s string) (string, bool) {
	if len(s) >= 2 && s[0] == '/' && s[len(s)-1] == '/' {
		return s[1 : len(s)-1], true
	}
	return "", false
}

// Rewrite applies the rules in order to name.
func Rewrite(rules []RewriteRule, name string) string {
	for _, r := range rules {
		name = r.Apply(name)
	}
	return name
}

// Apply applies one rule.
func (r RewriteRule) Apply(name string) string {
	if r.Not != "" {
		if expr, isRe := rwSlashed(r.Not); isRe {
			if regexp.MustCompile(expr).FindStringIndex(name) != nil {
				return name
			}
		} else if strings.Index(name, r.Not) >= 0 {
			return name
		}
	}
	if expr, isRe := rwSlashed(r.Old); isRe {
		re := regexp.MustCompile(expr)
		var out strings.Builder
		last := 0
		for _, m := range re.FindAllStringSubmatchIndex(name, -1) {
			out.WriteString(name[last:m[0]])
			out.WriteString(rwExpandTemplate(r.New, name, m, re.SubexpNames()))
			last = m[1]
		}
		out.WriteString(name[last:])
		return out.String()
	}
	if r.Old == "" {
		return name
	}
	var out strings.Builder
	done := 0
	i := 0
	for i < len(name) {
		if (r.Max < 0 || done < r.Max) && strings.HasPrefix(name[i:], r.Old) {
			out.WriteString(r.New)
			i += len(r.Old)
			done++
			continue
		}
		out.WriteByte(name[i])
		i++
	}
	return out.String()
}

func rwIsNameByte(c byte) bool {
	return c == '_' || (c >= '0' && c <= '9') || (c >= 'a' && c <= 'z') || (c >= 'A' && c <= 'Z')
}

// rwExpandTemplate: $name / ${name}; a purely numeric name is a submatch index;
// unknown or unmatched groups expand to nothing; $$ is a literal dollar; a
// dollar that starts nothing well-formed stays as it is.
func rwExpandTemplate(tmpl, src string, m []int, names []string) string {
	var out strings.Builder
	for i := 0; i < len(tmpl); {
		c := tmpl[i]
		if c != '$' {
			out.WriteByte(c)
			i++
			continue
		}
		if i+1 < len(tmpl) && tmpl[i+1] == '$' {
			out.WriteByte('$')
			i += 2
			continue
		}
		var ident string
		next := i + 1
		if next < len(tmpl) && tmpl[next] == '{' {
			end := strings.IndexByte(tmpl[next:], '}')
			if end < 0 {
				out.WriteByte('$')
				i++
				continue
			}
			ident = tmpl[next+1 : next+end]
			next = next + end + 1
			ok := ident != ""
			for k := 0; k < len(ident); k++ {
				if !rwIsNameByte(ident[k]) {
					ok = false
				}
			}
			if !ok {
				out.WriteByte('$')
				i++
				continue
			}
		} else {
			j := next
			for j < len(tmpl) && rwIsNameByte(tmpl[j]) {
				j++
			}
			if j == next {
				out.WriteByte('$')
				i++
				continue
			}
			ident = tmpl[next:j]
			next = j
		}
		group := -1
		if n, err := strconv.Atoi(ident); err == nil && n >= 0 {
			group = n
		} else {
			for gi, gn := range names {
				if gn != "" && gn == ident {
					group = gi
					break
				}
			}
		}
		if group >= 0 && 2*group+1 < len(m) && m[2*group] >= 0 {
			out.WriteString(src[m[2*group]:m[2*group+1]])
		}
		i = next
	}
	return out.String()
}
