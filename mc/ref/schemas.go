package ref

// Reference model for C16: which storage-schemas rule applies to a series and
// what a line's tokens mean. Written from the property statement and the
// Graphite documentation (storage-schemas.conf, tagged series naming), not
// from carbon-relay-ng's persister / route packages.

import (
	"regexp"
	"sort"
	"strconv"
	"strings"
	"sync"
)

// SchemaRule is one [section] of a storage-schemas.conf file.
type SchemaRule struct {
	Section    string `json:"section"`
	Pattern    string `json:"pattern"`
	Priority   *int   `json:"priority"` // nil: no priority line
	Retentions string `json:"retentions"`
}

func (r SchemaRule) prio() int {
	if r.Priority == nil {
		return 0
	}
	return *r.Priority
}

// SchemasFile renders the rules in file order.
func SchemasFile(rules []SchemaRule) string {
	var b strings.Builder
	for _, r := range rules {
		b.WriteString("[" + r.Section + "]\n")
		b.WriteString("pattern = " + r.Pattern + "\n")
		if r.Priority != nil {
			b.WriteString("priority = " + strconv.Itoa(*r.Priority) + "\n")
		}
		b.WriteString("retentions = " + r.Retentions + "\n\n")
	}
	return b.String()
}

// PresentedName is the series name as Graphite presents it to the schema
// patterns: the plain name for an untagged series, "name;tag1=v1;tag2=v2" with
// the tags sorted for a tagged one.
func PresentedName(nameToken string) string {
	parts := strings.Split(nameToken, ";")
	if len(parts) == 1 {
		return nameToken
	}
	tags := append([]string(nil), parts[1:]...)
	sort.Strings(tags)
	return parts[0] + ";" + strings.Join(tags, ";")
}

var c16UnitSeconds = map[byte]int{'s': 1, 'm': 60, 'h': 3600, 'd': 86400, 'w': 604800, 'y': 31536000}

// FirstRetentionSeconds is the seconds-per-point of the first retention of a
// retentions value, in the old ("seconds:points") or new ("10s:1d") syntax.
func FirstRetentionSeconds(retentions string) int {
	first := strings.TrimSpace(strings.Split(retentions, ",")[0])
	prec := strings.TrimSpace(strings.Split(first, ":")[0])
	if n, err := strconv.Atoi(prec); err == nil {
		return n
	}
	i := 0
	for i < len(prec) && prec[i] >= '0' && prec[i] <= '9' {
		i++
	}
	n, _ := strconv.Atoi(prec[:i])
	if i == len(prec) {
		return n
	}
	return n * c16UnitSeconds[prec[i]]
}

// SelectRule returns the index (in file order) of the rule that applies to the
// presented series name: rules are considered by priority, highest first, then
// in file order; the first whose pattern (an unanchored regular-expression
// search) matches wins. -1 if none matches.
func SelectRule(rules []SchemaRule, presented string) int {
	order := make([]int, len(rules))
	for i := range order {
		order[i] = i
	}
	sort.SliceStable(order, func(a, b int) bool { return rules[order[a]].prio() > rules[order[b]].prio() })
	for _, i := range order {
		if c16Compiled(rules[i].Pattern).MatchString(presented) {
			return i
		}
	}
	return -1
}

var c16ReCache sync.Map // pattern -> *regexp.Regexp

func c16Compiled(p string) *regexp.Regexp {
	if r, ok := c16ReCache.Load(p); ok {
		return r.(*regexp.Regexp)
	}
	r := regexp.MustCompile(p)
	c16ReCache.Store(p, r)
	return r
}

// C16Record is what the grafana.net / Kafka record must carry for a line.
type C16Record struct {
	Name  string
	Tags  []string
	Value float64
	Time  int64
}

// Tokens of one "name value timestamp" line, interpreted per the statement.
type C16Line struct {
	NameToken string
	Value     float64
	ValueOK   bool // the value token spells a float64
	Time      uint64
	TimeOK    bool // the timestamp token is an integer in 0 .. 2^32-1
	// TimeLenient: the token is not a plain digit string but denotes an integer
	// in range (e.g. 1e3): a converter may refuse it or take it as that integer.
	TimeLenient bool
	TagsOK      bool // every ";"-separated part after the name is key=value with non-empty key and value
}

var c16PlainDigits = regexp.MustCompile(`^[0-9]+$`)

// Meaning interprets the three tokens.
func C16Meaning(name, val, ts string) C16Line {
	m := C16Line{NameToken: name}
	v, err := strconv.ParseFloat(val, 64)
	m.Value, m.ValueOK = v, err == nil
	if c16PlainDigits.MatchString(ts) {
		n, err := strconv.ParseUint(ts, 10, 64)
		if err == nil && n <= 4294967295 {
			m.Time, m.TimeOK = n, true
		}
	} else if f, err := strconv.ParseFloat(ts, 64); err == nil && f >= 0 && f <= 4294967295 && f == float64(uint64(f)) {
		m.Time, m.TimeLenient = uint64(f), true
	}
	m.TagsOK = true
	for _, t := range strings.Split(name, ";")[1:] {
		eq := strings.Index(t, "=")
		if eq <= 0 || eq == len(t)-1 {
			m.TagsOK = false
		}
	}
	return m
}

// C16RecordOf is the record for a line whose tokens are all representable.
func C16RecordOf(m C16Line) C16Record {
	parts := strings.Split(m.NameToken, ";")
	tags := append([]string{}, parts[1:]...)
	sort.Strings(tags)
	return C16Record{Name: parts[0], Tags: tags, Value: m.Value, Time: int64(m.Time)}
}
