package ref

// Reference routing function for property C01, written from the property
// statement and the README ("Concepts"): a valid metric is checked against the
// blacklist (on the name as received), then passes through the rewriters in
// order, is offered to the aggregations in order (a drop-raw aggregation whose
// filter accepts it consumes it), and is then handed exactly once to every
// route whose filter accepts the rewritten name. Inside a route, sendAllMatch
// forwards to every destination whose filter accepts the name, sendFirstMatch
// to the first such destination in configured order, consistentHashing to
// exactly one of its destinations. A metric accepted by no route is counted
// unroutable once; a blacklisted one is counted blacklisted and goes nowhere.
//
// Nothing here imports the code under test.

import (
	"fmt"
	"strings"
	"sync"
)

const (
	TypeCapture = "capture"           // a route observed at the Route interface (no destinations)
	TypeAll     = "sendAllMatch"      // every destination whose filter accepts
	TypeFirst   = "sendFirstMatch"    // first destination whose filter accepts
	TypeHashing = "consistentHashing" // exactly one destination
	DestOfRoute = ""                  // Delivery.Dest for a hand-off to a capture route
)

// Rewriter is a plain (non-regex) rewriter: replace Old by New, at most Max
// times (-1: no limit).
type Rewriter struct {
	Old, New string
	Max      int
}

func (r Rewriter) Do(name string) string { return strings.Replace(name, r.Old, r.New, r.Max) }

func (r Rewriter) String() string { return fmt.Sprintf("%s>%s(%d)", r.Old, r.New, r.Max) }

// Agg is an aggregation as far as routing of the raw metric is concerned.
type Agg struct {
	Filter  Filter
	DropRaw bool
}

func (a Agg) String() string {
	if a.DropRaw {
		return "drop{" + a.Filter.String() + "}"
	}
	return "keep{" + a.Filter.String() + "}"
}

type Dest struct {
	Key    string
	Filter Filter
}

type Route struct {
	Key    string
	Type   string
	Filter Filter
	Dests  []Dest
}

func (r Route) String() string {
	s := r.Key + ":" + r.Type + "{" + r.Filter.String() + "}"
	if r.Type == TypeCapture {
		return s
	}
	var ds []string
	for _, d := range r.Dests {
		ds = append(ds, "{"+d.Filter.String()+"}")
	}
	return s + "[" + strings.Join(ds, ",") + "]"
}

type Table struct {
	Blacklist []Filter
	Rewriters []Rewriter
	Aggs      []Agg
	Routes    []Route
}

func (t Table) String() string {
	var bl, rw, ag, ro []string
	for _, f := range t.Blacklist {
		bl = append(bl, "{"+f.String()+"}")
	}
	for _, r := range t.Rewriters {
		rw = append(rw, r.String())
	}
	for _, a := range t.Aggs {
		ag = append(ag, a.String())
	}
	for _, r := range t.Routes {
		ro = append(ro, r.String())
	}
	return "blacklist=[" + strings.Join(bl, ",") + "] rewriters=[" + strings.Join(rw, ",") + "] aggregations=[" + strings.Join(ag, ",") + "] routes=[" + strings.Join(ro, " ") + "]"
}

// Delivery identifies one place a metric can be handed to: a destination of a
// route, or (Dest == DestOfRoute) a capture route itself.
type Delivery struct {
	Route string
	Dest  string
}

// Outcome is what the statement demands for one dispatched metric.
type Outcome struct {
	Name        string // the name after rewriting (what routes and destinations see)
	Blacklisted bool
	Consumed    bool             // swallowed by a drop-raw aggregation
	AggSeen     []bool           // per aggregation: its filter accepted the metric and it was offered to it
	Deliveries  map[Delivery]int // exact multiset of deliveries (absent = 0) for capture / sendAllMatch / sendFirstMatch
	HashRoutes  map[string]int   // consistentHashing route key -> total number of deliveries among its destinations (0 or 1)
	HashAtMost  map[string]bool  // consistentHashing route whose destinations carry filters: the statement does not say whether the chosen destination's filter applies, so the total is only bounded by HashRoutes[key]
	Accepted    []string         // keys of the routes that accepted the metric, in table order
	Blacklist   int              // expected delta of the blacklist counter
	Unroutable  int              // expected delta of the unroutable counter
}

var compiled sync.Map // Filter -> *Compiled

func accepts(f Filter, name string) bool {
	c, ok := compiled.Load(f)
	if !ok {
		cc, err := f.Compile()
		if err != nil {
			panic(err)
		}
		compiled.Store(f, cc)
		c = cc
	}
	return c.(*Compiled).Match([]byte(name))
}

// Dispatch computes the demanded outcome for a valid metric with this name.
func (t Table) Dispatch(name string) Outcome {
	o := Outcome{Name: name, AggSeen: make([]bool, len(t.Aggs)), Deliveries: map[Delivery]int{}, HashRoutes: map[string]int{}, HashAtMost: map[string]bool{}}
	for _, b := range t.Blacklist {
		if accepts(b, name) {
			o.Blacklisted = true
			o.Blacklist = 1
			return o
		}
	}
	for _, rw := range t.Rewriters {
		name = rw.Do(name)
	}
	o.Name = name
	for i, a := range t.Aggs {
		if accepts(a.Filter, name) {
			o.AggSeen[i] = true
			if a.DropRaw {
				o.Consumed = true
				return o
			}
		}
	}
	for _, r := range t.Routes {
		if r.Type == TypeHashing {
			o.HashRoutes[r.Key] = 0
			for _, d := range r.Dests {
				if d.Filter != (Filter{}) {
					o.HashAtMost[r.Key] = true
				}
			}
		}
		if !accepts(r.Filter, name) {
			continue
		}
		o.Accepted = append(o.Accepted, r.Key)
		switch r.Type {
		case TypeCapture:
			o.Deliveries[Delivery{r.Key, DestOfRoute}]++
		case TypeAll:
			for _, d := range r.Dests {
				if accepts(d.Filter, name) {
					o.Deliveries[Delivery{r.Key, d.Key}]++
				}
			}
		case TypeFirst:
			for _, d := range r.Dests {
				if accepts(d.Filter, name) {
					o.Deliveries[Delivery{r.Key, d.Key}]++
					break
				}
			}
		case TypeHashing:
			o.HashRoutes[r.Key] = 1
		default:
			panic("ref: unknown route type " + r.Type)
		}
	}
	if len(o.Accepted) == 0 {
		o.Unroutable = 1
	}
	return o
}
