// C07: with spooling on, an endpoint outage loses nothing that is not counted.
//
// The real destination with spool=true (relay loop, connection writer, EOF
// detector, keepSafe, Spool writer/buffer goroutines, SlowChan, and the real
// nsqd.DiskQueue on the in-memory filesystem) runs under the controlled
// scheduler against a modelled TCP endpoint with incarnations. The driver is
// the environment: it brings the endpoint up and down, makes the peer close a
// connection, and places uniquely numbered lines before, during and after each
// transition (where exactly is enumerated: schedule choices and sleeps chosen
// with vrt.Choose).
//
// Oracle at the end (endpoint up and left alone for 25 virtual seconds): the
// number of distinct handed-off lines never received intact by any incarnation
// is at most slow_conn + slow_spool; the spool is empty; nothing is parked.
package main

import (
	"fmt"
	"io"
	stdlog "log"
	"strings"
	"time"

	"github.com/grafana/carbon-relay-ng/destination"
	"github.com/grafana/carbon-relay-ng/matcher"
	"github.com/grafana/carbon-relay-ng/route"
	log "github.com/sirupsen/logrus"

	"verif/mc/destharn"
	"verif/mc/harn"
	"verif/mc/kit"
	"verif/mc/vrt"
	"verif/mc/vrt/vos"
)

type step struct {
	kind string // line | up | down | peerclose | sleep | maybesleep
	d    time.Duration
}

type script struct {
	name         string
	startUp      bool
	steps        []step
	unspoolSleep time.Duration
	iobuf        int           // 0: 64 bytes
	writeErr     bool          // writes after the peer closed may fail (chosen exhaustively)
	hung         bool          // the first incarnation never reads (4 KiB of socket buffer)
	sockBuf      int           // socket buffer of a hung endpoint; 0: 4096 bytes
	spoolFile    int           // spool segment size; 0: 200 bytes
	spoolSleep   time.Duration // pacing of lines entering the spool (production default 500 us)
	flush        time.Duration // flush period of the connection; 0: 1 s
}

func line() step                  { return step{kind: "line"} }
func sleep(d time.Duration) step  { return step{kind: "sleep", d: d} }
func maybe(d time.Duration) step  { return step{kind: "maybesleep", d: d} }
func ev(kind string) step         { return step{kind: kind} }
func sec(f float64) time.Duration { return time.Duration(f * float64(time.Second)) }
func seq(parts ...[]step) (out []step) {
	for _, p := range parts {
		out = append(out, p...)
	}
	return
}
func s(st ...step) []step { return st }

var scripts = []script{
	// S1: outage before the first connect; lines while down, then the endpoint comes up
	{name: "S1 down-then-up", startUp: false, steps: seq(s(line(), maybe(sec(1.1)), line(), sleep(sec(3)), ev("up"), maybe(sec(0.5)), line()))},
	// S2: up, peer closes the connection (endpoint keeps accepting), traffic before / right after / later
	{name: "S2 peer-close", startUp: true, spoolSleep: 500 * time.Microsecond, steps: seq(s(line(), maybe(sec(1.1)), line(), ev("peerclose"), line(), maybe(sec(2.5)), line()))},
	// S2b: peer closes and the endpoint stays down for a while
	{name: "S2b peer-close-then-down", startUp: true, steps: seq(s(line(), line(), ev("down"), ev("peerclose"), line(), maybe(sec(1.1)), line(), sleep(sec(5)), ev("up"), line()))},
	// S3: two outages
	{name: "S3 two-outages", startUp: true, steps: seq(s(line(), ev("peerclose"), line(), sleep(sec(4)), line(), ev("peerclose"), maybe(sec(0.3)), line()))},
	// S5: tiny io buffer (every line reaches the socket at once); a write after the peer closed may be
	// accepted and lost or fail with a broken pipe
	{name: "S5 peer-close write-errors", startUp: true, iobuf: 8, writeErr: true, steps: seq(s(line(), ev("peerclose"), line(), line(), maybe(sec(2.5)), line()))},
	// S6: the endpoint accepts but never reads (everything stays in flight), outlives one keepSafe
	// rotation (10 s) with traffic before and after it, then dies; a healthy endpoint takes over.
	// keepSafe must hand both generations to the spool
	{name: "S6 hung-endpoint-dies-after-rotation", startUp: true, hung: true,
		steps: seq(s(line(), line(), sleep(sec(10.5)), line(), ev("peerclose"), ev("healthy"), maybe(sec(1.1)), line()))},
	// S7: a backlog of several spool segments whose records fill a segment exactly (4+11 bytes per
	// record, 30-byte segments): reader and writer of the disk queue must agree on where a segment ends
	{name: "S7 backlog-over-exactly-filled-segments", startUp: false, spoolFile: 30, spoolSleep: 500 * time.Microsecond,
		steps: seq(s(line(), line(), line(), line(), line(), sleep(sec(3)), ev("up"), maybe(sec(0.5)), line()))},
	// S8: the endpoint accepts but never reads and its socket buffer is tiny: the connection's writer
	// blocks, its queue (4 slots) fills up and lines are dropped as slow; then the endpoint dies and the
	// very next line meets a dead connection with a full queue; a healthy endpoint takes over
	{name: "S8 hung-endpoint-full-queue-then-dies", startUp: true, hung: true, sockBuf: 16,
		steps: seq(s(line(), line(), line(), line(), line(), line(), line(), ev("peerclose"), line(), ev("healthy"), maybe(sec(1.1)), line()))},
	// S4: outage while the backlog is being unspooled
	// S9: a flush period (a documented tuning value) longer than the time in-flight lines are retained
	// for replay: a line waits in the write buffer for the next flush, the endpoint closes first
	{name: "S9 flush-period-25s-peer-close", startUp: true, flush: 25 * time.Second,
		steps: seq(s(line(), sleep(sec(21)), ev("peerclose"), maybe(sec(3)), line(), sleep(sec(30)), line()))},
	{name: "S4 outage-while-unspooling", startUp: false, unspoolSleep: 700 * time.Millisecond,
		steps: seq(s(line(), line(), line(), line(), ev("up"), sleep(sec(3.2)), ev("peerclose"), maybe(sec(0.4)), line()))},
}

type exec struct {
	sc    script
	net   *destharn.Net
	viol  string
	out   string
	lines []string
}

func (e *exec) Body() {
	e.net = &destharn.Net{Up: e.sc.startUp, WriteErrChoice: e.sc.writeErr}
	if e.sc.hung {
		e.net.Mode, e.net.SockBuf = destharn.ReadNever, 4096
		if e.sc.sockBuf > 0 {
			e.net.SockBuf = e.sc.sockBuf
		}
	}
	iobuf := 64
	if e.sc.iobuf > 0 {
		iobuf = e.sc.iobuf
	}
	vrt.SetEnv("net", e.net)
	vrt.SetEnv("fs", vos.NewFS())
	flush := time.Second
	if e.sc.flush > 0 {
		flush = e.sc.flush
	}
	spoolFile := 200
	if e.sc.spoolFile > 0 {
		spoolFile = e.sc.spoolFile
	}
	d, err := destination.New("r", matcher.Matcher{}, "10.1.1.1:2003", "/spool", true, false,
		flush, 2*time.Second, 4, iobuf, 10, int64(spoolFile), 2, time.Second, e.sc.spoolSleep, e.sc.unspoolSleep)
	if err != nil {
		panic(err)
	}
	rt, err := route.NewSendAllMatch("r", matcher.Matcher{}, []*destination.Destination{d})
	if err != nil {
		panic(err)
	}
	vrt.Quiesce()
	key := d.Key
	c0 := counters(key)
	for _, st := range e.sc.steps {
		switch st.kind {
		case "line":
			l := fmt.Sprintf("m.n%d %d %d", len(e.lines), len(e.lines), 1000+len(e.lines))
			e.lines = append(e.lines, l)
			t0 := vrt.Elapsed()
			rt.Dispatch([]byte(l))
			if vrt.Elapsed() != t0 && e.viol == "" {
				e.viol = fmt.Sprintf("handing line %q to the route took virtual time", l)
			}
		case "up":
			e.net.Up = true
		case "down":
			e.net.Up = false
		case "healthy":
			e.net.Mode = destharn.ReadAll
		case "peerclose":
			if n := len(e.net.Conns); n > 0 {
				e.net.Conns[n-1].ClosePeer()
			}
		case "sleep":
			vrt.Sleep(st.d)
		case "maybesleep":
			if vrt.Choose(2, "sleep "+st.d.String()) == 1 {
				vrt.Sleep(st.d)
			}
		}
	}
	// the endpoint is up from now on; give the backlog time to drain
	e.net.Up = true
	vrt.Sleep(25 * time.Second)
	vrt.Quiesce()
	c1 := counters(key)
	slowConn, slowSpool := c1["slow_conn"]-c0["slow_conn"], c1["slow_spool"]-c0["slow_spool"]
	received := map[string]int{}
	for _, c := range e.net.Conns {
		for _, l := range strings.Split(string(c.Recv), "\n") {
			if l != "" {
				received[l]++
			}
		}
	}
	var missing []string
	dup := 0
	for _, l := range e.lines {
		if received[l] == 0 {
			missing = append(missing, l)
		}
		if received[l] > 1 {
			dup++
		}
	}
	known := map[string]bool{}
	for _, l := range e.lines {
		known[l] = true
	}
	e.out = fmt.Sprintf("missing=%d dup=%d slow_conn=%d slow_spool=%d conns=%d", len(missing), dup, slowConn, slowSpool, len(e.net.Conns))
	if e.viol != "" {
		return
	}
	for l := range received {
		if !known[l] {
			e.viol = fmt.Sprintf("the endpoint received a line that was never handed off (torn or merged): %q", l)
			return
		}
	}
	if int64(len(missing)) > slowConn+slowSpool {
		e.viol = fmt.Sprintf("%d handed-off line(s) never reached the endpoint (%v) but only %d drop(s) were counted (slow_conn %d, slow_spool %d)", len(missing), missing, slowConn+slowSpool, slowConn, slowSpool)
		return
	}
	if dp := d.VerifSpoolDepth(); dp != 0 {
		e.viol = fmt.Sprintf("the backlog did not drain: %d message(s) still spooled 25 s after the endpoint came back for good", dp)
		return
	}
	if c1["down"] != c0["down"] {
		e.viol = "conn_down_no_spool moved although spooling is enabled"
	}
}

func counters(key string) map[string]int64 {
	return map[string]int64{
		"slow_conn":  harn.Count("dest=" + key + ".unit=Metric.action=drop.reason=slow_conn"),
		"slow_spool": harn.Count("dest=" + key + ".unit=Metric.action=drop.reason=slow_spool"),
		"down":       harn.Count("dest=" + key + ".unit=Metric.action=drop.reason=conn_down_no_spool"),
	}
}

func (e *exec) Check(r *vrt.Result) (string, string) {
	h := e.sc.name
	if len(r.Panics) > 0 {
		return e.out, "panic: " + r.Panics[0].Value + "\n" + h + "\n" + r.Panics[0].Stack
	}
	if r.StepLimit {
		return e.out, "livelock: step limit\n" + h
	}
	if !r.DriverDone {
		return "blocked", fmt.Sprintf("ingestion stalled: a hand-off never returned\n%s\nblocked: %v", h, r.Blocked)
	}
	if e.viol != "" {
		return e.out, e.viol + "\n" + h
	}
	return e.out, ""
}

func main() {
	rep := kit.New("C07", "model_checking")
	rep.Quiet()
	log.SetLevel(log.PanicLevel)
	log.SetOutput(io.Discard)
	stdlog.SetOutput(io.Discard)
	// quick: every script at delay bound 1, then the peer-close script (where an in-flight line
	// races with the redo collection) at bound 2; thorough: every script at bound 2, peer-close at 3
	bound := 1
	if rep.Thorough() {
		bound = 2
	}
	var scns []*vrt.Scenario
	add := func(sc script, b int) {
		scns = append(scns, &vrt.Scenario{Name: fmt.Sprintf("%s (bound %d)", sc.name, b), Cfg: vrt.Config{MaxSteps: 100000, Horizon: 10 * time.Minute}, Model: vrt.CostDelay, Bound: b,
			New: func() vrt.Exec { return &exec{sc: sc} }})
	}
	for _, sc := range scripts {
		add(sc, bound)
	}
	add(scripts[1], bound+1)
	rep.Assume = []string{
		"endpoint model: bytes written after the peer closed are lost, Read returns EOF after the peer closed, a dial reaches a new incarnation while the endpoint is up; the disk queue runs on the in-memory filesystem",
		"virtual time with maximal progress (a runnable goroutine is never starved across a timer deadline): keepSafe's 10 s assumption is not stressed by scheduling stalls",
		fmt.Sprintf("delay bound %d (peer-close script: one more) over ~12 goroutines; flush 1 s, reconnect 2 s, spool sync 1 s, keepSafe 10 s; 25 virtual seconds of quiet at the end", bound),
	}
	e1 := &kit.E1{Rep: rep, Scenarios: scns, Deadline: rep.Deadline(150*time.Second, 40*time.Minute), Shard: true}
	cov := e1.Run()
	if cov != nil {
		cov["bound"] = bound
		cov["cost_model"] = "delay"
	}
	rep.Finish(cov)
}
