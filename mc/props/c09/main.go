// C09: the disk spool queue is an exact persistent FIFO across clean
// restarts. Explicit enumeration of all operation histories over
// {put(size), get, close+reopen, sync-tick} up to a depth, for a grid of
// segment sizes and sync-every counts, on the real nsqd.DiskQueue running on
// an in-memory filesystem under the controlled scheduler; oracle: a plain
// list (FIFO order, byte equality, depth at rest, full drain after a final
// clean restart).
package main

import (
	"io"
	"log"
	"time"

	"verif/mc/dq"
	"verif/mc/kit"
	"verif/mc/vrt"
)

func main() {
	rep := kit.New("C09", "model_checking")
	rep.Quiet()
	log.SetOutput(io.Discard) // nsqd logs every file open through the standard logger
	depth := 7
	sizes := []int{0, 3, 30}
	maxBytes := []int64{1, 16, 40}
	syncEvery := []int64{1, 2, 1000}
	if rep.Thorough() {
		depth = 8
		sizes = []int{0, 1, 5, 20, 70}
		maxBytes = []int64{1, 10, 30}
		syncEvery = []int64{1, 2, 3, 1000}
	}
	var scns []*vrt.Scenario
	for _, mb := range maxBytes {
		for _, se := range syncEvery {
			for _, c := range (dq.Config{MaxBytes: mb, SyncEvery: se, Sizes: sizes, Reopen: true, Tick: true, Depth: depth}).Split() {
				scns = append(scns, dq.Scenario(c))
			}
		}
	}
	// messages around the 4096-byte read buffer of the queue's bufio.Reader: a message larger than
	// it, and a backlog of several KiB inside one segment (a body that straddles a refill)
	bulkDepth := 5
	if rep.Thorough() {
		bulkDepth = 6
	}
	for _, mb := range []int64{6000, 1 << 20} {
		for _, c := range (dq.Config{MaxBytes: mb, SyncEvery: 2, Sizes: []int{1500, 5000}, Reopen: true, Tick: true, Depth: bulkDepth}).Split() {
			scns = append(scns, dq.Scenario(c))
		}
	}
	rep.Assume = []string{
		"the filesystem is the in-memory model vos (POSIX semantics of the calls nsqd uses); one sequential client: after every operation the queue is taken to rest on the default schedule",
		"histories are enumerated without state merging (every history is executed from an empty queue)",
	}
	e1 := &kit.E1{Rep: rep, Scenarios: scns, Deadline: rep.Deadline(100*time.Second, 20*time.Minute)}
	cov := e1.Run()
	if cov != nil {
		cov["depth"] = depth
		cov["alphabet"] = dq.Config{Sizes: sizes, Reopen: true, Tick: true}.Ops()
	}
	rep.Finish(cov)
}
