// C11: aggregation output bypasses the pipeline and cannot loop; drop-raw is
// exact. Engine E2/E4: explicit enumeration of (routing table with 1..3
// aggregations) x (every history of raw points and ticks up to a bound), run on
// the real table.Table with real aggregators wired exactly like the relay
// wires them (aggregator out = table.GetIn(), the unbuffered channel served by
// the goroutine that calls DispatchAggregate), stepped alongside the reference
// pipeline ref.Pipe and compared after EVERY operation.
//
// Exact barriers, no sleeps:
//   - per aggregator: inbox observed empty, then a synchronous round-trip
//     through the single-threaded run loop, which it serves only between two
//     messages: a tick that closes nothing after every operation (see rest),
//     harn.AggRest (Snapshot) at the end of every history;
//   - two sentinel lines through table.GetIn(): the channel is unbuffered and
//     has one reader, so the second is accepted only after the first has been
//     dispatched completely, i.e. after every aggregate line sent before it.
//
// A round is "aggregators at rest -> sentinels -> aggregators at rest"; rounds
// are repeated while an aggregator took something during the round (only
// possible if aggregate output re-enters an aggregation), with a hard cap and
// an output-count bound of 4x the reference: exceeding either is reported as a
// routing LOOP instead of hanging. A watchdog turns a hard deadlock of the
// composition into a violation as well.
//
// The work is spread over worker processes (the per-aggregator counters are
// process-global and keyed by the aggregation's configuration, so concurrent
// tables in one process would disturb each other's counter deltas).
package main

import (
	"bufio"
	"encoding/json"
	"fmt"
	"io"
	"os"
	"os/exec"
	"runtime"
	"runtime/debug"
	"runtime/pprof"
	"sort"
	"strconv"
	"strings"
	"sync"
	"sync/atomic"
	"time"

	"github.com/grafana/carbon-relay-ng/aggregator"
	"github.com/grafana/carbon-relay-ng/matcher"
	"github.com/grafana/carbon-relay-ng/rewriter"
	"github.com/grafana/carbon-relay-ng/stats"
	"github.com/grafana/carbon-relay-ng/table"
	"github.com/grafana/carbon-relay-ng/validate"
	m20 "github.com/metrics20/go-metrics20/carbon20"
	log "github.com/sirupsen/logrus"

	"verif/mc/harn"
	"verif/mc/kit"
	"verif/mc/ref"
)

// ---------------------------------------------------------------------------
// the enumerated space

// shape is one aggregation of the alphabet.
type shape struct {
	Name   string
	Fun    string
	F      ref.Filter
	Format string
	Drop   bool
	Why    string
}

var shapes = []shape{
	{"A", "sum", ref.Filter{Regex: `^raw\.(.*)`}, "agg.$1", false, "plain"},
	{"B", "sum", ref.Filter{Regex: `^s\.(.*)`}, "s.$1", false, "self-matching: its output name matches its own filter"},
	{"C", "count", ref.Filter{Regex: `^agg\.(.*)`}, "agg2.$1", false, "chained: matches the output names of A, E1, E2, E3"},
	{"DA", "sum", ref.Filter{Regex: `^raw\.(.*)`}, "agg.$1", true, "A with drop-raw"},
	{"DB", "sum", ref.Filter{Regex: `^s\.(.*)`}, "s.$1", true, "B with drop-raw (self-matching)"},
	{"E1", "sum", ref.Filter{Regex: `^raw\.(.*)`, NotRegex: `b$`}, "agg.n!$1", true, "drop-raw; notRegex: raw.b passes the pre-filter and the regex but not the complete filter; output name invalid under strict validation"},
	{"E2", "count", ref.Filter{Prefix: "raw.", Regex: `(a)$`}, "agg.e2.$1", true, "drop-raw; prefix: the regex alone also matches s.a and agg.a, the pre-filter also raw.b"},
	{"E3", "sum", ref.Filter{Sub: ".a", Regex: `^(raw|s)\.(.*)`}, "agg.e3.$2", true, "drop-raw; sub: the regex alone also matches raw.b, the pre-filter also agg.a"},
}

const (
	interval = 10
	wait     = 5
	tickStep = 20 // every tick advances the clock by this much: closes every open bucket
	inBuf    = 2000
	t0       = 100000
)

var names = []string{"raw.a", "raw.b", "s.a", "agg.a", "other"}

const opTick = 5 // ops 0..4 are points with names[op]

// opStale: a point for names[0] whose timestamp lies staleAge seconds in the past (late or replayed
// data): every aggregation that takes it counts it as too old; whether the raw metric is withheld
// must not depend on its age
const (
	opStale  = 6
	staleAge = 1000
)

func opName(op byte) string {
	if op == opStale {
		return names[0]
	}
	return names[op]
}

func pipePoint(pipe *ref.Pipe, state *ref.PipeState, op byte, val, clock int64) ref.PipePoint {
	if op == opStale {
		return pipe.PointTooOld(state, opName(op), val, opTs(op, clock))
	}
	return pipe.Point(state, opName(op), val, clock)
}

func opTs(op byte, clock int64) int64 {
	if op == opStale {
		return clock - staleAge
	}
	return clock
}

type aggSel struct {
	Shape int  `json:"shape"`
	Cache bool `json:"cache"`
}

// tspec is one enumerated table.
type tspec struct {
	Aggs      []aggSel `json:"aggs"`
	Blacklist bool     `json:"blacklist"` // blacklist prefix=agg
	Rewriter  bool     `json:"rewriter"`  // rewriter agg -> xxx
}

func (s tspec) String() string {
	var parts []string
	for _, a := range s.Aggs {
		p := shapes[a.Shape].Name
		if a.Cache {
			p += "+cache"
		}
		parts = append(parts, p)
	}
	x := "aggs=[" + strings.Join(parts, " ") + "]"
	if s.Blacklist {
		x += " blacklist{prefix=agg}"
	}
	if s.Rewriter {
		x += " rewriter{agg>xxx}"
	}
	return x
}

var (
	blackFilter = ref.Filter{Prefix: "agg"}
	rewriteRule = ref.Rewriter{Old: "agg", New: "xxx", Max: -1}
)

// capture routes, fixed for all tables; the sentinel route comes last
var routeSpecs = []ref.Route{
	{Key: "all", Type: ref.TypeCapture, Filter: ref.Filter{}},
	{Key: "raw", Type: ref.TypeCapture, Filter: ref.Filter{Regex: `^raw\.`}},
	{Key: "agg", Type: ref.TypeCapture, Filter: ref.Filter{Prefix: "agg"}},
	{Key: "s", Type: ref.TypeCapture, Filter: ref.Filter{Prefix: "s."}},
	{Key: "nodigit", Type: ref.TypeCapture, Filter: ref.Filter{NotRegex: `[0-9]$`}}, // matches every name; would match no LINE (value and timestamp end in digits)
	{Key: "sentinel", Type: ref.TypeCapture, Filter: ref.Filter{Prefix: "zz.sentinel"}},
}

const sentinelPrefix = "zz.sentinel"

var (
	sentinel1 = []byte("zz.sentinel.one 0 0")
	sentinel2 = []byte("zz.sentinel.two 0 0")
)

// lists over {0..n-1} of length lo..hi, shortest first
func lists(n, lo, hi int) [][]int {
	var out [][]int
	for k := lo; k <= hi; k++ {
		idx := make([]int, k)
		for {
			out = append(out, append([]int(nil), idx...))
			i := k - 1
			for i >= 0 {
				idx[i]++
				if idx[i] < n {
					break
				}
				idx[i] = 0
				i--
			}
			if i < 0 {
				break
			}
		}
	}
	return out
}

type plan struct {
	Tables  []tspec
	Points  int
	Ticks   int
	Comment string
}

// plans: the tiers' spaces. Every tier enumerates every ordered list of 1..3
// shapes. Quick combines each list with (cache off, no extras) and (cache on,
// blacklist + rewriter) and runs histories of <= 3 points and <= 2 ticks.
// Thorough takes the full product cache on|off x extras none | blacklist |
// rewriter | both with histories of <= 4 points, and a second plan in which
// the cache is chosen per aggregation (the mixed tables) with <= 3 points.
func plans(thorough bool) []plan {
	ls := lists(len(shapes), 1, 3)
	type combo struct{ cache, bl, rw bool }
	combos := []combo{{false, false, false}, {true, true, true}}
	if thorough {
		combos = nil
		for _, cache := range []bool{false, true} {
			for _, e := range [][2]bool{{false, false}, {true, true}, {true, false}, {false, true}} {
				combos = append(combos, combo{cache, e[0], e[1]})
			}
		}
	}
	var uniform []tspec
	for _, l := range ls {
		for _, c := range combos {
			var s tspec
			for _, sh := range l {
				s.Aggs = append(s.Aggs, aggSel{sh, c.cache})
			}
			s.Blacklist, s.Rewriter = c.bl, c.rw
			uniform = append(uniform, s)
		}
	}
	if !thorough {
		return []plan{{uniform, 3, 2, "every list x {cache off + no extras, cache on + blacklist + rewriter}"}}
	}
	var mixed []tspec
	for _, l := range lists(2*len(shapes), 2, 3) {
		var s tspec
		on, off := 0, 0
		for _, x := range l {
			s.Aggs = append(s.Aggs, aggSel{x / 2, x%2 == 1})
			if x%2 == 1 {
				on++
			} else {
				off++
			}
		}
		if on == 0 || off == 0 {
			continue // uniform: in the first plan
		}
		for _, e := range [][2]bool{{false, false}, {true, true}} {
			s2 := s
			s2.Blacklist, s2.Rewriter = e[0], e[1]
			mixed = append(mixed, s2)
		}
	}
	return []plan{
		{uniform, 4, 2, "every list x cache on|off for the whole table x extras none | blacklist+rewriter | blacklist | rewriter"},
		{mixed, 3, 2, "lists of 2..3 with the cache chosen per aggregation (mixed tables only) x extras none | blacklist+rewriter"},
	}
}

// streams: every sequence with exactly `points` points and `ticks` ticks.
// Every history with fewer of either is a prefix of one of them, and the
// comparison with the reference happens after every operation.
func streams(points, ticks int) [][]byte {
	var out [][]byte
	var rec func(cur []byte, p, t int)
	rec = func(cur []byte, p, t int) {
		if p == points && t == ticks {
			out = append(out, append([]byte(nil), cur...))
			return
		}
		if p < points {
			for n := range names {
				rec(append(cur, byte(n)), p+1, t)
			}
			rec(append(cur, opStale), p+1, t)
		}
		if t < ticks {
			rec(append(cur, opTick), p, t+1)
		}
	}
	rec(nil, 0, 0)
	return out
}

func streamString(st []byte) string {
	var parts []string
	v := 1
	for _, o := range st {
		if o == opTick {
			parts = append(parts, "T")
		} else {
			if o == opStale {
				parts = append(parts, fmt.Sprintf("%s@old=%d", opName(o), v))
			} else {
				parts = append(parts, fmt.Sprintf("%s=%d", names[o], v))
			}
			v *= 2
		}
	}
	return strings.Join(parts, " ")
}

// ---------------------------------------------------------------------------
// live objects

type capRoute struct {
	*harn.Capture
	mu sync.Mutex
}

// Dispatch is called by Table.Dispatch (harness goroutine) and by the table's
// aggregate goroutine; the last sentinel of a barrier may still be in flight
// when the harness reads, hence the lock.
func (c *capRoute) Dispatch(buf []byte) {
	c.mu.Lock()
	c.Capture.Dispatch(buf)
	c.mu.Unlock()
}

// take returns the captured non-sentinel lines, sorted, and resets the capture.
func (c *capRoute) take() (lines []string, sentinels int) {
	c.mu.Lock()
	for _, l := range c.Lines {
		if strings.HasPrefix(l, sentinelPrefix) {
			sentinels++
		} else {
			lines = append(lines, l)
		}
	}
	c.Lines = c.Lines[:0]
	c.Raw = c.Raw[:0]
	c.mu.Unlock()
	sort.Strings(lines)
	return
}

func (c *capRoute) count() int {
	c.mu.Lock()
	n := len(c.Lines)
	c.mu.Unlock()
	return n
}

type ctr interface{ Count() int64 }

type liveAgg struct {
	a    *aggregator.Aggregator
	tick chan time.Time
}

type keyCtr struct {
	key     string
	in, out ctr
	in0     int64
	out0    int64
	members []int // indices of the aggregations sharing this key (same function, filter and format)
}

type violation struct {
	Table  int                    `json:"table"`
	Stream int                    `json:"stream"`
	Sig    string                 `json:"sig"`
	What   string                 `json:"what"`
	Replay map[string]interface{} `json:"replay"`
	Labels []string               `json:"labels"`
}

type result struct {
	Worker      int           `json:"worker"`
	Tables      int64         `json:"tables"`      // tables completely covered
	Assigned    int64         `json:"assigned"`    // tables assigned to this worker
	Traces      int64         `json:"traces"`      // maximal histories executed against the implementation
	Ops         int64         `json:"ops"`         // operations executed (points + ticks, including the closing tick)
	States      int64         `json:"states"`      // distinct (table, reference state) pairs
	Nontrivial  int64         `json:"nontrivial"`  // traces in which the reference demands at least one aggregate line
	AggLines    int64         `json:"agg_lines"`   // aggregate lines demanded and observed
	Consumed    int64         `json:"consumed"`    // raw points withheld by a drop-raw aggregation
	NearMiss    int64         `json:"near_miss"`   // raw points passing a drop-raw aggregation's regex or pre-filter but not its complete filter (must pass on)
	Blacklisted int64         `json:"blacklisted"` // raw points blacklisted
	Barriers    int64         `json:"barriers"`    // barrier rounds
	Cut         string        `json:"cut"`         // why the worker stopped early, if it did
	Violations  []violation   `json:"violations"`  // at most a few
	Samples     []interface{} `json:"samples"`     //
	Infra       string        `json:"infra"`       //
	Seconds     float64       `json:"seconds"`     //
}

type worker struct {
	t        *table.Table
	caps     []*capRoute
	clock    int64 // unix seconds, read by the aggregators through now()
	aggs     []liveAgg
	keys     []*keyCtr
	haveBl   bool
	haveRw   bool
	cIn      ctr
	cInvalid ctr
	cBlack   ctr
	cUnr     ctr
	cTooOld  ctr
	deadline time.Time
	progress int64 // bumped at every barrier round; watched by the watchdog
	where    atomic.Value
	sentSent int
	sentSeen int
	res      result
	resMu    sync.Mutex
	verbose  io.Writer
}

func mk(f ref.Filter) matcher.Matcher {
	return harn.MustMatcher(f.Prefix, f.NotPrefix, f.Sub, f.NotSub, f.Regex, f.NotRegex)
}

func newWorker() *worker {
	cfg, err := table.NewTableConfig("/tmp/verif-nospool", "1h", validate.LevelLegacy{Level: m20.StrictLegacy}, validate.LevelM20{Level: m20.MediumM20}, false)
	if err != nil {
		panic(err)
	}
	w := &worker{t: table.New(cfg), clock: t0}
	for _, r := range routeSpecs {
		c := &capRoute{Capture: harn.NewCapture(r.Key, mk(r.Filter))}
		w.caps = append(w.caps, c)
		w.t.AddRoute(c)
	}
	w.cIn = stats.Counter("unit=Metric.direction=in")
	w.cInvalid = stats.Counter("unit=Err.type=invalid")
	w.cBlack = stats.Counter("unit=Metric.direction=blacklist")
	w.cUnr = stats.Counter("unit=Metric.direction=unroutable")
	w.cTooOld = stats.Counter("module=aggregator.unit=Metric.what=TooOld")
	w.where.Store("start")
	return w
}

func (w *worker) now() time.Time { return time.Unix(atomic.LoadInt64(&w.clock), 0) }

func (w *worker) setExtras(bl, rw bool) {
	if w.haveBl != bl {
		if bl {
			m := mk(blackFilter)
			w.t.AddBlacklist(&m)
		} else if err := w.t.DelBlacklist(0); err != nil {
			panic(err)
		}
		w.haveBl = bl
	}
	if w.haveRw != rw {
		if rw {
			r, err := rewriter.New(rewriteRule.Old, rewriteRule.New, "", rewriteRule.Max)
			if err != nil {
				panic(err)
			}
			w.t.AddRewriter(r)
		} else if err := w.t.DelRewriter(0); err != nil {
			panic(err)
		}
		w.haveRw = rw
	}
}

// install creates the aggregators of the table exactly as imperatives.addAgg
// wires them (out = table.GetIn()), with an injected clock and tick channel.
func (w *worker) install(s tspec) *ref.Pipe {
	w.setExtras(s.Blacklist, s.Rewriter)
	p := &ref.Pipe{}
	if s.Blacklist {
		p.Table.Blacklist = []ref.Filter{blackFilter}
	}
	if s.Rewriter {
		p.Table.Rewriters = []ref.Rewriter{rewriteRule}
	}
	p.Table.Routes = routeSpecs
	w.aggs = w.aggs[:0]
	w.keys = w.keys[:0]
	for i, sel := range s.Aggs {
		sh := shapes[sel.Shape]
		tick := make(chan time.Time)
		a, err := aggregator.NewMocked(sh.Fun, mk(sh.F), sh.Format, sel.Cache, interval, wait, sh.Drop, w.t.GetIn(), inBuf, w.now, tick)
		if err != nil {
			panic(err)
		}
		w.t.AddAggregator(a)
		w.aggs = append(w.aggs, liveAgg{a, tick})
		p.Table.Aggs = append(p.Table.Aggs, ref.Agg{Filter: sh.F, DropRaw: sh.Drop})
		p.Rules = append(p.Rules, ref.PipeRule{Fun: sh.Fun, Format: sh.Format, Interval: interval, Wait: wait})
		var kc *keyCtr
		for _, k := range w.keys {
			if k.key == a.Key {
				kc = k
			}
		}
		if kc == nil {
			kc = &keyCtr{key: a.Key, in: stats.Counter("unit=Metric.direction=in.aggregator=" + a.Key), out: stats.Counter("unit=Metric.direction=out.aggregator=" + a.Key)}
			w.keys = append(w.keys, kc)
		}
		kc.members = append(kc.members, i)
	}
	return p
}

func (w *worker) uninstall() {
	for range w.aggs {
		if err := w.t.DelAggregator(0); err != nil { // shuts the aggregator down
			panic(err)
		}
	}
	w.aggs = w.aggs[:0]
}

func (w *worker) inSum() int64 {
	var s int64
	for _, k := range w.keys {
		s += k.in.Count()
	}
	return s
}

func (w *worker) outSum() int64 {
	var s int64
	for _, k := range w.keys {
		s += k.out.Count()
	}
	return s
}

const maxRounds = 6

// rest waits until the aggregator has completely processed everything it was
// handed so far (points and ticks). Like harn.AggRest it first observes the
// inbox empty; the synchronous round-trip through the single-threaded run loop
// is a tick that closes nothing (its time is the current clock: every open
// bucket is younger than clock - wait) instead of Snapshot(): the tick channel
// is unbuffered, so the run loop accepts it only between two messages, i.e.
// after the previous point or the previous tick's flush has been processed
// completely. (Snapshot allocates a copy of the aggregator per call; with
// several barriers per operation the garbage collector, which has to rescan the
// table's 100000-slot bad-metrics channel in every cycle, dominated the run
// time. C11_BARRIER=snapshot switches back to harn.AggRest's round-trip.)
// harn.AggRest itself is used at the end of every history.
// The wait is bounded: it gives up when the number of lines the catch-all
// route has seen explodes (a ping-pong between table and aggregator never
// leaves the inbox empty for long).
func (w *worker) rest(a *aggregator.Aggregator, maxLines int) bool {
	for spins := 0; a.VerifInLen() > 0; spins++ {
		runtime.Gosched()
		if spins&1023 == 1023 && w.caps[0].count() > maxLines {
			return false
		}
	}
	if tickBarrier {
		for _, la := range w.aggs {
			if la.a == a {
				la.tick <- w.now()
			}
		}
		return true
	}
	a.Snapshot()
	return true
}

var tickBarrier = os.Getenv("C11_BARRIER") != "snapshot"

func (w *worker) restAll(maxLines int) bool {
	for _, a := range w.aggs {
		if !w.rest(a.a, maxLines) {
			return false
		}
	}
	return true
}

func (w *worker) sentinels() {
	in := w.t.GetIn()
	in <- sentinel1
	in <- sentinel2
	w.sentSent += 2
}

// settle brings the composition table -> aggregators -> table to rest after
// one operation. out0 is the sum of the aggregators' out-counters before the
// operation. It returns a non-empty description when the composition does not
// come to rest within the bounds (routing loop).
//
//  1. every aggregator at rest: it has processed the points it was handed and,
//     after a tick, finished its flush, i.e. the table's aggregate goroutine has
//     accepted every line (its out-counter is final);
//  2. two sentinels: the aggregate goroutine has dispatched all of them;
//  3. if any aggregator emitted anything in this operation, the aggregate
//     goroutine may (wrongly) have fed aggregators: every aggregator at rest
//     again, and if an in-counter moved meanwhile, another round.
//
// When no aggregator emitted anything (3) is void: only sentinels went through
// Table.In.
func (w *worker) settle(expLines int, out0 int64) string {
	maxLines := 4*expLines + 16 + 2*maxRounds*3
	explosion := func() string {
		return fmt.Sprintf("the catch-all route has been handed more than %d lines (%d) while the reference emits %d aggregate lines for this operation", maxLines, w.caps[0].count(), expLines)
	}
	for round := 1; ; round++ {
		if !w.restAll(maxLines) {
			return explosion()
		}
		before := w.inSum()
		w.sentinels()
		atomic.AddInt64(&w.progress, 1)
		w.res.Barriers++
		if w.outSum() == out0 {
			return ""
		}
		if !w.restAll(maxLines) {
			return explosion()
		}
		if w.inSum() == before {
			return ""
		}
		if round >= maxRounds {
			return fmt.Sprintf("aggregators were still being fed by the table's aggregate goroutine after %d barrier rounds", maxRounds)
		}
		if w.caps[0].count() > maxLines {
			return explosion()
		}
	}
}

// ---------------------------------------------------------------------------
// one table

type stepObs struct {
	in, invalid, black, unr, tooOld int64
}

func (w *worker) counters() stepObs {
	return stepObs{w.cIn.Count(), w.cInvalid.Count(), w.cBlack.Count(), w.cUnr.Count(), w.cTooOld.Count()}
}

func eq(a, b []string) bool {
	if len(a) != len(b) {
		return false
	}
	for i := range a {
		if a[i] != b[i] {
			return false
		}
	}
	return true
}

// describe re-runs the reference over the first n operations of a history that
// started with the clock at `clock` and renders what it demands per step.
func describe(spec tspec, pipe *ref.Pipe, st []byte, n int, clock int64) []string {
	state := pipe.NewState()
	var out []string
	val := int64(1)
	for k := 0; k < n; k++ {
		op := byte(opTick)
		if k < len(st) {
			op = st[k]
		}
		if op == opTick {
			clock += tickStep
			exp := pipe.Tick(state, clock)
			out = append(out, fmt.Sprintf("tick@%d -> %v", clock, exp.Lines))
			continue
		}
		exp := pipePoint(pipe, state, op, val, clock)
		out = append(out, fmt.Sprintf("%s %d %d -> blacklisted=%v taken_by=%v consumed=%v routes=%v", opName(op), val, opTs(op, clock), exp.Blacklisted, taken(spec, exp.AggSeen), exp.Consumed, exp.Accepted))
		val *= 2
	}
	return out
}

// runTable executes the streams [0, upto) on a freshly installed table and
// compares every step with the reference. It returns false after the first
// violation (the table is then abandoned).
func (w *worker) runTable(ti int, spec tspec, sts [][]byte, points int, upto int, sample bool) bool {
	pipe := w.install(spec)
	tbl := spec.String()
	states := map[uint64]struct{}{}
	ok := true
	var startClock int64
	expIn := make([]int64, len(w.keys))
	expOut := make([]int64, len(w.keys))
	reOnly := make([]ref.Filter, len(pipe.Table.Aggs))
	pre := make([]ref.Filter, len(pipe.Table.Aggs))
	for i, a := range pipe.Table.Aggs {
		reOnly[i] = ref.Filter{Regex: a.Filter.Regex}
		pre[i] = ref.Filter{Prefix: a.Filter.Prefix, NotPrefix: a.Filter.NotPrefix, Sub: a.Filter.Sub, NotSub: a.Filter.NotSub}
	}

	histLabels := map[string]bool{}
	tableLabels := map[string]bool{} // kinds of problems already reported for this table
	fail := func(si int, step int, kind string, problems []string) {
		ok = false
		st := sts[si]
		what := fmt.Sprintf("table %s (routes: %s): history [%s]: first deviation at step %d (%s): %s", tbl, routesString(), streamString(st), step+1, kind, strings.Join(problems, " | "))
		if len(what) > 1600 {
			what = what[:1600] + " ... (complete list in the replay file)"
		}
		sig := fmt.Sprintf("table %s history %s step %d %s", tbl, streamString(st), step+1, kind)
		w.resMu.Lock()
		var labels []string
		for l := range histLabels {
			labels = append(labels, l)
		}
		sort.Strings(labels)
		w.res.Violations = append(w.res.Violations, violation{Table: ti, Stream: si, Sig: sig, What: what, Labels: labels, Replay: map[string]interface{}{
			"table": spec, "points": points, "stream_index": si, "history": streamString(st), "first_deviation_at_step": step + 1, "reference_per_step": describe(spec, pipe, st, fullLen(st), startClock), "problems": problems,
			"note": "replay re-runs the histories 0..stream_index of this table in enumeration order on fresh aggregators (cache contents and clock are carried from history to history, as in the run)",
		}})
		w.resMu.Unlock()
	}

	// problems of the current history, per step; the history is reported once, at its end
	firstBad, firstKind := -1, ""
	var histProblems []string
	reported := 0
	noteBad := func(k int, kind string, problems []string) {
		if firstBad < 0 {
			firstBad, firstKind = k, kind
		} else if (kind == "ROUTING LOOP" || strings.HasSuffix(kind, "AMPLIFICATION")) && !strings.Contains(firstKind, kind) {
			firstKind += ", later " + kind
		}
		for _, p := range problems {
			histLabels[p[:strings.IndexByte(p, ':')]] = true
		}
		if len(histProblems) < 12 {
			histProblems = append(histProblems, fmt.Sprintf("step %d (%s): %s", k+1, kind, strings.Join(problems, "; ")))
		}
	}

	// step executes one operation (op == opTick: tick) and checks it.
	step := func(si, k int, op byte, val int64, state *ref.PipeState) bool {
		for ki, kc := range w.keys {
			kc.in0, kc.out0 = kc.in.Count(), kc.out.Count()
			expIn[ki], expOut[ki] = 0, 0
		}
		out0 := w.outSum()
		c0 := w.counters()
		var problems []string
		var loop string
		var tickExp ref.PipeTick
		var pointExp ref.PipePoint
		var expTableIn, expBlack int64
		expLines := 0

		if op == opTick {
			clock := atomic.AddInt64(&w.clock, tickStep)
			tickExp = pipe.Tick(state, clock)
			expLines = tickExp.Total
			for ki, kc := range w.keys {
				for _, m := range kc.members {
					expOut[ki] += int64(len(tickExp.Lines[m]))
				}
			}
			w.res.AggLines += int64(tickExp.Total)
			tm := time.Unix(clock, 0)
			for _, a := range w.aggs {
				a.tick <- tm
			}
			loop = w.settle(expLines, out0)
		} else {
			ts := opTs(op, atomic.LoadInt64(&w.clock))
			name := opName(op)
			pointExp = pipePoint(pipe, state, op, val, atomic.LoadInt64(&w.clock))
			exp := &pointExp
			line := name + " " + strconv.FormatInt(val, 10) + " " + strconv.FormatInt(ts, 10)
			expTableIn = 1
			expBlack = int64(exp.Blacklist)
			for ki, kc := range w.keys {
				for _, m := range kc.members {
					if exp.AggSeen[m] {
						expIn[ki]++
					}
				}
			}
			if exp.Blacklisted {
				w.res.Blacklisted++
			} else {
				if exp.Consumed {
					w.res.Consumed++
				}
				// near miss: a drop-raw aggregation that is offered the metric, whose regex alone or
				// whose cheap conditions accept it, but whose complete filter does not
				for i, a := range pipe.Table.Aggs {
					if !a.DropRaw {
						continue
					}
					if exp.AggSeen[i] {
						break // consumed here: the later aggregations are not offered the metric
					}
					if fmatch(reOnly[i], exp.Name) || (pre[i] != (ref.Filter{}) && fmatch(pre[i], exp.Name)) {
						w.res.NearMiss++
						break
					}
				}
			}
			w.t.Dispatch([]byte(line))
			loop = w.settle(0, out0)
		}
		w.res.Ops++

		if loop != "" {
			noteBad(k, "ROUTING LOOP", []string{"loop: " + loop})
			return false
		}
		// observations
		c1 := w.counters()
		if d := c1.in - c0.in; d != expTableIn {
			problems = append(problems, fmt.Sprintf("table-in: the table's unit=Metric.direction=in counter moved by %d, expected %d (aggregate lines and sentinels are not input)", d, expTableIn))
		}
		if d := c1.invalid - c0.invalid; d != 0 {
			problems = append(problems, fmt.Sprintf("validated: %d line(s) rejected by validation, expected none (raw names are valid, aggregate output is not validated)", d))
		}
		if d := c1.black - c0.black; d != expBlack {
			problems = append(problems, fmt.Sprintf("blacklisted: blacklist counter moved by %d, expected %d", d, expBlack))
		}
		if d := c1.unr - c0.unr; d != 0 {
			problems = append(problems, fmt.Sprintf("unroutable: unroutable counter moved by %d although a catch-all route exists", d))
		}
		expTooOld := int64(0)
		if op == opStale && !pointExp.Blacklisted {
			for _, took := range pointExp.AggSeen {
				if took {
					expTooOld++
				}
			}
		}
		if d := c1.tooOld - c0.tooOld; d != expTooOld {
			problems = append(problems, fmt.Sprintf("too-old: the TooOld counter moved by %d, expected %d (one per aggregation that takes a point older than every open bucket; raw points with the current time and re-entering aggregate lines never are)", d, expTooOld))
		}
		for ki, kc := range w.keys {
			if d := kc.in.Count() - kc.in0; d != expIn[ki] {
				problems = append(problems, fmt.Sprintf("aggregation-input: aggregation(s) %s (counter key %s) took %d point(s), expected %d (raw points accepted by the complete filter only)", memberNames(spec, kc.members), kc.key, d, expIn[ki]))
			}
			if d := kc.out.Count() - kc.out0; d != expOut[ki] {
				problems = append(problems, fmt.Sprintf("aggregation-output: aggregation(s) %s (counter key %s) emitted %d line(s), expected %d", memberNames(spec, kc.members), kc.key, d, expOut[ki]))
			}
		}
		total := 0
		for ri, c := range w.caps {
			got, sent := c.take()
			key := routeSpecs[ri].Key
			if ri == len(w.caps)-1 {
				w.sentSeen += sent
			}
			if ri == 0 {
				total = len(got)
			}
			var want []string
			if op == opTick {
				want = tickExp.Routes[key]
			} else if n := pointExp.Deliveries[ref.Delivery{Route: key, Dest: ref.DestOfRoute}]; n == 1 {
				if len(got) == 1 && got[0] == pointExp.Line {
					continue
				}
				want = []string{pointExp.Line}
			} else if n != 0 {
				panic("reference: capture route handed a metric more than once")
			}
			if !eq(got, want) {
				problems = append(problems, fmt.Sprintf("%s: route %s{%s} was handed %q, expected %q", routeLabel(op), key, routeSpecs[ri].Filter, got, want))
			}
		}
		if w.sentSeen < w.sentSent-1 {
			problems = append(problems, fmt.Sprintf("sentinel-lost: the sentinel route has seen %d of %d sentinel lines sent through Table.In (a line sent to Table.In must reach every route matching its name)", w.sentSeen, w.sentSent))
		}
		if len(problems) > 0 {
			kind := "point"
			if op == opTick {
				kind = "tick"
				if total > 4*expLines && total > expLines+1 {
					kind = "tick AMPLIFICATION"
				}
			}
			noteBad(k, kind, problems)
			return true // the rest of the history is still executed: what follows a first deviation is often the more telling symptom
		}
		if firstBad < 0 {
			states[state.Hash(atomic.LoadInt64(&w.clock))] = struct{}{}
		}
		return true
	}

	abandon := false
	for si := 0; si < upto && !abandon; si++ {
		st := sts[si]
		firstBad, firstKind, histProblems = -1, "", nil
		for l := range histLabels {
			delete(histLabels, l)
		}
		if si&15 == 0 {
			w.where.Store(tbl + " / history " + strconv.Itoa(si) + "..")
			if !w.deadline.IsZero() && ok && time.Now().After(w.deadline) {
				// out of time in the middle of a table: the table does not count as covered
				w.res.Cut = "internal deadline"
				ok = false
				break
			}
		}
		state := pipe.NewState()
		startClock = atomic.LoadInt64(&w.clock)
		val := int64(1)
		aggBefore := w.res.AggLines
		nsteps := len(st)
		looped := false
		for k, op := range st {
			if !step(si, k, op, val, state) {
				looped = true
				break
			}
			if op != opTick {
				val *= 2
			}
		}
		if !looped && st[len(st)-1] != opTick {
			// closing tick: leaves every aggregator empty for the next history
			step(si, len(st), opTick, 0, state)
			nsteps++
		}
		if !looped && firstBad < 0 {
			// end of the history: harn.AggRest on every aggregator (the flushes of the ticks that
			// served as barriers are over as well), sentinels; nothing may have happened since the
			// last checked step
			in0, out0, c0 := w.inSum(), w.outSum(), w.counters()
			for _, a := range w.aggs {
				harn.AggRest(a.a)
			}
			w.sentinels()
			atomic.AddInt64(&w.progress, 1)
			var late []string
			if w.inSum() != in0 || w.outSum() != out0 || w.counters() != c0 {
				late = append(late, fmt.Sprintf("late-activity: counters moved after the last operation had come to rest (aggregator in %+d, out %+d; table %+v -> %+v)", w.inSum()-in0, w.outSum()-out0, c0, w.counters()))
			}
			for ri, c := range w.caps {
				got, sent := c.take()
				if ri == len(w.caps)-1 {
					w.sentSeen += sent
				}
				if len(got) > 0 {
					late = append(late, fmt.Sprintf("late-output: route %s was handed %q after the last operation had come to rest", routeSpecs[ri].Key, got))
				}
			}
			if len(late) > 0 {
				noteBad(nsteps-1, "end of history", late)
			}
		}
		if firstBad >= 0 {
			// a failing history is reported when it shows a kind of problem not yet reported for this
			// table; the table is run on (at most 4 reports) because later histories often show the more
			// telling symptom, but it is abandoned at once when the composition does not come to rest
			ok = false
			fresh := false
			for l := range histLabels {
				if !tableLabels[l] {
					tableLabels[l] = true
					fresh = true
				}
			}
			if fresh {
				fail(si, firstBad, firstKind, histProblems)
				reported++
			}
			if looped || reported >= 4 || w.res.Infra != "" {
				abandon = true
			}
			continue
		}
		if !state.Empty() {
			w.res.Infra = "harness: reference state not empty after the closing tick"
			ok, abandon = false, true
		}
		if ok {
			w.res.Traces++
			if w.res.AggLines > aggBefore {
				w.res.Nontrivial++
			}
			if w.verbose != nil {
				fmt.Fprintf(w.verbose, "history %d [%s]\n", si, streamString(st))
				for i, d := range describe(spec, pipe, st, nsteps, startClock) {
					fmt.Fprintf(w.verbose, "   %d. %s\n", i+1, d)
				}
			}
			if sample && (si == upto/3 || si == upto-1) && len(w.res.Samples) < 8 {
				w.res.Samples = append(w.res.Samples, map[string]interface{}{"table": tbl, "history": streamString(st), "steps_checked": describe(spec, pipe, st, nsteps, startClock)})
			}
		}
	}
	// tear down: the aggregators are shut down (which flushes what is due: nothing)
	w.where.Store(tbl + " / teardown")
	w.uninstall()
	if ok {
		w.sentinels()
		atomic.AddInt64(&w.progress, 1)
		for ri, c := range w.caps {
			got, sent := c.take()
			if ri == len(w.caps)-1 {
				w.sentSeen += sent
			}
			if len(got) > 0 {
				histLabels = map[string]bool{"shutdown-output": true}
				fail(upto-1, len(sts[upto-1]), "shutdown", []string{fmt.Sprintf("shutdown-output: route %s was handed %q when the (empty) aggregators were shut down", routeSpecs[ri].Key, got)})
				break
			}
		}
	} else {
		w.sentinels()
		for _, c := range w.caps {
			c.take()
		}
		w.sentSeen, w.sentSent = 0, 0
	}
	w.res.States += int64(len(states))
	return ok
}

var fcache = map[ref.Filter]*ref.Compiled{}

func fmatch(f ref.Filter, name string) bool {
	c := fcache[f]
	if c == nil {
		var err error
		if c, err = f.Compile(); err != nil {
			panic(err)
		}
		fcache[f] = c
	}
	return c.Match([]byte(name))
}

// fullLen is the number of operations of a history including the closing tick.
func fullLen(st []byte) int {
	if st[len(st)-1] != opTick {
		return len(st) + 1
	}
	return len(st)
}

func routeLabel(op byte) string {
	if op == opTick {
		return "aggregate-routing"
	}
	return "raw-routing"
}

func routesString() string {
	var parts []string
	for _, r := range routeSpecs {
		parts = append(parts, r.Key+"{"+r.Filter.String()+"}")
	}
	return strings.Join(parts, " ")
}

func taken(spec tspec, seen []bool) []string {
	out := []string{}
	for i, s := range seen {
		if s {
			out = append(out, fmt.Sprintf("%d:%s", i, shapes[spec.Aggs[i].Shape].Name))
		}
	}
	return out
}

func memberNames(spec tspec, members []int) string {
	var out []string
	for _, m := range members {
		out = append(out, fmt.Sprintf("%d:%s", m, shapes[spec.Aggs[m].Shape].Name))
	}
	return strings.Join(out, ",")
}

// ---------------------------------------------------------------------------
// worker process

const stuckAfter = 20 // seconds without a completed barrier round

func quietStdout() *os.File {
	orig := os.Stdout
	if dn, err := os.OpenFile(os.DevNull, os.O_WRONLY, 0); err == nil {
		os.Stdout = dn // Table.DelAggregator prints
	}
	return orig
}

// watchdog calls stuck (which must not return) when no barrier round has
// completed for stuckAfter seconds.
func (w *worker) watchdog(stuck func(at string)) {
	go func() {
		last, same := int64(-1), 0
		for {
			time.Sleep(time.Second)
			p := atomic.LoadInt64(&w.progress)
			if p != last {
				last, same = p, 0
				continue
			}
			same++
			if same >= stuckAfter {
				stuck(w.where.Load().(string))
			}
		}
	}()
}

func workerMain(spec string) {
	out := quietStdout()
	parts := strings.Split(spec, "/")
	wi, _ := strconv.Atoi(parts[0])
	nw, _ := strconv.Atoi(parts[1])
	thorough := parts[2] == "thorough"
	dl, _ := strconv.ParseInt(parts[3], 10, 64)
	deadline := time.Unix(0, dl)
	log.SetLevel(log.PanicLevel)
	log.SetOutput(io.Discard)
	aggregator.InitMetrics()
	start := time.Now()
	// measured: a larger heap (GOGC 400, 1000) costs more in page faults on this machine than it saves in GC cycles
	if v, err := strconv.Atoi(os.Getenv("C11_GOGC")); err == nil {
		debug.SetGCPercent(v)
	}
	w := newWorker()
	w.res.Worker = wi
	w.deadline = deadline
	if pf := os.Getenv("C11_CPUPROFILE"); pf != "" {
		f, _ := os.Create(pf)
		pprof.StartCPUProfile(f)
		defer pprof.StopCPUProfile()
	}

	emit := func() {
		w.resMu.Lock()
		w.res.Seconds = time.Since(start).Seconds()
		b, _ := json.Marshal(&w.res)
		w.resMu.Unlock()
		bw := bufio.NewWriter(out)
		bw.Write(b)
		bw.WriteByte('\n')
		bw.Flush()
	}
	// watchdog: a hard deadlock of table <-> aggregator is a violation, not a hang
	w.watchdog(func(at string) {
		w.resMu.Lock()
		w.res.Violations = append(w.res.Violations, violation{Table: -1, Stream: -1, Sig: "stuck " + at, What: fmt.Sprintf("ROUTING LOOP / DEADLOCK: no barrier completed for %d s at %s: the composition table -> aggregator -> table does not come to rest", stuckAfter, at), Replay: map[string]interface{}{"at": at}, Labels: []string{"stuck"}})
		w.res.Cut = "stuck"
		w.resMu.Unlock()
		emit()
		os.Exit(0)
	})

	badTables := 0
	gi := 0
	for _, pl := range plans(thorough) {
		sts := streams(pl.Points, pl.Ticks)
		for _, spec := range pl.Tables {
			idx := gi
			gi++
			if idx%nw != wi {
				continue
			}
			w.res.Assigned++
			if w.res.Cut != "" {
				continue
			}
			if time.Now().After(deadline) {
				w.res.Cut = "internal deadline"
				continue
			}
			sample := wi == 0 && (w.res.Assigned == 1 || w.res.Assigned%97 == 0)
			if w.runTable(idx, spec, sts, pl.Points, len(sts), sample) {
				w.res.Tables++
			} else {
				badTables++
				if badTables >= 3 || w.res.Infra != "" {
					w.res.Cut = "violations"
				}
			}
		}
	}
	pprof.StopCPUProfile()
	if pf := os.Getenv("C11_MEMPROFILE"); pf != "" {
		f, _ := os.Create(pf)
		pprof.Lookup("allocs").WriteTo(f, 0)
		f.Close()
	}
	emit()
	os.Exit(0)
}

// ---------------------------------------------------------------------------
// replay (in-process)

func replay(rep *kit.Reporter) {
	var r struct {
		Table  tspec `json:"table"`
		Points int   `json:"points"`
		Index  int   `json:"stream_index"`
	}
	if err := kit.LoadReplay(rep.ReplayOnly, &r); err != nil || len(r.Table.Aggs) == 0 {
		fmt.Fprintf(rep.Out, "INFRA-ERROR property=C11 cannot load replay %s: %v\n", rep.ReplayOnly, err)
		os.Exit(2)
	}
	aggregator.InitMetrics()
	w := newWorker()
	sts := streams(r.Points, 2)
	if r.Index < 0 || r.Index >= len(sts) {
		r.Index = len(sts) - 1
	}
	// the earlier histories run silently, the recorded one is printed (same objects, same clock as in the run)
	fmt.Fprintf(rep.Out, "replay: table %s, histories 0..%d of %d (<= %d points, <= 2 ticks)\n", r.Table, r.Index, len(sts), r.Points)
	w.watchdog(func(at string) {
		fmt.Fprintf(rep.Out, "VIOLATION property=C11 replay=%s\n  ROUTING LOOP / DEADLOCK: no barrier completed for %d s at %s\n", rep.ReplayOnly, stuckAfter, at)
		os.Exit(1)
	})
	okAll := w.runTableVerboseLast(r.Table, sts, r.Points, r.Index+1, rep.Out)
	for _, v := range w.res.Violations {
		fmt.Fprintf(rep.Out, "VIOLATION property=C11 replay=%s\n  %s\n", rep.ReplayOnly, v.What)
	}
	if !okAll || len(w.res.Violations) > 0 {
		os.Exit(1)
	}
	fmt.Fprintf(rep.Out, "replay: observed exactly the reference outcome at every step\nOK property=C11 replay\n")
	os.Exit(0)
}

// runTableVerboseLast runs the histories [0, upto) and prints the steps of the last one.
func (w *worker) runTableVerboseLast(spec tspec, sts [][]byte, points, upto int, out io.Writer) bool {
	w.verbose = &lastOnly{out: out, marker: fmt.Sprintf("history %d ", upto-1)}
	ok := w.runTable(0, spec, sts, points, upto, false)
	w.verbose.(*lastOnly).flush()
	return ok
}

// lastOnly prints only the block that starts with the marker line.
type lastOnly struct {
	out    io.Writer
	marker string
	on     bool
}

func (l *lastOnly) Write(p []byte) (int, error) {
	s := string(p)
	if strings.HasPrefix(s, "history ") {
		l.on = strings.HasPrefix(s, l.marker)
	}
	if l.on {
		l.out.Write(p)
	}
	return len(p), nil
}
func (l *lastOnly) flush() {}

// ---------------------------------------------------------------------------
// master

func main() {
	if spec := os.Getenv("C11_WORKER"); spec != "" {
		workerMain(spec)
		return
	}
	rep := kit.New("C11", "model_checking")
	log.SetLevel(log.PanicLevel)
	log.SetOutput(io.Discard)
	rep.Quiet()
	if rep.ReplayOnly != "" {
		replay(rep)
	}
	deadline := rep.Deadline(42*time.Second, 13*time.Minute)
	nw := runtime.NumCPU()
	if v, err := strconv.Atoi(os.Getenv("C11_WORKERS")); err == nil && v > 0 {
		nw = v
	}
	self, err := os.Executable()
	if err != nil {
		rep.Infra = "os.Executable: " + err.Error()
		rep.Finish(map[string]interface{}{})
	}
	results := make([]result, nw)
	errs := make([]string, nw)
	var wg sync.WaitGroup
	for i := 0; i < nw; i++ {
		wg.Add(1)
		go func(i int) {
			defer wg.Done()
			cmd := exec.Command(self)
			cmd.Env = append(os.Environ(), fmt.Sprintf("C11_WORKER=%d/%d/%s/%d", i, nw, rep.Tier, deadline.UnixNano()), "GOMAXPROCS="+envOr("C11_GOMAXPROCS", "1"))
			var stderr strings.Builder
			cmd.Stderr = &stderr
			outp, err := cmd.Output()
			if err != nil {
				errs[i] = fmt.Sprintf("worker %d: %v: %s", i, err, tail(stderr.String(), 1500))
				return
			}
			if err := json.Unmarshal(lastLine(outp), &results[i]); err != nil {
				errs[i] = fmt.Sprintf("worker %d: bad result: %v: %s", i, err, tail(string(outp)+stderr.String(), 1500))
			}
		}(i)
	}
	wg.Wait()

	pls := plans(rep.Thorough())
	var total result
	var viols []violation
	var cuts []string
	totalTables := 0
	for _, p := range pls {
		totalTables += len(p.Tables)
	}
	for i, r := range results {
		if errs[i] != "" {
			// a crashed worker (panic in the code under test, e.g. a nil matcher) is a finding of its own
			viols = append(viols, violation{Table: -1, Stream: -1, Sig: "worker crashed", What: "a worker process died: " + errs[i], Replay: map[string]interface{}{"stderr": errs[i]}, Labels: []string{"crash"}})
			cuts = append(cuts, "worker crashed")
			continue
		}
		if r.Infra != "" {
			rep.Infra = r.Infra
		}
		total.Tables += r.Tables
		total.Assigned += r.Assigned
		total.Traces += r.Traces
		total.Ops += r.Ops
		total.States += r.States
		total.Nontrivial += r.Nontrivial
		total.AggLines += r.AggLines
		total.Consumed += r.Consumed
		total.NearMiss += r.NearMiss
		total.Blacklisted += r.Blacklisted
		total.Barriers += r.Barriers
		if r.Seconds > total.Seconds {
			total.Seconds = r.Seconds
		}
		total.Samples = append(total.Samples, r.Samples...)
		viols = append(viols, r.Violations...)
		if r.Cut != "" {
			cuts = append(cuts, r.Cut)
		}
	}
	sort.SliceStable(viols, func(i, j int) bool {
		a, b := viols[i], viols[j]
		if (a.Table < 0) != (b.Table < 0) {
			return a.Table >= 0
		}
		if a.Table != b.Table {
			return a.Table < b.Table
		}
		return a.Stream < b.Stream
	})
	// report at most 8: first those that show a kind of problem not shown yet, then in order
	seenLabel := map[string]bool{}
	var pick, restV []violation
	for _, v := range viols {
		fresh := false
		for _, l := range v.Labels {
			if !seenLabel[l] {
				seenLabel[l] = true
				fresh = true
			}
		}
		if fresh {
			pick = append(pick, v)
		} else {
			restV = append(restV, v)
		}
	}
	pick = append(pick, restV...)
	for i, v := range pick {
		if i >= 8 {
			break
		}
		rep.Violation(v.Sig, v.What, v.Replay)
	}
	exhaustive := len(cuts) == 0 && int(total.Tables) == totalTables
	var planDesc []string
	for _, p := range pls {
		planDesc = append(planDesc, fmt.Sprintf("%d tables (%s) x %d maximal histories (exactly %d points over %v and %d ticks in every interleaving; every history with fewer points or ticks is a prefix of one of them and is checked at that prefix)", len(p.Tables), p.Comment, len(streams(p.Points, p.Ticks)), p.Points, names, p.Ticks))
	}
	var shapeDesc []string
	for _, s := range shapes {
		d := "keep"
		if s.Drop {
			d = "drop-raw"
		}
		shapeDesc = append(shapeDesc, fmt.Sprintf("%s: %s %s {%s} -> %s (%s)", s.Name, s.Fun, d, s.F, s.Format, s.Why))
	}
	rep.Assume = []string{
		"tables: every ordered list of 1..3 aggregations (repetition allowed) from " + strings.Join(shapeDesc, " | ") + fmt.Sprintf("; interval %d s, wait %d s; extras: blacklist {prefix=agg} and rewriter agg>xxx (both would match aggregate names); validation strict (the output names agg.n!* are invalid under it)", interval, wait),
		"plans: " + strings.Join(planDesc, "; "),
		"fixed capture routes " + routesString() + " on one real table.Table per worker process; aggregators are real, built by aggregator.NewMocked with out = table.GetIn() (the relay's wiring), inbox 2000, an injected clock, one tick channel each",
		fmt.Sprintf("time: the i-th point of a history has value 2^i and the current clock as timestamp; every tick advances the clock by %d s (>= interval + wait) and therefore closes every open bucket; the clock only moves forward, also from history to history; the aggregators and their match caches live for all histories of one table (a closing tick empties them between histories), fresh ones per table", tickStep),
		"barrier after every operation: all aggregators at rest (inbox empty + a synchronous round-trip through the single-threaded run loop: a tick carrying the unchanged clock, which closes nothing; harn.AggRest with its Snapshot round-trip at the end of every history, after which nothing may have moved), two sentinel lines through the unbuffered Table.In, and, if any aggregator emitted anything in the operation, all aggregators at rest again; repeated (cap " + strconv.Itoa(maxRounds) + " rounds) while an aggregator's in-counter moved during the round; more than 4x the reference's lines + 52 at the catch-all route, the round cap, or " + strconv.Itoa(stuckAfter) + " s without a completed barrier are reported as a routing loop",
		"order of the aggregate lines of one tick is left free (map iteration, concurrent aggregators): per operation and route the captured lines are compared as a multiset",
		"only sum and count over small integer values are used, so expected values are exact integers printed with six decimals; the format templates end in $N (digits-only reading of the template)",
	}
	if len(cuts) > 0 {
		rep.Assume = append(rep.Assume, fmt.Sprintf("stopped early (%s): %d of %d tables covered completely", strings.Join(uniq(cuts), ", "), total.Tables, totalTables))
	}
	if len(total.Samples) > 8 {
		total.Samples = total.Samples[:8]
	}
	if len(total.Samples) == 0 {
		total.Samples = []interface{}{"no table completed"}
	}
	rep.Finish(map[string]interface{}{
		"states":                          max64(total.States, 1),
		"transitions":                     max64(total.Ops, 1),
		"traces_validated_against_impl":   total.Traces,
		"samples":                         total.Samples,
		"exhaustive":                      exhaustive,
		"tables":                          total.Tables,
		"tables_in_space":                 totalTables,
		"barrier_rounds":                  total.Barriers,
		"aggregate_lines_checked":         total.AggLines,
		"raw_points_withheld_by_drop_raw": total.Consumed,
		"raw_points_near_miss_of_a_drop_raw_filter": total.NearMiss,
		"raw_points_blacklisted":                    total.Blacklisted,
		"evaluations":                               total.Traces,
		"distinct_nontrivial":                       total.Nontrivial,
		"rule":                                      "one evaluation = one maximal history executed on a real table with real aggregators and compared with the reference pipeline after every operation; all (table, history) pairs are distinct by construction; non-trivial = the reference demands at least one aggregate line in it. states = distinct (table, reference state) pairs reached (reference state = open buckets with their accumulated values, relative to the clock); transitions = operations executed (points, ticks, closing ticks)",
		"workers":                                   nw,
		"slowest_worker_s":                          total.Seconds,
	})
}

func envOr(k, d string) string {
	if v := os.Getenv(k); v != "" {
		return v
	}
	return d
}

func max64(a, b int64) int64 {
	if a > b {
		return a
	}
	return b
}

func uniq(in []string) []string {
	seen := map[string]bool{}
	var out []string
	for _, s := range in {
		if !seen[s] {
			seen[s] = true
			out = append(out, s)
		}
	}
	return out
}

func tail(s string, n int) string {
	if len(s) > n {
		return s[len(s)-n:]
	}
	return s
}

func lastLine(b []byte) []byte {
	s := strings.TrimRight(string(b), "\n")
	if i := strings.LastIndexByte(s, '\n'); i >= 0 {
		s = s[i+1:]
	}
	return []byte(s)
}
