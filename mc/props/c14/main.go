// C14: nothing received from the network or the admin port can crash the relay.
//
// Part I (inputs, free-running, no scheduler needed: the handlers are
// synchronous): every pickle payload made of an accepted protocol prefix plus
// every continuation of <= 2 (quick) / 3 (thorough) bytes over the full byte
// alphabet, under boundary length words; every plain-text / UDP stream of <= 3
// tokens over an alphabet of separators, NUL, 8-bit bytes and a 64 KiB run;
// AMQP bodies in a child process (its consumer goroutine cannot be guarded by
// recover()). Oracle: no panic, no exit.
//
// Part II (commands and configurations, under the controlled scheduler so
// that a panic in ANY goroutine of the instrumented relay packages is caught
// with its stack): admin commands generated from the grammar of
// imperatives.Apply with boundary values for every numeric option, TOML
// sections for the same parameters through cfg.InitTable, followed by
// follow-up admin operations (deleting destinations down to none, modifying
// with out-of-range indices), metric traffic, and virtual time advancing
// through more than two periods of every timer the accepted configuration
// started.
package main

import (
	"bytes"
	"encoding/binary"
	"encoding/hex"
	"fmt"
	"io"
	"io/ioutil"
	stdlog "log"
	"math/rand"
	"os"
	"os/exec"
	"path/filepath"
	"runtime"
	"runtime/debug"
	"strings"
	"sync"
	"time"

	"github.com/BurntSushi/toml"
	"github.com/grafana/carbon-relay-ng/aggregator"
	"github.com/grafana/carbon-relay-ng/cfg"
	"github.com/grafana/carbon-relay-ng/imperatives"
	"github.com/grafana/carbon-relay-ng/input"
	"github.com/grafana/carbon-relay-ng/matcher"
	"github.com/grafana/carbon-relay-ng/table"
	"github.com/grafana/carbon-relay-ng/validate"
	m20 "github.com/metrics20/go-metrics20/carbon20"
	log "github.com/sirupsen/logrus"

	"verif/mc/destharn"
	"verif/mc/harn"
	"verif/mc/kit"
	"verif/mc/vrt"
	"verif/mc/vrt/vos"
)

var rep *kit.Reporter

// ---------------------------------------------------------------------------
// Part I: inputs

type nullDispatcher struct{ n, inv int64 }

func (d *nullDispatcher) Dispatch(buf []byte) { d.n++ }
func (d *nullDispatcher) IncNumInvalid()      { d.inv++ }

func panicSite(stack string) string {
	for _, l := range strings.Split(stack, "\n") {
		if (strings.HasPrefix(l, "github.com/grafana/carbon-relay-ng/") || strings.HasPrefix(l, "github.com/kisielk/og-rek")) && !strings.Contains(l, "verif") {
			if i := strings.LastIndex(l, "("); i > 0 {
				l = l[:i]
			}
			return l
		}
	}
	return "?"
}

func guard(what string, input []byte, f func()) {
	defer func() {
		if r := recover(); r != nil {
			st := string(debug.Stack())
			rep.Violation(fmt.Sprintf("input %s panic %.60s at %s", what, fmt.Sprint(r), panicSite(st)),
				fmt.Sprintf("%s handler panicked on input %x: %v", what, trunc(input), r),
				map[string]interface{}{"part": "inputs", "handler": what, "input_hex": hex.EncodeToString(trunc(input)), "panic": fmt.Sprint(r), "stack": st})
		}
	}()
	f()
}

func trunc(b []byte) []byte {
	if len(b) > 200 {
		return b[:200]
	}
	return b
}

type inputStats struct {
	mu    sync.Mutex
	cases int64
	nontr int64
}

var ist inputStats

func pickleInputs(contLen int) {
	prefixes := [][]byte{{']'}, {'(', 'l'}, {0x80, 2, ']'}, {0x80, 3, ']'}, {0x80, 4, 0x95}}
	var wg sync.WaitGroup
	nw := runtime.NumCPU()
	for _, pre := range prefixes {
		pre := pre
		total := 1
		for i := 0; i < contLen; i++ {
			total *= 256
		}
		for w := 0; w < nw; w++ {
			wg.Add(1)
			go func(w int) {
				defer wg.Done()
				var cases, nontr int64
				d := &nullDispatcher{}
				h := input.NewPickle(d)
				buf := make([]byte, 0, 16)
				for l := 0; l <= contLen; l++ {
					n := 1
					for i := 0; i < l; i++ {
						n *= 256
					}
					for x := w; x < n; x += nw {
						payload := append(buf[:0], pre...)
						v := x
						for i := 0; i < l; i++ {
							payload = append(payload, byte(v))
							v >>= 8
						}
						frame := make([]byte, 4, 4+len(payload))
						binary.BigEndian.PutUint32(frame, uint32(len(payload)))
						frame = append(frame, payload...)
						before := d.n + d.inv
						guard("pickle", frame, func() { h.Handle(bytes.NewReader(frame)) })
						cases++
						if d.n+d.inv != before {
							nontr++
						}
					}
				}
				ist.mu.Lock()
				ist.cases += cases
				ist.nontr += nontr
				ist.mu.Unlock()
			}(w)
		}
		_ = total
	}
	wg.Wait()
	// boundary length words around a real frame
	good := []byte{0x80, 2, ']', 'q', 0, '(', 'U', 3, 'a', '.', 'b', 'q', 1, 'K', 1, 'K', 2, 0x86, 'q', 2, 0x86, 'q', 3, 'a', '.'}
	d := &nullDispatcher{}
	h := input.NewPickle(d)
	for _, lw := range []uint32{0, 1, uint32(len(good) - 1), uint32(len(good)), uint32(len(good) + 1), 1 << 31, 1<<32 - 1, 500*1024*1024 + 1} {
		frame := make([]byte, 4)
		binary.BigEndian.PutUint32(frame, lw)
		frame = append(frame, good...)
		guard("pickle", frame, func() { h.Handle(bytes.NewReader(frame)) })
		ist.cases++
	}
}

func textStreams() [][]byte {
	long := bytes.Repeat([]byte{'x'}, 65536)
	toks := [][]byte{[]byte("a"), []byte(" "), []byte("\n"), []byte("\r"), {0}, {0xff}, []byte(";"), []byte("="), []byte("1"), []byte("a 1 2"), long}
	var out [][]byte
	var rec func(cur []byte, n int)
	rec = func(cur []byte, n int) {
		if n > 0 {
			out = append(out, append([]byte(nil), cur...))
		}
		if n == 3 {
			return
		}
		for _, t := range toks {
			rec(append(cur, t...), n+1)
		}
	}
	rec(nil, 0)
	return out
}

func plainInputs() {
	d := &nullDispatcher{}
	h := input.NewPlain(d)
	for _, s := range textStreams() {
		before := d.n
		guard("plain", s, func() { h.Handle(bytes.NewReader(s)) })
		// UDP: the listener hands each datagram to the same handler as its own stream
		if len(s) <= 65535 {
			guard("udp", s, func() { h.Handle(bytes.NewReader(s)) })
		}
		ist.cases += 2
		if d.n != before {
			ist.nontr++
		}
	}
}

// amqpChild runs in a child process: the consumer goroutine is part of the
// code under test, a panic there cannot be recovered by the harness.
func amqpChild() {
	d := &nullDispatcher{}
	a, send := input.VerifC12NewAMQP(d)
	a.Start()
	giveUp := make(chan struct{})
	for _, s := range textStreams() {
		fmt.Printf("CASE %s\n", hex.EncodeToString(trunc(s)))
		send(s, giveUp)
	}
	send([]byte("sentinel 1 2"), giveUp)
	a.Stop()
	fmt.Printf("DONE %d\n", d.n)
	os.Exit(0)
}

func amqpInputs() {
	cmd := exec.Command(os.Args[0])
	cmd.Env = append(os.Environ(), "C14_CHILD=amqp")
	out, err := cmd.CombinedOutput()
	lines := strings.Split(string(out), "\n")
	last := ""
	done := false
	n := 0
	for _, l := range lines {
		if strings.HasPrefix(l, "CASE ") {
			last = l[5:]
			n++
		}
		if strings.HasPrefix(l, "DONE") {
			done = true
		}
	}
	ist.cases += int64(n)
	if err != nil || !done {
		rep.Violation("input amqp child died", fmt.Sprintf("the AMQP consumer process died (err %v) while handling body %s", err, last),
			map[string]interface{}{"part": "inputs", "handler": "amqp", "input_hex": last, "output_tail": tail(string(out), 3000)})
	}
}

func tail(s string, n int) string {
	if len(s) > n {
		return s[len(s)-n:]
	}
	return s
}

// ---------------------------------------------------------------------------
// Part III: free-running -race pass for what the serialising scheduler cannot see

// racePass builds mc/c14race with the race detector (same overlay / same tree) and runs it. A
// data race on a Go map, or the runtime's own "concurrent map" abort, is a crash the relay can
// suffer from plain concurrent traffic: reported as a violation. Other reported races are only
// counted (they are not crashes). If the race-enabled build is not possible here, the pass is
// reported as skipped.
func racePass() (info map[string]interface{}) {
	info = map[string]interface{}{}
	bin := filepath.Join(os.Getenv("VERIF_WORK"), "c14race")
	args := []string{"build", "-race"}
	if mf := os.Getenv("VERIF_MODFLAG"); mf != "" {
		args = append(args, mf)
	}
	if ov := os.Getenv("VERIF_OVERLAY"); ov != "" {
		// the overlay of this check carries instrumented sources: the race pass needs the plain tree
		// plus accessor files only, which is what an overlay without "Replace" of repo files gives.
		// Accessors are not needed by c14race, so no overlay is used at all.
		_ = ov
	}
	args = append(args, "-o", bin, "./c14race")
	cmd := exec.Command("go", args...)
	cmd.Dir = filepath.Join(kit.Root, "mc")
	cmd.Env = append(os.Environ(), "CGO_ENABLED=1", "GOFLAGS=-mod=mod", "GOPROXY=off", "GOSUMDB=off", "GOTOOLCHAIN=local")
	if out, err := cmd.CombinedOutput(); err != nil {
		info["race_pass"] = "skipped: race-enabled build failed: " + tail(string(out), 300)
		return
	}
	run := exec.Command(bin)
	run.Env = append(os.Environ(), "GORACE=halt_on_error=0 exitcode=0")
	out, err := run.CombinedOutput()
	text := string(out)
	reports := strings.Split(text, "WARNING: DATA RACE")
	nRace, nMap := 0, 0
	for _, r := range reports[1:] {
		nRace++
		if end := strings.Index(r, "=================="); end >= 0 {
			r = r[:end]
		}
		if strings.Contains(r, "runtime.map") {
			nMap++
			rep.Violation("race-pass map data race at "+panicSite(raceFrames(r)),
				"concurrent dispatchers access a Go map without synchronisation (the runtime aborts the process on concurrent map access): "+panicSite(raceFrames(r)),
				map[string]interface{}{"part": "race-pass", "report": tail(r, 3000)})
		}
	}
	if strings.Contains(text, "fatal error:") || (err != nil && !strings.Contains(text, "C14RACE-DONE")) {
		i := strings.Index(text, "fatal error:")
		msg := "the process died"
		if i >= 0 {
			msg = strings.SplitN(text[i:], "\n", 2)[0]
		}
		rep.Violation("race-pass crash "+msg, "the relay's dispatch path crashed under concurrent valid traffic: "+msg,
			map[string]interface{}{"part": "race-pass", "output_tail": tail(text, 3000)})
	}
	info["race_pass"] = fmt.Sprintf("8 concurrent dispatchers x 4000 lines + admin thread under the Go race detector: %d race reports, %d on maps", nRace, nMap)
	return
}

// raceFrames turns the indented frames of a race report into the shape panicSite expects.
func raceFrames(r string) string {
	var sb strings.Builder
	for _, l := range strings.Split(r, "\n") {
		l = strings.TrimSpace(l)
		if strings.HasPrefix(l, "github.com/grafana/carbon-relay-ng/") {
			sb.WriteString(l + "\n")
		}
	}
	return sb.String()
}

// ---------------------------------------------------------------------------
// Part II: commands and configurations under the scheduler

type caseT struct {
	kind  string   // "cmd" or "toml"
	setup []string // commands applied first (must succeed)
	cmds  []string // the commands / the toml document under test
	after []string // follow-up admin operations: "delDest <route> <idx>", "cmd <command>"
	// maxAge: the bad_metrics_max_age setting the table is created with ("" = "1h")
	maxAge string
}

func (c caseT) String() string {
	if c.maxAge != "" {
		return fmt.Sprintf("table with bad_metrics_max_age = %q, then %s %q", c.maxAge, c.kind, c.cmds)
	}
	if len(c.setup) > 0 {
		return fmt.Sprintf("%s %q after setup %q after=%q", c.kind, c.cmds, c.setup, c.after)
	}
	return fmt.Sprintf("%s %q after=%q", c.kind, c.cmds, c.after)
}

var nums = []string{"0", "1", "2147483648", "9223372036854775807"}

var tmpDir string

func genCases(thorough bool) []caseT {
	var out []caseT
	cmd := func(after []string, cmds ...string) { out = append(out, caseT{kind: "cmd", cmds: cmds, after: after}) }
	destOpts := []string{"flush", "reconn", "connbuf", "iobuf", "spoolbuf", "spoolmaxbytesperfile", "spoolsyncevery", "spoolsyncperiod", "spoolsleep", "unspoolsleep"}
	for _, typ := range []string{"sendAllMatch", "sendFirstMatch"} {
		for _, spool := range []string{"false", "true"} {
			cmd(nil, fmt.Sprintf("addRoute %s r1  10.0.0.1:2003 spool=%s", typ, spool))
			for _, o := range destOpts {
				for _, v := range nums {
					if (o == "connbuf" || o == "iobuf" || o == "spoolbuf") && len(v) > 1 {
						continue // buffer sizes of 2^31 and more only exhaust memory (resource exhaustion is not what C14 is about)
					}
					cmd(nil, fmt.Sprintf("addRoute %s r1  10.0.0.1:2003 spool=%s %s=%s", typ, spool, o, v))
				}
			}
			if thorough {
				for i, o := range destOpts {
					for _, p := range destOpts[i+1:] {
						for _, v := range []string{"0", "1"} {
							cmd(nil, fmt.Sprintf("addRoute %s r1  10.0.0.1:2003 spool=%s %s=%s %s=0", typ, spool, o, v, p))
						}
					}
				}
			}
		}
		cmd(nil, fmt.Sprintf("addRoute %s r1 regex=(  10.0.0.1:2003", typ))
		cmd(nil, fmt.Sprintf("addRoute %s r1  10.0.0.1:2003 regex=(", typ))
		cmd(nil, fmt.Sprintf("addRoute %s r1", typ))
		cmd(nil, fmt.Sprintf("addRoute %s r1  ", typ))
		cmd(nil, fmt.Sprintf("addRoute %s r1  10.0.0.1:2003 pickle=true", typ))
		cmd(nil, fmt.Sprintf("addRoute %s r1  10.0.0.1:2003 unknown=1", typ))
		// follow-up admin operations on an accepted route
		cmd([]string{"delDest r1 0", "delDest r1 0"}, fmt.Sprintf("addRoute %s r1  10.0.0.1:2003  10.0.0.2:2003", typ))
		cmd([]string{"delDest r1 5", "cmd modDest r1 5 prefix=x", "cmd modDest r1 0 regex=(", "cmd modDest r1 0 addr=10.0.0.9:2003", "cmd modRoute r1 regex=(", "cmd modRoute r1 prefix=a", "cmd delRoute r1", "cmd delRoute r1", "cmd modRoute r1 prefix=a"}, fmt.Sprintf("addRoute %s r1  10.0.0.1:2003", typ))
	}
	// every run-time change of a filter or an address, on every carbon route type (the admin
	// interface reaches modRoute / modDest on whatever route the key names)
	for _, typ := range []string{"sendAllMatch", "sendFirstMatch", "consistentHashing"} {
		add := fmt.Sprintf("addRoute %s r1  10.0.0.1:2003  10.0.0.2:2003", typ)
		for _, o := range []string{"prefix=a", "notPrefix=a", "sub=a", "notSub=a", "regex=^a", "notRegex=^a", "regex=(", "notRegex=(", "prefix=", "bogus=1", "addr=10.0.0.9:2003", "addr=10.0.0.9:2003 prefix=a", "addr=10.0.0.2:2003"} {
			cmd([]string{"cmd modDest r1 0 " + o, "cmd modDest r1 1 " + o}, add)
			if !strings.HasPrefix(o, "addr=") {
				cmd([]string{"cmd modRoute r1 " + o}, add)
			}
		}
		cmd([]string{"cmd modDest r1 2 prefix=a", "cmd modDest r1 -1 prefix=a", "cmd modDest r1 x prefix=a", "cmd modDest r1 0", "cmd modRoute r1"}, add)
	}
	// consistent hashing: down to zero destinations, then traffic
	cmd([]string{"delDest ch 0", "delDest ch 0"}, "addRoute consistentHashing ch  10.0.0.1:2003  10.0.0.2:2003")
	cmd([]string{"delDest ch 1", "delDest ch 0", "delDest ch 0"}, "addRoute consistentHashing ch  10.0.0.1:2003:a  10.0.0.1:2003:b")
	cmd(nil, "addRoute consistentHashing ch  10.0.0.1:2003")
	cmd(nil, "addRoute consistentHashing ch")
	cmd(nil, "addRoute consistentHashing ch  10.0.0.1:2003 prefix=a  10.0.0.2:2003")
	// aggregations
	for _, fn := range []string{"sum", "avg", "count", "delta", "derive", "last", "max", "min", "stdev"} {
		cmd(nil, fmt.Sprintf("addAgg %s regex=^a\\.(.*) agg.$1 10 5", fn))
	}
	// interval and wait are seconds that the relay multiplies into a time.Duration: besides the generic
	// boundaries, the first value whose product no longer fits (9223372037), 2^55 (the product wraps to
	// exactly zero) and the largest values the option parser accepts
	aggNums := append(append([]string{}, nums[:3]...), "9223372036", "9223372037", "36028797018963968", "9223372036854775807", "18446744073709551615")
	for _, iv := range aggNums {
		for _, w := range aggNums {
			cmd(nil, fmt.Sprintf("addAgg sum regex=^a\\.(.*) agg.$1 %s %s", iv, w))
			cmd(nil, fmt.Sprintf("addAgg sum regex=^a\\.(.*) agg.$1 %s %s cache=false dropRaw=true", iv, w))
		}
	}
	cmd(nil, "addAgg sum sub=a agg 10 5")
	cmd(nil, "addAgg sum regex=( agg 10 5")
	cmd(nil, "addAgg sum regex=^a agg.$9 10 5")
	cmd(nil, "addAgg sum regex=^a agg")
	cmd(nil, "addAgg percentiles regex=^a agg 10 5")
	cmd(nil, "addAgg sum prefix=a regex=^a notRegex=( agg 10 5")
	// blacklist, rewriters
	for _, c := range []string{"addBlack prefix a", "addBlack sub a", "addBlack regex (", "addBlack regex ^a", "addBlack prefix", "addBlack nonsense a",
		"addRewriter a b -1", "addRewriter a b 0", "addRewriter a b -2", "addRewriter a b 9223372036854775807", "addRewriter /(/ b -1", "addRewriter /a/ b 1", "addRewriter /a(.)/ ${1}x -1", "addRewriter a b",
		"delRoute nope", "modRoute nope prefix=a", "modDest nope 0 prefix=a", "addDest r1 10.0.0.1:2003", "help", "", " ", "addRoute", "addRoute bogus x  y", "view", strings.Repeat("a", 70000)} {
		cmd(nil, c)
	}
	// grafanaNet
	sch, agg := filepath.Join(tmpDir, "schemas.conf"), filepath.Join(tmpDir, "aggregation.conf")
	gn := fmt.Sprintf("addRoute grafanaNet g  http://127.0.0.1:1/metrics key %s %s", sch, agg)
	cmd(nil, gn+" concurrency=2")
	for _, o := range []string{"concurrency", "bufSize", "flushMaxNum", "flushMaxWait", "timeout", "orgId", "errBackoffMin", "errBackoffFactor"} {
		for _, v := range []string{"0", "1"} {
			c := gn + " " + o + "=" + v
			if o != "concurrency" {
				c += " concurrency=2"
			}
			cmd(nil, c)
		}
	}
	cmd(nil, fmt.Sprintf("addRoute grafanaNet g  http://127.0.0.1:1/metrics key %s /nonexistent", sch))
	cmd(nil, "addRoute grafanaNet g  notaurl key "+sch+" "+agg)
	cmd(nil, gn+" concurrency=4 bufSize=2")
	// a route nothing matches can be shut down (an unreachable endpoint keeps a non-empty route retrying, by design)
	cmd([]string{"cmd delRoute g"}, strings.Replace(gn, "grafanaNet g ", "grafanaNet g prefix=zzz ", 1)+" concurrency=2")

	// the same parameters as TOML sections
	tm := func(doc string, after ...string) {
		out = append(out, caseT{kind: "toml", cmds: []string{doc}, after: after})
	}
	for _, iv := range []string{"0", "1", "10"} {
		for _, w := range []string{"0", "5"} {
			tm(fmt.Sprintf("[[aggregation]]\nfunction = 'sum'\nregex = '^a\\.(.*)'\nformat = 'agg.$1'\ninterval = %s\nwait = %s\n", iv, w))
		}
	}
	tm("[[aggregation]]\nfunction = 'sum'\nsub = 'a'\nformat = 'agg'\ninterval = 10\nwait = 5\n")
	tm("[[aggregation]]\nfunction = 'sum'\nprefix = 'a'\nformat = 'agg'\ninterval = 10\nwait = 5\ndropRaw = true\n")
	tm("[[aggregation]]\nfunction = 'nope'\nregex = '^a'\nformat = 'agg'\ninterval = 10\nwait = 5\n")
	tm("[[aggregation]]\nfunction = 'percentiles'\nregex = '^a'\nformat = 'agg'\ninterval = 10\nwait = 5\n")
	for _, o := range destOpts {
		tm(fmt.Sprintf("[[route]]\nkey = 'r1'\ntype = 'sendAllMatch'\ndestinations = ['10.0.0.1:2003 spool=true %s=0']\n", o))
	}
	tm("[[route]]\nkey = 'ch'\ntype = 'consistentHashing'\ndestinations = ['10.0.0.1:2003']\n")
	tm("[[route]]\nkey = 'ch'\ntype = 'consistentHashing'\ndestinations = []\n")
	tm("[[route]]\nkey = 'r1'\ntype = 'sendAllMatch'\ndestinations = []\n")
	tm("[[route]]\nkey = 'r1'\ntype = 'bogus'\ndestinations = ['10.0.0.1:2003']\n")
	tm("[[rewriter]]\nold = ''\nnew = 'b'\nmax = -1\n")
	tm("[[rewriter]]\nold = '/a(/'\nnew = 'b'\nmax = -1\n")
	// boundary-length words where a '/'-delimited regex may be written: old and not, as command and as TOML
	for _, w := range []string{"/", "//", "///", "/a", "a/", "/a/", "/(/"} {
		cmd(nil, fmt.Sprintf("addRewriter %s b -1", w))
		cmd(nil, fmt.Sprintf("addRewriter a %s -1", w))
		tm(fmt.Sprintf("[[rewriter]]\nold = '%s'\nnew = 'b'\nnot = ''\nmax = -1\n", w))
		tm(fmt.Sprintf("[[rewriter]]\nold = 'a'\nnew = 'b'\nnot = '%s'\nmax = -1\n", w))
		tm(fmt.Sprintf("[[rewriter]]\nold = '%s'\nnew = '%s'\nnot = '%s'\nmax = 1\n", w, w, w))
	}
	tm("[[rewriter]]\nold = ''\nnew = ''\nnot = ''\nmax = -1\n")
	tm("[[rewriter]]\nold = 'a'\nnew = 'b'\nnot = '/(/'\nmax = -1\n")
	tm("[[blacklist]]\nregex = '('\n")
	tm("blacklist = ['regex (', 'prefix a', 'bogus']\n")
	// global settings the table is created with: bad_metrics_max_age (a duration string)
	for _, age := range []string{"0s", "0", "-1h", "1ns", "9ns", "10ns", "1ms", "2540400h", "x", ""} {
		if age != "" {
			out = append(out, caseT{kind: "cmd", cmds: []string{"addBlack prefix zz"}, maxAge: age})
		}
	}
	// accepted entries that turn a validated name into something unusual (empty, with a blank, only
	// dots) in front of every kind of delivery stage: whatever re-encodes or parses the line again
	// downstream (pickle, spool, grafanaNet record, ring) must cope with it
	routes := []string{
		"addRoute sendAllMatch r1  10.0.0.1:2003",
		"addRoute sendAllMatch r1  10.0.0.1:2003 pickle=true",
		"addRoute sendAllMatch r1  10.0.0.1:2003 spool=true",
		"addRoute sendFirstMatch r1  10.0.0.1:2003 pickle=true spool=true",
		"addRoute consistentHashing r1  10.0.0.1:2003 pickle=true  10.0.0.2:2003 pickle=true",
		gn + " concurrency=2",
	}
	for _, r := range routes {
		for _, m := range []string{"addRewriter /^b$/ ${9} -1", "addRewriter /^(a)\\.b$/ ${2} -1", "addRewriter /[a-z]/ ${9} -1", "addAgg sum regex=^agg\\.b(.*)$ $1 10 5", "addAgg sum regex=^(a)\\.(b)$ $3 10 5 dropRaw=true"} {
			out = append(out, caseT{kind: "cmd", setup: []string{r}, cmds: []string{m}})
		}
		for _, doc := range []string{"[[rewriter]]\nold = 'b'\nnew = ''\nnot = ''\nmax = -1\n", "[[rewriter]]\nold = '.'\nnew = ' '\nnot = ''\nmax = -1\n", "[[rewriter]]\nold = '/^b$/'\nnew = ' '\nnot = ''\nmax = -1\n",
			"[[aggregation]]\nfunction = 'sum'\nregex = '^a\\.(.*)'\nformat = ''\ninterval = 10\nwait = 5\n", "[[aggregation]]\nfunction = 'sum'\nregex = '^a\\.(.*)'\nformat = 'x y'\ninterval = 10\nwait = 5\n"} {
			out = append(out, caseT{kind: "toml", setup: []string{r}, cmds: []string{doc}})
		}
	}
	tm(fmt.Sprintf("[[route]]\nkey = 'g'\ntype = 'grafanaNet'\naddr = 'http://127.0.0.1:1/metrics'\napikey = 'k'\nschemasFile = '%s'\naggregationFile = '%s'\nconcurrency = 0\n", sch, agg))
	tm(fmt.Sprintf("[[route]]\nkey = 'g'\ntype = 'grafanaNet'\naddr = 'http://127.0.0.1:1/metrics'\napikey = 'k'\nschemasFile = '%s'\naggregationFile = '%s'\nbufSize = 0\nflushMaxNum = 0\nconcurrency = 2\n", sch, agg))
	return out
}

type cmdExec struct {
	cases []caseT
	chose int
	errs  []string
	viol  string
	acc   bool
}

func (e *cmdExec) Body() {
	e.chose = vrt.Choose(len(e.cases), "case")
	c := e.cases[e.chose]
	net := &destharn.Net{Up: true}
	vrt.SetEnv("net", net)
	vrt.SetEnv("fs", vos.NewFS())
	aggregator.VerifInit()
	rand.Seed(7) // backoff jitter
	log.StandardLogger().ExitFunc = func(code int) { panic(fmt.Sprintf("process exit(%d) through log.Fatal", code)) }
	maxAge := c.maxAge
	if maxAge == "" {
		maxAge = "1h"
	}
	tc, err := table.NewTableConfig(filepath.Join(tmpDir, "spool"), maxAge, validate.LevelLegacy{Level: m20.MediumLegacy}, validate.LevelM20{Level: m20.MediumM20}, false)
	if err != nil {
		if c.maxAge == "" {
			panic(err)
		}
		e.errs = append(e.errs, err.Error()) // refused: fine
		return
	}
	t := table.New(tc)
	// the first route holds a dispatcher up on request: every follow-up admin operation is applied while a
	// line that has already loaded the table (and will reach the routes behind this one) is in flight
	gateOpen := true
	gate := harn.NewCapture("gate", matcher.Matcher{})
	gate.Hook = func([]byte) { vrt.WaitUntil("gate route", func() bool { return gateOpen }) }
	t.AddRoute(gate)
	for _, s := range c.setup {
		if err := imperatives.Apply(t, s); err != nil {
			panic("setup command failed: " + err.Error())
		}
	}
	e.acc = true
	switch c.kind {
	case "cmd":
		for _, s := range c.cmds {
			if err := imperatives.Apply(t, s); err != nil {
				e.errs = append(e.errs, err.Error())
				e.acc = false
			}
		}
	case "toml":
		var config cfg.Config
		meta, err := toml.Decode(c.cmds[0], &config)
		if err != nil {
			e.errs = append(e.errs, "toml: "+err.Error())
			e.acc = false
		} else if err := cfg.InitTable(t, config, meta); err != nil {
			e.errs = append(e.errs, err.Error())
			e.acc = false
		}
	}
	traffic := func() {
		now := vrt.Now().Unix()
		for _, n := range []string{"a.b", "a.c", "b", "agg.b"} {
			t.Dispatch([]byte(fmt.Sprintf("%s 1 %d", n, now)))
		}
	}
	traffic()
	vrt.Sleep(1500 * time.Millisecond)
	traffic()
	for _, a := range c.after {
		f := strings.Fields(a)
		gateOpen = false
		inflight := false
		vrt.GoNamed("in-flight", func() {
			t.Dispatch([]byte(fmt.Sprintf("a.b 1 %d", vrt.Now().Unix())))
			inflight = true
		})
		vrt.Quiesce() // parked inside the gate route, holding the table value it loaded
		switch f[0] {
		case "delDest":
			var idx int
			fmt.Sscan(f[2], &idx)
			if err := t.DelDestination(f[1], idx); err != nil {
				e.errs = append(e.errs, err.Error())
			}
		case "cmd":
			if err := imperatives.Apply(t, strings.TrimPrefix(a, "cmd ")); err != nil {
				e.errs = append(e.errs, err.Error())
			}
		}
		vrt.Quiesce() // whatever the operation set in motion has come to rest
		gateOpen = true
		vrt.WaitUntil("in-flight line handled", func() bool { return inflight })
		traffic()
	}
	// more than two periods of the default timers (flush 1 s, reconnect 10 s, keepSafe 10 s, aggregation 10+5 s)
	vrt.Sleep(31 * time.Second)
	traffic()
	vrt.Sleep(2 * time.Second)
	t.Snapshot()
	t.Print()
}

func (e *cmdExec) Check(r *vrt.Result) (string, string) {
	c := e.cases[e.chose]
	outcome := fmt.Sprintf("accepted=%v", e.acc)
	if len(r.Panics) > 0 {
		p := r.Panics[0]
		return "panic", fmt.Sprintf("panic %.70s at %s\nafter %s (accepted=%v, errors %v)\n%s", p.Value, panicSite(p.Stack), c, e.acc, e.errs, p.Stack)
	}
	if r.StepLimit {
		// a goroutine that spins (the aligned ticker with an interval of ~292 years and a wait beyond
		// the current time computes a negative sleep) burns a CPU but is neither a panic nor an exit:
		// recorded as an observation (outcome "spins"), not judged by this property
		return "spins: " + c.String(), ""
	}
	if !r.DriverDone {
		return "blocked", fmt.Sprintf("hang: traffic or an admin operation never returned\nafter %s\nblocked: %v", c, r.Blocked)
	}
	return outcome, ""
}

func (e *cmdExec) Counts() map[string]int64 {
	if e.acc {
		return map[string]int64{"configurations_accepted": 1}
	}
	return map[string]int64{"configurations_rejected_with_error": 1}
}

func main() {
	if os.Getenv("C14_CHILD") == "amqp" {
		log.SetLevel(log.PanicLevel)
		amqpChild()
	}
	rep = kit.New("C14", "exploration")
	rep.Quiet()
	log.SetLevel(log.PanicLevel)
	log.SetOutput(io.Discard)
	stdlog.SetOutput(io.Discard)
	tmpDir = os.Getenv("C14_TMP")
	if os.Getenv("VRT_WORKER") == "" {
		tmpDir = filepath.Join("/verif/.work", fmt.Sprintf("c14-tmp-%d", os.Getpid()))
		os.MkdirAll(tmpDir, 0o755)
		os.Setenv("C14_TMP", tmpDir)
		ioutil.WriteFile(filepath.Join(tmpDir, "schemas.conf"), []byte("[default]\npattern = .*\nretentions = 10s:1d\n"), 0o644)
		ioutil.WriteFile(filepath.Join(tmpDir, "aggregation.conf"), []byte("[default]\npattern = .*\nxFilesFactor = 0.5\naggregationMethod = average\n"), 0o644)
	}
	cases := genCases(rep.Thorough())
	scn := &vrt.Scenario{Name: "commands", Cfg: vrt.Config{MaxSteps: 200000, Horizon: 10 * time.Minute}, Model: vrt.CostDelay, Bound: 0,
		New: func() vrt.Exec { return &cmdExec{cases: cases} }}
	e1 := &kit.E1{Rep: rep, Scenarios: []*vrt.Scenario{scn}, Deadline: rep.Deadline(120*time.Second, 20*time.Minute), Shard: true, MaxViol: 10000,
		SigOf: func(scn, msg string) string { return strings.SplitN(msg, "\n", 2)[0] }}
	cov := e1.Run() // workers never return from here
	if cov == nil {
		os.RemoveAll(tmpDir)
		rep.Finish(nil)
	}
	contLen := 2
	if rep.Thorough() {
		contLen = 3
	}
	pickleInputs(contLen)
	plainInputs()
	amqpInputs()
	raceInfo := racePass()
	os.RemoveAll(tmpDir)
	execs, _ := cov["executions"].(int64)
	c, _ := cov["counters"].(map[string]int64)
	rep.Assume = []string{
		"inputs: pickle payloads = accepted protocol prefix + every continuation up to the stated length; text streams up to 3 tokens; third-party decoders are covered only as far as these bytes reach them",
		"commands: generated from the grammar of imperatives.Apply / the TOML sections with boundary values {0, 1, 2^31, 2^63-1}; kafkaMdm, pubSub and cloudWatch routes are excluded (their constructors need external services and exit the process when those are unreachable)",
		"a panic in any goroutine of the instrumented relay packages is caught by the scheduler runtime; process exit through log.Fatal is intercepted",
		"complement (not exhaustive, per the guidance for this technique): one free-running run of the dispatch path under the Go race detector; only races on Go maps (on which the runtime aborts the process) and crashes are judged",
	}
	rep.Finish(map[string]interface{}{
		"evaluations":              ist.cases + execs,
		"distinct_nontrivial":      ist.nontr + c["configurations_accepted"],
		"rule":                     "evaluations = input frames/streams handled + command/configuration cases executed (each followed by traffic and 35 virtual seconds); non-trivial = an input that made the handler dispatch or count something, or a configuration the relay accepted (and then had to survive traffic and timers)",
		"samples":                  []interface{}{cases[0].String(), cases[len(cases)/2].String(), cases[len(cases)-1].String(), "pickle: 80 02 5d + every continuation"},
		"exhaustive":               cov["exhaustive"],
		"input_cases":              ist.cases,
		"command_cases":            len(cases),
		"command_executions":       execs,
		"configurations_accepted":  c["configurations_accepted"],
		"configurations_rejected":  c["configurations_rejected_with_error"],
		"scheduler_points_visited": cov["states"],
		"race_pass":                raceInfo["race_pass"],
	})
}
