// C15: a consistent-hashing route agrees with Carbon's ConsistentHashRing and
// moves only the keys it must. Engine E4 (+ histories): bounded-exhaustive
// enumeration of destination lists x metric names against ref.Ring (an
// independent model of carbon's hashing.py, itself cross-checked against the
// Python transcription py/carbon_ring.py and against committed vectors).
//
//	part H  every ordered selection of 1..4 destinations with distinct
//	        (host, instance) from hosts x {none, a, b}, every port form, two
//	        host alphabets, through route.NewConsistentHasher +
//	        GetDestinationIndex, for every key
//	part R  real ConsistentHashing routes with real destinations (refusing
//	        loopback port, spool off), observed through the per-destination
//	        conn_down_no_spool counters with Destination.Flush as the barrier
//	part E  every history <= 3 of route.Add / DelDestination on a real route:
//	        agreement with the ring of the current set after every step, and
//	        minimal disruption between the two states around every step
package main

import (
	"bytes"
	"crypto/sha256"
	"encoding/hex"
	"encoding/json"
	"fmt"
	"io"
	"net"
	"os"
	"os/exec"
	"path/filepath"
	"runtime"
	"runtime/pprof"
	"sort"
	"strings"
	"sync"
	"time"

	"github.com/grafana/carbon-relay-ng/aggregator"
	"github.com/grafana/carbon-relay-ng/destination"
	"github.com/grafana/carbon-relay-ng/matcher"
	"github.com/grafana/carbon-relay-ng/route"
	log "github.com/sirupsen/logrus"

	"verif/mc/harn"
	"verif/mc/kit"
	"verif/mc/ref"
)

var rep *kit.Reporter

// ---------------------------------------------------------------------------
// destination alphabets

type alphabet struct {
	name  string
	nodes []ref.RingNode
	forms [][]string // the address strings that denote node i
}

func mkAlphabet(name string, hosts []string, plain func(h string) []string, inst func(h, i string) []string) *alphabet {
	a := &alphabet{name: name}
	for _, h := range hosts {
		a.nodes = append(a.nodes, ref.RingNode{Host: h})
		a.forms = append(a.forms, plain(h))
		for _, i := range []string{"a", "b"} {
			a.nodes = append(a.nodes, ref.RingNode{Host: h, Inst: i, HasInst: true})
			a.forms = append(a.forms, inst(h, i))
		}
	}
	return a
}

// alphabet A: symbolic hosts. An instance needs the host:port:instance syntax,
// so "with and without port" is {h, h:2003} without an instance and two
// different ports with one.
var alphA = mkAlphabet("A", []string{"h1", "h2", "h3"},
	func(h string) []string { return []string{h, h + ":2003"} },
	func(h, i string) []string { return []string{h + ":2003:" + i, h + ":2004:" + i} })

// alphabet B: loopback addresses, so that real destinations can be run: with
// no port the dial fails at once, port 1 refuses.
var alphB = mkAlphabet("B", []string{"127.0.0.1", "127.0.0.2", "127.0.0.3"},
	func(h string) []string { return []string{h, h + ":1"} },
	func(h, i string) []string { return []string{h + ":1:" + i} })

func combos(n, k int) [][]int {
	var out [][]int
	var rec func(start int, cur []int)
	rec = func(start int, cur []int) {
		if len(cur) == k {
			out = append(out, append([]int(nil), cur...))
			return
		}
		for i := start; i < n; i++ {
			rec(i+1, append(cur, i))
		}
	}
	rec(0, nil)
	return out
}

func perms(s []int) [][]int {
	var out [][]int
	var rec func(cur []int, used []bool)
	rec = func(cur []int, used []bool) {
		if len(cur) == len(s) {
			out = append(out, append([]int(nil), cur...))
			return
		}
		for i := range s {
			if !used[i] {
				used[i] = true
				rec(append(cur, i), used)
				used[i] = false
			}
		}
	}
	rec(nil, make([]bool, len(s)))
	return out // positions into s, lexicographic: the identity comes first
}

// formChoices enumerates every assignment of an address form to each member.
func formChoices(al *alphabet, members []int) [][]int {
	out := [][]int{{}}
	for _, m := range members {
		var next [][]int
		for _, c := range out {
			for f := range al.forms[m] {
				next = append(next, append(append([]int(nil), c...), f))
			}
		}
		out = next
	}
	return out
}

func (al *alphabet) sets(maxDest int) [][]int {
	var out [][]int
	for k := 1; k <= maxDest; k++ {
		out = append(out, combos(len(al.nodes), k)...)
	}
	return out
}

func (al *alphabet) nodesOf(set []int) []ref.RingNode {
	var out []ref.RingNode
	for _, i := range set {
		out = append(out, al.nodes[i])
	}
	return out
}

// ---------------------------------------------------------------------------
// keys

const keyAlpha = "abc."

// cover[p] is the first string over {a,b,c,.} (shortest first, then in
// alphabet order) whose ring position is p; base are all strings up to 6.
var (
	cover    [65536]string
	baseKeys []string
)

func buildKeys() {
	filled := 0
	for l := 1; filled < 65536; l++ {
		idx := make([]int, l)
		buf := make([]byte, l)
		for {
			for i, x := range idx {
				buf[i] = keyAlpha[x]
			}
			s := string(buf)
			if l <= 6 {
				baseKeys = append(baseKeys, s)
			}
			p := ref.RingPosition(s)
			if cover[p] == "" {
				cover[p] = s
				filled++
			}
			k := l - 1
			for k >= 0 {
				idx[k]++
				if idx[k] < len(keyAlpha) {
					break
				}
				idx[k] = 0
				k--
			}
			if k < 0 {
				break
			}
		}
		if l > 14 {
			panic("key search did not cover the ring")
		}
	}
}

type keyset struct {
	keys [][]byte
	strs []string
	pos  []uint16
}

func newKeyset(lists ...[]string) *keyset {
	ks := &keyset{}
	seen := map[string]bool{}
	for _, l := range lists {
		for _, s := range l {
			if !seen[s] {
				seen[s] = true
				ks.strs = append(ks.strs, s)
				ks.keys = append(ks.keys, []byte(s))
				ks.pos = append(ks.pos, ref.RingPosition(s))
			}
		}
	}
	return ks
}

// probes: for every replica position p of every node of the alphabet a key at
// p-1, p and p+1, plus keys at 0 and 65535 (the wrap-around).
func probes(al *alphabet) []string {
	want := map[uint16]bool{0: true, 65535: true}
	r, err := ref.NewRing(al.nodes)
	if err != nil {
		panic(err)
	}
	for i := range al.nodes {
		for _, p := range r.Positions(i) {
			want[p-1], want[p], want[p+1] = true, true, true
		}
	}
	var ps []int
	for p := range want {
		ps = append(ps, int(p))
	}
	sort.Ints(ps)
	var out []string
	for _, p := range ps {
		out = append(out, cover[p])
	}
	return out
}

func coverKeys() []string { return cover[:] }

// ---------------------------------------------------------------------------
// violations are collected, ordered and capped per kind

type bad struct {
	order  int64
	kind   string
	sig    string
	what   string
	replay interface{}
}

type collector struct {
	mu    sync.Mutex
	bads  []bad
	count map[string]int
}

var coll = &collector{count: map[string]int{}}

func (c *collector) add(b bad) {
	c.mu.Lock()
	c.count[b.kind]++
	if c.count[b.kind] <= 4000 {
		c.bads = append(c.bads, b)
	}
	c.mu.Unlock()
}

func (c *collector) report() {
	sort.SliceStable(c.bads, func(i, j int) bool {
		if c.bads[i].kind != c.bads[j].kind {
			return c.bads[i].kind < c.bads[j].kind
		}
		return c.bads[i].order < c.bads[j].order
	})
	n := map[string]int{}
	for _, b := range c.bads {
		n[b.kind]++
		if n[b.kind] > 8 {
			continue
		}
		what := b.what
		if n[b.kind] == 1 && c.count[b.kind] > 1 {
			what += fmt.Sprintf(" (first of %d '%s' failures, simplest first)", c.count[b.kind], b.kind)
		}
		rep.Violation(b.sig, what, b.replay)
	}
}

type tally struct {
	mu         sync.Mutex
	evals      int64
	nontrivial int64
	tieEvals   int64
	tieRings   int64
	rings      map[string]int64
	samples    []interface{}
}

var tal = &tally{rings: map[string]int64{}}

func (t *tally) sample(s interface{}) {
	t.mu.Lock()
	if len(t.samples) < 16 {
		t.samples = append(t.samples, s)
	}
	t.mu.Unlock()
}

// ---------------------------------------------------------------------------
// part H: the hasher, exhaustively

func plainDest(addr string) *destination.Destination {
	d, err := destination.New("c15h", matcher.Matcher{}, addr, "/tmp/verif-nospool", false, false, time.Second, time.Hour, 10, 1000, 10, 1000, 1000, time.Second, 0, 0)
	if err != nil {
		panic(err)
	}
	return d
}

func safeIndex(h *route.ConsistentHasher, k []byte) (idx int, pan interface{}) {
	defer func() { pan = recover() }()
	return h.GetDestinationIndex(k), nil
}

func safeDispatch(r *route.ConsistentHashing, line []byte) (pan interface{}) {
	defer func() { pan = recover() }()
	r.Dispatch(line)
	return nil
}

func deliveryWord(g int, panicMsg string) string {
	switch g {
	case -1:
		return "counted by no destination"
	case -2:
		return "counted by more than one destination"
	}
	return "not delivered, Dispatch panicked: " + panicMsg
}

func addrsOf(al *alphabet, members, forms []int) []string {
	var out []string
	for i, m := range members {
		out = append(out, al.forms[m][forms[i]])
	}
	return out
}

// tieDecided[p]: the owner of position p is decided by the order of two
// entries of different nodes at the same position.
func tieDecided(r *ref.Ring) map[uint16]bool {
	ties := map[uint16]bool{}
	for _, t := range r.Ties() {
		ties[t] = true
	}
	return ties
}

// partH runs, for every (host, instance) set of the alphabet (simplest first),
// every listing order and
//
//	pass 0 (keys ksFull):  every assignment of address forms for sets of up to
//	                       allFormsUpTo members, the uniform assignments (all
//	                       first forms, all last forms) for larger sets
//	pass 1 (keys ksMixed): the remaining, mixed assignments of the larger sets
//	                       (skipped when ksMixed is nil)
//
// through route.NewConsistentHasher + GetDestinationIndex. A set that is not
// started before the deadline is skipped; it returns how many sets were done.
func partH(al *alphabet, ksFull, ksMixed *keyset, maxDest int, allFormsUpTo int, deadline time.Time) (done, total int) {
	// one never-run Destination per address string: the hasher only reads Addr and Instance
	dests := map[string]*destination.Destination{}
	for _, fs := range al.forms {
		for _, f := range fs {
			dests[f] = plainDest(f)
		}
	}
	sets := al.sets(maxDest)
	type result struct {
		done                                         bool
		rings, evals, nontrivial, tieEvals, tieRings int64
		sample                                       interface{}
	}
	results := make([]result, len(sets))
	var wg sync.WaitGroup
	next := make(chan int, len(sets))
	for i := range sets {
		next <- i
	}
	close(next)
	for w := 0; w < runtime.NumCPU(); w++ {
		wg.Add(1)
		go func() {
			defer wg.Done()
			for si := range next {
				if time.Now().After(deadline) {
					continue
				}
				set := sets[si]
				rr, err := ref.NewRing(al.nodesOf(set))
				if err != nil {
					panic(err)
				}
				table := rr.OwnerTable()
				ties := tieDecided(rr)
				// the distinct entry positions of this ring, to find the keys whose owner a tie-break decides:
				// those in (previous distinct position, tie position]
				var ps []int
				if len(ties) > 0 {
					all := map[uint16]bool{}
					for i := range set {
						for _, p := range rr.Positions(i) {
							all[p] = true
						}
					}
					for p := range all {
						ps = append(ps, int(p))
					}
					sort.Ints(ps)
				}
				var res result
				res.done = true
				ringNo := int64(0)
				for pass, ks := range []*keyset{ksFull, ksMixed} {
					if ks == nil || (pass == 1 && len(set) <= allFormsUpTo) {
						continue
					}
					want := make([]uint8, len(ks.keys))
					for i, p := range ks.pos {
						want[i] = table[p]
					}
					nTieKeys := int64(0)
					for _, p := range ks.pos {
						if j := sort.SearchInts(ps, int(p)); j < len(ps) && ties[uint16(ps[j])] {
							nTieKeys++
						}
					}
					var first []uint8
					var firstAddrs []string
					for _, perm := range perms(set) {
						members := make([]int, len(set))
						for i, p := range perm {
							members[i] = set[p]
						}
						fcs := formChoices(al, members)
						if len(set) > allFormsUpTo {
							var uniform, mixed [][]int
							for _, fc := range fcs {
								lo, hi := true, true
								for i, m := range members {
									lo = lo && fc[i] == 0
									hi = hi && fc[i] == len(al.forms[m])-1
								}
								if lo || hi {
									uniform = append(uniform, fc)
								} else {
									mixed = append(mixed, fc)
								}
							}
							fcs = uniform
							if pass == 1 {
								fcs = mixed
							}
						}
						for _, fc := range fcs {
							addrs := addrsOf(al, members, fc)
							ds := make([]*destination.Destination, len(addrs))
							for i, a := range addrs {
								ds[i] = dests[a]
							}
							hasher := route.NewConsistentHasher(ds)
							got := make([]uint8, len(ks.keys))
							owned := make([]int, len(set))
							order := int64(si)*1000000 + ringNo
							ringNo++
							refBad, ordBad, panBad := 0, 0, 0
							for i, k := range ks.keys {
								idx, pan := safeIndex(&hasher, k)
								if pan != nil {
									panBad++
									if panBad == 1 {
										coll.add(bad{order, "panic", fmt.Sprintf("hasher %s %v key %s panic", al.name, addrs, ks.strs[i]),
											fmt.Sprintf("destinations %v: GetDestinationIndex(%q) (ring position %d) panics: %v", addrs, ks.strs[i], ks.pos[i], pan),
											map[string]interface{}{"part": "H", "alphabet": al.name, "destinations": addrs, "key": ks.strs[i], "position": ks.pos[i]}})
									}
									got[i] = 255
									continue
								}
								if idx < 0 || idx >= len(perm) {
									coll.add(bad{order, "index", fmt.Sprintf("hasher %s %v key %s index", al.name, addrs, ks.strs[i]),
										fmt.Sprintf("GetDestinationIndex(%q) = %d with %d destinations %v", ks.strs[i], idx, len(perm), addrs),
										map[string]interface{}{"part": "H", "alphabet": al.name, "destinations": addrs, "key": ks.strs[i]}})
									got[i] = 255
									continue
								}
								g := uint8(perm[idx])
								got[i] = g
								owned[g]++
								if g != want[i] {
									refBad++
									if refBad == 1 {
										coll.add(bad{order, "carbon", fmt.Sprintf("hasher %s %v key %s", al.name, addrs, ks.strs[i]),
											fmt.Sprintf("destinations %v: key %q (ring position %d) goes to %s, Carbon's ring sends it to %s", addrs, ks.strs[i], ks.pos[i], al.nodes[set[g]], al.nodes[set[want[i]]]),
											map[string]interface{}{"part": "H", "alphabet": al.name, "destinations": addrs, "key": ks.strs[i], "position": ks.pos[i], "got": al.nodes[set[g]].String(), "carbon": al.nodes[set[want[i]]].String()}})
									}
								}
								if first != nil && first[i] != 255 && g != first[i] {
									ordBad++
									if ordBad == 1 {
										coll.add(bad{order, "order", fmt.Sprintf("order %s %v vs %v key %s", al.name, addrs, firstAddrs, ks.strs[i]),
											fmt.Sprintf("the same (host, instance) set listed as %v and as %v: key %q goes to %s resp. %s", addrs, firstAddrs, ks.strs[i], al.nodes[set[g]], al.nodes[set[first[i]]]),
											map[string]interface{}{"part": "H", "alphabet": al.name, "destinations": addrs, "other": firstAddrs, "key": ks.strs[i]}})
									}
								}
							}
							if first == nil {
								first, firstAddrs = got, addrs
							}
							res.rings++
							res.evals += int64(len(ks.keys))
							split := len(set) >= 2
							for _, o := range owned {
								if o == 0 {
									split = false
								}
							}
							if split {
								res.nontrivial++
							}
							if len(ties) > 0 {
								res.tieRings++
								res.tieEvals += nTieKeys
							}
						}
					}
					if pass == 0 && len(ties) > 0 {
						var tp []int
						for p := range ties {
							tp = append(tp, int(p))
						}
						sort.Ints(tp)
						p := uint16(tp[0])
						res.sample = map[string]interface{}{"part": "H", "alphabet": al.name, "destinations": firstAddrs, "tie_position": p, "key_on_tie": cover[p], "carbon_owner": al.nodes[set[table[p]]].String(), "orderings_x_forms": ringNo}
					}
				}
				results[si] = res
			}
		}()
	}
	wg.Wait()
	nsample := 0
	for si, r := range results {
		if !r.done {
			continue
		}
		done++
		tal.evals += r.evals
		tal.nontrivial += r.nontrivial
		tal.tieEvals += r.tieEvals
		tal.tieRings += r.tieRings
		tal.rings["H/"+al.name] += r.rings
		if r.sample != nil && len(sets[si]) == 2 && nsample < 3 {
			nsample++
			tal.sample(r.sample)
		}
	}
	return done, len(sets)
}

// ---------------------------------------------------------------------------
// reference self-check: ref.Ring vs the Python transcription / committed vectors

type vecSet struct {
	Alphabet string      `json:"alphabet"`
	Nodes    [][]*string `json:"nodes"`
	Digest   string      `json:"owners_sha256"`
}

type vecExample struct {
	Nodes  [][]*string `json:"nodes"`
	Keys   []string    `json:"keys"`
	Owners string      `json:"owners"`
}

type vectors struct {
	Comment    string       `json:"comment"`
	Replicas   int          `json:"replicas"`
	NKeys      int          `json:"nkeys"`
	KeysDigest string       `json:"keys_sha256"`
	Sets       []vecSet     `json:"sets"`
	Examples   []vecExample `json:"examples"`
}

func pyNodes(ns []ref.RingNode) [][]*string {
	var out [][]*string
	for _, n := range ns {
		n := n
		var inst *string
		if n.HasInst {
			inst = &n.Inst
		}
		out = append(out, []*string{&n.Host, inst})
	}
	return out
}

func refOwners(nodes []ref.RingNode, ks *keyset) string {
	r, err := ref.NewRing(nodes)
	if err != nil {
		panic(err)
	}
	var b strings.Builder
	for _, k := range ks.strs {
		b.WriteByte(byte('0' + r.Owner(k)))
	}
	return b.String()
}

func digest(s string) string {
	h := sha256.Sum256([]byte(s))
	return hex.EncodeToString(h[:])
}

const vectorsPath = "mc/props/c15/vectors.json"

// selfCheck returns "" or a description of a failed reference self-check, and how it was done.
func selfCheck(ks *keyset, alphs []*alphabet) (problem string, mode string) {
	type ring struct {
		al    *alphabet
		nodes []ref.RingNode
		canon bool
	}
	var rings []ring
	for _, al := range alphs {
		for _, set := range al.sets(4) {
			ns := al.nodesOf(set)
			rings = append(rings, ring{al, ns, true})
			if len(ns) == 2 {
				rev := make([]ref.RingNode, len(ns))
				for i, n := range ns {
					rev[len(ns)-1-i] = n
				}
				rings = append(rings, ring{al, rev, false})
			}
		}
	}
	owners := make([]string, len(rings))
	var wg sync.WaitGroup
	for w := 0; w < runtime.NumCPU(); w++ {
		wg.Add(1)
		go func(w int) {
			defer wg.Done()
			for i := w; i < len(rings); i += runtime.NumCPU() {
				owners[i] = refOwners(rings[i].nodes, ks)
			}
		}(w)
	}
	wg.Wait()
	keysDigest := digest(strings.Join(ks.strs, "\n"))
	// the two lookups of the model (scan per key, table per position) must be the same function
	for ri, rg := range rings {
		if !rg.canon {
			continue
		}
		r, _ := ref.NewRing(rg.nodes)
		table := r.OwnerTable()
		for p := 0; p < 65536; p++ {
			if (p%97 == 0 || p < 2 || p > 65533) && int(table[p]) != r.OwnerAt(uint16(p)) {
				return fmt.Sprintf("ref.Ring: OwnerTable and OwnerAt disagree at position %d for %v", p, rg.nodes), "model"
			}
		}
		for i, k := range ks.strs {
			if byte('0'+table[ks.pos[i]]) != owners[ri][i] {
				return fmt.Sprintf("ref.Ring: OwnerTable and Owner disagree for key %q and %v", k, rg.nodes), "model"
			}
		}
	}

	var pyOwners []string
	if py, err := exec.LookPath("python3"); err == nil {
		req := map[string]interface{}{"keys": ks.strs}
		var rs [][][]*string
		for _, r := range rings {
			rs = append(rs, pyNodes(r.nodes))
		}
		req["rings"] = rs
		in, _ := json.Marshal(req)
		cmd := exec.Command(py, filepath.Join(kit.Root, "py", "carbon_ring.py"))
		cmd.Stdin = bytes.NewReader(in)
		var stderr bytes.Buffer
		cmd.Stderr = &stderr
		out, err := cmd.Output()
		if err != nil {
			return fmt.Sprintf("py/carbon_ring.py failed: %v %s", err, stderr.String()), "python"
		}
		var res struct {
			Owners []string `json:"owners"`
		}
		if err := json.Unmarshal(out, &res); err != nil || len(res.Owners) != len(rings) {
			return fmt.Sprintf("py/carbon_ring.py: unusable answer (%v)", err), "python"
		}
		pyOwners = res.Owners
		for i, r := range rings {
			if pyOwners[i] != owners[i] {
				for k := range ks.strs {
					if k >= len(pyOwners[i]) || pyOwners[i][k] != owners[i][k] {
						return fmt.Sprintf("reference model ref/ring.go disagrees with the Python transcription of Carbon: nodes %v key %q (position %d): ref says node %c, Python says %s", r.nodes, ks.strs[k], ks.pos[k], owners[i][k], pyOwners[i][k:k+1]), "python"
					}
				}
			}
		}
		mode = "python3 py/carbon_ring.py, live"
	} else {
		mode = "committed vectors only (python3 not found)"
	}

	if os.Getenv("C15_WRITE_VECTORS") == "1" {
		if pyOwners == nil {
			return "C15_WRITE_VECTORS=1 needs python3", mode
		}
		v := vectors{Comment: "generated by C15_WRITE_VECTORS=1 ./check C15 quick from py/carbon_ring.py (a transcription of carbon 0.9.x hashing.py): per (server, instance) set, sha256 over one character per key (the index of get_node(key) in the node list) for the keys of the check (all strings up to 4 over {a,b,c,.} and the ring-position probes of both alphabets, in the order the check generates them)", Replicas: ref.RingReplicas, NKeys: len(ks.strs), KeysDigest: keysDigest}
		for i, r := range rings {
			if r.canon {
				v.Sets = append(v.Sets, vecSet{r.al.name, pyNodes(r.nodes), digest(pyOwners[i])})
			}
			if r.canon && len(r.nodes) == 3 && len(v.Examples) < 6 && i%37 == 0 {
				v.Examples = append(v.Examples, vecExample{pyNodes(r.nodes), ks.strs[:40], pyOwners[i][:40]})
			}
		}
		b, _ := json.MarshalIndent(v, "", " ")
		if err := os.WriteFile(filepath.Join(kit.Root, vectorsPath), append(b, '\n'), 0o644); err != nil {
			return err.Error(), mode
		}
	}

	b, err := os.ReadFile(filepath.Join(kit.Root, vectorsPath))
	if err != nil {
		return "cannot read " + vectorsPath + ": " + err.Error(), mode
	}
	var v vectors
	if err := json.Unmarshal(b, &v); err != nil {
		return vectorsPath + ": " + err.Error(), mode
	}
	if v.KeysDigest != keysDigest || v.NKeys != len(ks.strs) {
		return vectorsPath + " was generated for another key list; regenerate it with C15_WRITE_VECTORS=1 ./check C15 quick", mode
	}
	j := 0
	for i, r := range rings {
		if !r.canon {
			continue
		}
		if j >= len(v.Sets) {
			return vectorsPath + " has too few sets", mode
		}
		a, _ := json.Marshal(v.Sets[j].Nodes)
		bb, _ := json.Marshal(pyNodes(r.nodes))
		if string(a) != string(bb) {
			return fmt.Sprintf("%s: set %d is %s, expected %s", vectorsPath, j, a, bb), mode
		}
		if v.Sets[j].Digest != digest(owners[i]) {
			return fmt.Sprintf("reference model ref/ring.go disagrees with the committed Carbon vectors for nodes %v", r.nodes), mode
		}
		j++
	}
	for _, ex := range v.Examples {
		var ns []ref.RingNode
		for _, n := range ex.Nodes {
			x := ref.RingNode{Host: *n[0]}
			if n[1] != nil {
				x.Inst, x.HasInst = *n[1], true
			}
			ns = append(ns, x)
		}
		if got := refOwners(ns, newKeyset(ex.Keys)); got != ex.Owners {
			return fmt.Sprintf("reference model ref/ring.go disagrees with the committed example for nodes %v: %s vs %s", ns, got, ex.Owners), mode
		}
	}
	return "", mode
}

// ---------------------------------------------------------------------------
// real routes

var infra string

var phases = map[string]float64{}

func timed(name string, f func()) {
	t0 := time.Now()
	f()
	phases[name] = time.Since(t0).Seconds()
}

// quiesce yields until at most target goroutines exist, for a bounded number
// of rounds. It is best effort, and nothing that is checked depends on it:
// runtime.NumGoroutine is not an exact counter while goroutines come and go,
// and a connection attempt that is still in flight when its destination is
// shut down merely stays blocked (one goroutine), like the goroutine a
// shut-down destination leaves behind to drain its input channel.
func quiesce(target int) {
	for i := 0; i < 264 && runtime.NumGoroutine() > target; i++ {
		if i < 64 {
			runtime.Gosched()
		} else {
			time.Sleep(20 * time.Microsecond)
		}
	}
}

type member struct {
	node int
	addr string
	d    *destination.Destination
}

// live is a running ConsistentHashing route plus the harness's own record of
// which destination objects it was given, in API order.
type live struct {
	al       *alphabet
	r        *route.ConsistentHashing
	members  []member
	base     int // goroutines before the route's destinations were started
	panicMsg string
	broken   bool
}

func realDest(addr string) *destination.Destination {
	d, err := destination.New("c15", matcher.Matcher{}, addr, "/tmp/verif-nospool", false, false, time.Second, time.Hour, 10, 1000, 10, 1000, 1000, time.Second, 0, 0)
	if err != nil {
		panic(err)
	}
	return d
}

func drops(d *destination.Destination) int64 {
	return harn.Count("dest=" + d.Key + ".unit=Metric.action=drop.reason=conn_down_no_spool")
}

func startLive(al *alphabet, nodes []int, addrs []string) *live {
	l := &live{al: al, base: runtime.NumGoroutine()}
	var ds []*destination.Destination
	for i, a := range addrs {
		d := realDest(a)
		ds = append(ds, d)
		l.members = append(l.members, member{nodes[i], a, d})
	}
	r, err := route.NewConsistentHashing("c15", matcher.Matcher{}, ds)
	if err != nil {
		panic(err)
	}
	l.r = r.(*route.ConsistentHashing)
	started(l.base, ds...)
	return l
}

// started gives the connection attempts of the destinations that were started
// since the goroutine count was b the time to end (no port: dial error, port
// 1: refused): each relay loop answers a Flush (so it is running and has
// spawned its one attempt), then only the relay loops should be left over b.
// Shutting a destination down while its attempt is still in flight leaves
// that goroutine blocked for ever; this keeps such leftovers rare.
func started(b int, ds ...*destination.Destination) {
	for _, d := range ds {
		d.Flush()
	}
	quiesce(b + len(ds))
}

// add and del return a non-nil error when the API call fails or panics; after
// a panic the route is in an unknown state and must be abandoned (l.broken).
func (l *live) add(node int, addr string) (err error) {
	d := realDest(addr)
	b := runtime.NumGoroutine()
	defer func() {
		if p := recover(); p != nil {
			l.broken = true
			err = fmt.Errorf("panic: %v", p)
		}
	}()
	l.r.Add(d)
	l.members = append(l.members, member{node, addr, d})
	started(b, d)
	return nil
}

func (l *live) del(index int) (err error) {
	defer func() {
		if p := recover(); p != nil {
			l.broken = true
			err = fmt.Errorf("panic: %v", p)
		}
	}()
	if err := l.r.DelDestination(index); err != nil {
		return err
	}
	l.members = append(append([]member(nil), l.members[:index]...), l.members[index+1:]...)
	return nil
}

func (l *live) shutdown() {
	if l.broken {
		// some destinations may already be shut down and would block a second Shutdown: leave the rest running
		return
	}
	l.r.Shutdown()
}

func (l *live) addrs() []string {
	var out []string
	for _, m := range l.members {
		out = append(out, m.addr)
	}
	return out
}

func (l *live) nodeSet() []ref.RingNode {
	var out []ref.RingNode
	for _, m := range l.members {
		out = append(out, l.al.nodes[m.node])
	}
	return out
}

// observe dispatches one line per key and returns, per key, the member whose
// conn_down_no_spool counter accounted for it (-1: none, -2: more than one,
// -3: Dispatch panicked).
// predict (the reference owner) only decides which destination is flushed
// first; whenever that one did not count exactly one more line, all are
// flushed and examined. At the end all are flushed and every counter must
// show exactly the lines attributed to it, so a line that reached a second
// destination as well cannot go unnoticed (extra != "").
func (l *live) observe(keys []string, predict []int) (owner []int, extra string) {
	n := len(l.members)
	exp := make([]int64, n)
	for j, m := range l.members {
		exp[j] = drops(m.d)
	}
	owner = make([]int, len(keys))
	for i, k := range keys {
		line := []byte(k + " 1 2")
		p := predict[i]
		if pan := safeDispatch(l.r, line); pan != nil {
			owner[i] = -3
			if l.panicMsg == "" {
				l.panicMsg = fmt.Sprint(pan)
			}
			continue
		}
		if p >= 0 && p < n {
			l.members[p].d.Flush()
			if drops(l.members[p].d)-exp[p] == 1 {
				exp[p]++
				owner[i] = p
				continue
			}
		}
		owner[i] = -1
		for j, m := range l.members {
			m.d.Flush()
			if delta := drops(m.d) - exp[j]; delta != 0 {
				if delta == 1 && owner[i] == -1 {
					owner[i] = j
				} else {
					owner[i] = -2
				}
				exp[j] += delta
			}
		}
	}
	for j, m := range l.members {
		m.d.Flush()
		if delta := drops(m.d) - exp[j]; delta != 0 {
			extra += fmt.Sprintf("destination %s counted %d lines more than the %d single deliveries observed; ", m.addr, delta, len(keys))
		}
	}
	return owner, extra
}

// keysFor: the keys on and around every position of set's ring that is shared
// by two nodes (the tie-breaks), the keys around the first and last entry (the
// wrap-around), then a window of the general key list that rotates with salt.
func keysFor(r *ref.Ring, general []string, n int, salt int) []string {
	seen := map[string]bool{}
	var out []string
	put := func(s string) {
		if !seen[s] && len(out) < n {
			seen[s] = true
			out = append(out, s)
		}
	}
	for _, t := range r.Ties() {
		put(cover[t-1])
		put(cover[t])
		put(cover[t+1])
	}
	lo, hi := uint16(65535), uint16(0)
	for i := range r.Nodes {
		for _, p := range r.Positions(i) {
			if p < lo {
				lo = p
			}
			if p > hi {
				hi = p
			}
		}
	}
	for _, p := range []uint16{0, lo, lo + 1, hi, hi + 1, 65535} {
		put(cover[p])
	}
	for i := 0; len(out) < n && i < len(general); i++ {
		put(general[(salt*131+i)%len(general)])
	}
	return out
}

func partR(al *alphabet, general []string, every int, nkeys int, deadline time.Time) (complete bool) {
	ringNo := 0
	sampled := 0
	for si, set := range al.sets(4) {
		rr, err := ref.NewRing(al.nodesOf(set))
		if err != nil {
			panic(err)
		}
		for pi, perm := range perms(set) {
			members := make([]int, len(set))
			for i, p := range perm {
				members[i] = set[p]
			}
			for _, fc := range formChoices(al, members) {
				ringNo++
				if len(set) > 2 && ringNo%every != 0 {
					continue
				}
				if time.Now().After(deadline) || infra != "" {
					return false
				}
				addrs := addrsOf(al, members, fc)
				keys := keysFor(rr, general, nkeys, ringNo)
				predict := make([]int, len(keys))
				want := make([]int, len(keys)) // position in members
				inv := make([]int, len(set))
				for i, p := range perm {
					inv[p] = i
				}
				for i, k := range keys {
					want[i] = inv[rr.Owner(k)]
					predict[i] = want[i]
				}
				l := startLive(al, members, addrs)
				got, extra := l.observe(keys, predict)
				l.shutdown()
				order := int64(si)*1000000 + int64(pi)*1000 + int64(ringNo%1000)
				owned := make([]int, len(set))
				reported := false
				for i, k := range keys {
					if got[i] >= 0 {
						owned[got[i]]++
					}
					if reported || (got[i] >= 0 && got[i] == want[i]) {
						continue
					}
					reported = true // one failing line per ring
					switch {
					case got[i] < 0:
						coll.add(bad{order, "route-once", fmt.Sprintf("route %v key %s once", addrs, k),
							fmt.Sprintf("route with destinations %v: the line %q was %s", addrs, k+" 1 2", deliveryWord(got[i], l.panicMsg)),
							map[string]interface{}{"part": "R", "destinations": addrs, "key": k}})
					case got[i] != want[i]:
						coll.add(bad{order, "route-carbon", fmt.Sprintf("route %v key %s", addrs, k),
							fmt.Sprintf("route with destinations %v: line %q (ring position %d) was delivered to %s, Carbon's ring sends it to %s", addrs, k+" 1 2", ref.RingPosition(k), addrs[got[i]], addrs[want[i]]),
							map[string]interface{}{"part": "R", "destinations": addrs, "key": k, "got": addrs[got[i]], "carbon": addrs[want[i]]}})
					}
				}
				if extra != "" {
					coll.add(bad{order, "route-extra", fmt.Sprintf("route %v extra deliveries", addrs), fmt.Sprintf("route with destinations %v: %s", addrs, extra),
						map[string]interface{}{"part": "R", "destinations": addrs, "keys": keys}})
				}
				tal.evals += int64(len(keys))
				tal.rings["R/"+al.name]++
				split := len(set) >= 2
				for _, o := range owned {
					if o == 0 {
						split = false
					}
				}
				if split {
					tal.nontrivial++
				}
				if len(set) == 3 && sampled < 2 {
					sampled++
					var to []string
					for _, g := range got[:6] {
						if g >= 0 {
							to = append(to, addrs[g])
						} else {
							to = append(to, deliveryWord(g, l.panicMsg))
						}
					}
					tal.sample(map[string]interface{}{"part": "R", "destinations": addrs, "keys": len(keys), "first_keys": keys[:6], "delivered_to": to, "lines_per_destination": owned})
				}
			}
		}
	}
	return true
}

// ---------------------------------------------------------------------------
// part L: destinations whose endpoint answers. The connection comes up asynchronously and the
// relay loop re-runs its connection set-up on its own (start-up, reconnects); none of that may change
// the (host, instance) identity the ring is built from. For every ordered selection of 2..3 out of four
// nodes on one live loopback endpoint: ring == Carbon's ring once all are online, after removing each
// index, and after adding the node left out (every one of these rebuilds the ring).

func partL(keys []string) (infra string) {
	ln, err := net.Listen("tcp", "127.0.0.1:0")
	if err != nil {
		return "part L: listen: " + err.Error()
	}
	defer ln.Close()
	go func() {
		for {
			c, err := ln.Accept()
			if err != nil {
				return
			}
			go io.Copy(io.Discard, c)
		}
	}()
	// a second endpoint: the address a destination is moved to by "modDest <route> <i> addr=..."
	ln2, err := net.Listen("tcp", "127.0.0.1:0")
	if err != nil {
		return "part L: listen: " + err.Error()
	}
	defer ln2.Close()
	go func() {
		for {
			c, err := ln2.Accept()
			if err != nil {
				return
			}
			go io.Copy(io.Discard, c)
		}
	}()
	insts := []string{"a", "b", "", "c", "z", "y"} // node 4 (instance z) lives on the second endpoint; node 5 (instance y) is only ever the target of an instance-only address update
	node := func(i int) ref.RingNode {
		return ref.RingNode{Host: "127.0.0.1", Inst: insts[i], HasInst: insts[i] != ""}
	}
	addr := func(i int) string {
		if i == 4 {
			return ln2.Addr().String() + ":" + insts[i]
		}
		if insts[i] == "" {
			return ln.Addr().String()
		}
		return ln.Addr().String() + ":" + insts[i]
	}
	online := func(ds ...*destination.Destination) bool {
		// barrier, not an oracle: Flush is answered by the relay loop, which also owns Online
		limit := time.Now().Add(300 * time.Second)
		for _, d := range ds {
			for d.Flush(); !d.Online; d.Flush() {
				if time.Now().After(limit) {
					return false
				}
				time.Sleep(time.Millisecond)
			}
		}
		return true
	}
	var order int64 = 1 << 40
	compare := func(r *route.ConsistentHashing, members []int, what string) {
		var nodes []ref.RingNode
		for _, m := range members {
			nodes = append(nodes, node(m))
		}
		ring, err := ref.NewRing(nodes)
		if err != nil {
			panic(err)
		}
		nbad := 0
		for _, k := range keys {
			idx, pan := func() (i int, p interface{}) {
				defer func() { p = recover() }()
				return route.VerifHasherIndex(r, []byte(k)), nil
			}()
			tal.mu.Lock()
			tal.evals++
			tal.mu.Unlock()
			want := ring.Owner(k)
			if pan != nil || idx != want {
				nbad++
				if nbad == 1 {
					order++
					got := fmt.Sprint(pan)
					if pan == nil && idx >= 0 && idx < len(members) {
						got = node(members[idx]).String()
					} else if pan == nil {
						got = fmt.Sprintf("index %d", idx)
					}
					coll.add(bad{order, "live", fmt.Sprintf("live %s key %s", what, k),
						fmt.Sprintf("connected destinations, %s: key %q goes to %s, Carbon's ring over the configured (host, instance) pairs sends it to %s", what, k, got, node(members[want])),
						map[string]interface{}{"part": "L", "case": what, "key": k}})
				}
			}
		}
		tal.mu.Lock()
		tal.nontrivial++
		tal.mu.Unlock()
	}
	for _, n := range []int{2, 3} {
		for _, cmb := range combos(4, n) {
			for _, perm := range perms(cmb) {
				for variant := 0; variant <= 4*n; variant++ { // remove index variant; variant == n: add the first node left out; n+1..2n: move destination variant-n-1 to the second endpoint; 2n+1..3n: give destination variant-2n-1 another instance on the same endpoint; 3n+1..4n: take its instance away
					var ds []*destination.Destination
					for _, m := range perm {
						ds = append(ds, realDest(addr(m)))
					}
					rr, err := route.NewConsistentHashing("c15l", matcher.Matcher{}, ds)
					if err != nil {
						panic(err)
					}
					r := rr.(*route.ConsistentHashing)
					if !online(ds...) {
						return fmt.Sprintf("part L: a destination did not come online on loopback within 300 s (site 1, selection %v variant %d)", perm, variant)
					}
					members := append([]int(nil), perm...)
					desc := fmt.Sprintf("destinations %v", func() (o []string) {
						for _, m := range members {
							o = append(o, node(m).String())
						}
						return
					}())
					if variant == 0 {
						compare(r, members, desc+" once online")
					}
					// the ring a dispatcher may already hold must not change under it: its answers are
					// recorded before the change and asked again afterwards
					heldRing := route.VerifHasher(r)
					heldAns := make([]int, len(keys))
					for i, k := range keys {
						heldAns[i] = heldRing.GetDestinationIndex([]byte(k))
					}
					checkHeld := func(what string) {
						for i, k := range keys {
							got, pan := func() (g int, p interface{}) {
								defer func() { p = recover() }()
								return heldRing.GetDestinationIndex([]byte(k)), nil
							}()
							if pan != nil || got != heldAns[i] {
								order++
								coll.add(bad{order, "live-held", fmt.Sprintf("live held ring %s key %s", what, k),
									fmt.Sprintf("connected destinations, %s: the ring published before the change now answers %v (panic %v) for key %q, it answered %d before: a ring that dispatchers may hold was modified in place", what, got, pan, k, heldAns[i]),
									map[string]interface{}{"part": "L", "case": what, "key": k}})
								return
							}
						}
					}
					if variant > 2*n {
						j, to := variant-2*n-1, 5
						if variant > 3*n {
							j, to = variant-3*n-1, 2
						}
						if err := r.UpdateDestination(j, map[string]string{"addr": addr(to)}); err != nil {
							return "part L: UpdateDestination: " + err.Error()
						}
						if !online(ds[j]) {
							return fmt.Sprintf("part L: a destination did not come online on loopback within 300 s (%s, instance-only update of %d to %q)", desc, j, insts[to])
						}
						members[j] = to
						dup := false // the update may produce a (host, instance) pair another destination already has: not a configuration the property speaks about
						for i, m := range members {
							dup = dup || (i != j && m == to)
						}
						if !dup {
							compare(r, members, fmt.Sprintf("%s after UpdateDestination(%d, addr=<same endpoint>:%s)", desc, j, insts[to]))
							checkHeld(fmt.Sprintf("%s after UpdateDestination(%d, instance only)", desc, j))
						}
					} else if variant > n {
						j := variant - n - 1
						if err := r.UpdateDestination(j, map[string]string{"addr": addr(4)}); err != nil {
							return "part L: UpdateDestination: " + err.Error()
						}
						if !online(ds[j]) {
							return fmt.Sprintf("part L: a destination did not come online on loopback within 300 s (site 2, %s)", desc)
						}
						members[j] = 4
						compare(r, members, fmt.Sprintf("%s after UpdateDestination(%d, addr=<second endpoint>:z)", desc, j))
						checkHeld(fmt.Sprintf("%s after UpdateDestination(%d)", desc, j))
					} else if variant < n {
						if err := r.DelDestination(variant); err != nil {
							panic(err)
						}
						members = append(members[:variant:variant], members[variant+1:]...)
						compare(r, members, fmt.Sprintf("%s after DelDestination(%d)", desc, variant))
						checkHeld(fmt.Sprintf("%s after DelDestination(%d)", desc, variant))
					} else {
						left := -1
						for c := 0; c < 4 && left < 0; c++ {
							in := false
							for _, m := range perm {
								in = in || m == c
							}
							if !in {
								left = c
							}
						}
						d := realDest(addr(left))
						r.Add(d)
						members = append(members, left)
						if !online(d) {
							return fmt.Sprintf("part L: a destination did not come online on loopback within 300 s (site 3, %s)", desc)
						}
						compare(r, members, fmt.Sprintf("%s after Add(%s)", desc, node(left)))
						checkHeld(fmt.Sprintf("%s after Add(%s)", desc, node(left)))
					}
					r.Shutdown()
				}
			}
		}
	}
	tal.sample(map[string]interface{}{"part": "L", "what": "ordered selections of 2..3 of {127.0.0.1/a, /b, /-, /c} connected to a live loopback endpoint; ring compared with Carbon's once online, after every DelDestination(i), after Add, after every UpdateDestination(i, addr=<second endpoint with instance z>), and after every UpdateDestination(i, addr=<same endpoint> with another instance / without instance)", "keys": len(keys)})
	return ""
}

// part E: histories of Add / DelDestination

type hop struct {
	add   bool
	node  int // add: universe node
	form  int
	index int // del: index in the route
}

type hmember struct{ node, form int }

func hopString(al *alphabet, o hop) string {
	if o.add {
		return "+" + al.forms[o.node][o.form]
	}
	return fmt.Sprintf("-%d", o.index)
}

func histString(al *alphabet, start []hmember, ops []hop) string {
	var s []string
	for _, m := range start {
		s = append(s, al.forms[m.node][m.form])
	}
	var o []string
	for _, x := range ops {
		o = append(o, hopString(al, x))
	}
	return "start=[" + strings.Join(s, " ") + "] ops=[" + strings.Join(o, " ") + "]"
}

func partE(al *alphabet, universe []int, general []string, depth int, maxStart int, nkeys int, deadline time.Time) (complete bool, histories int, total int) {
	// fixed key list: every tie of the universe's ring and its surroundings, the wrap-around, general keys
	ur, err := ref.NewRing(al.nodesOf(universe))
	if err != nil {
		panic(err)
	}
	keys := keysFor(ur, general, nkeys, 0)

	var starts [][]hmember
	for k := 1; k <= maxStart; k++ {
		for _, c := range combos(len(universe), k) {
			for _, perm := range perms(c) {
				var s []hmember
				for _, p := range perm {
					s = append(s, hmember{universe[c[p]], 0})
				}
				starts = append(starts, s)
			}
		}
	}
	avail := func(state []hmember) []hop {
		var out []hop
		for _, u := range universe {
			present := false
			for _, m := range state {
				if m.node == u {
					present = true
				}
			}
			if !present {
				for f := range al.forms[u] {
					out = append(out, hop{add: true, node: u, form: f})
				}
			}
		}
		if len(state) > 1 {
			for i := range state {
				out = append(out, hop{index: i})
			}
		}
		return out
	}
	apply := func(state []hmember, o hop) []hmember {
		if o.add {
			return append(append([]hmember(nil), state...), hmember{o.node, o.form})
		}
		return append(append([]hmember(nil), state[:o.index]...), state[o.index+1:]...)
	}
	type hist struct {
		start []hmember
		ops   []hop
	}
	var hists []hist
	for _, s := range starts {
		var rec func(state []hmember, ops []hop)
		rec = func(state []hmember, ops []hop) {
			if len(ops) > 0 {
				hists = append(hists, hist{s, append([]hop(nil), ops...)})
			}
			if len(ops) == depth {
				return
			}
			for _, o := range avail(state) {
				rec(apply(state, o), append(ops, o))
			}
		}
		rec(s, nil)
	}
	sort.SliceStable(hists, func(i, j int) bool { return len(hists[i].ops) < len(hists[j].ops) })

	// what the reference says for a member list: owner as a universe node
	refNodes := func(l *live) []int {
		r, err := ref.NewRing(l.nodeSet())
		if err != nil {
			panic(err)
		}
		out := make([]int, len(keys))
		for i, k := range keys {
			out[i] = r.Owner(k) // index into l.members
		}
		return out
	}
	sampled := 0
	for hi, h := range hists {
		if time.Now().After(deadline) || infra != "" {
			return false, hi, len(hists)
		}
		hs := histString(al, h.start, h.ops)
		var nodes []int
		var addrs []string
		for _, m := range h.start {
			nodes = append(nodes, m.node)
			addrs = append(addrs, al.forms[m.node][m.form])
		}
		l := startLive(al, nodes, addrs)
		do := func(o hop) bool {
			var err error
			call := ""
			if o.add {
				call = "Add(" + al.forms[o.node][o.form] + ")"
				err = l.add(o.node, al.forms[o.node][o.form])
			} else {
				call = fmt.Sprintf("DelDestination(%d)", o.index)
				err = l.del(o.index)
			}
			if err != nil {
				coll.add(bad{int64(hi), "history-api", "history " + hs + " " + call, fmt.Sprintf("history %s: %s failed: %v", hs, call, err), map[string]interface{}{"part": "E", "history": hs}})
				return false
			}
			return true
		}
		ok := true
		for _, o := range h.ops[:len(h.ops)-1] {
			ok = ok && do(o)
		}
		if !ok {
			l.shutdown()
			continue
		}
		// observation around the last step, on the same running route
		check := func(when string) []int {
			want := refNodes(l)
			got, extra := l.observe(keys, want)
			owners := make([]int, len(keys)) // universe node, -1 unknown
			reported := false
			for i, k := range keys {
				owners[i] = -1
				if got[i] >= 0 {
					owners[i] = l.members[got[i]].node
				}
				if reported {
					continue
				}
				switch {
				case got[i] < 0:
					reported = true
					coll.add(bad{int64(hi), "history-once", fmt.Sprintf("history %s %s key %s once", hs, when, k),
						fmt.Sprintf("history %s, %s the last step (destinations now %v): the line %q was %s", hs, when, l.addrs(), k+" 1 2", deliveryWord(got[i], l.panicMsg)),
						map[string]interface{}{"part": "E", "history": hs, "when": when, "key": k}})
				case got[i] != want[i]:
					reported = true
					coll.add(bad{int64(hi), "history-carbon", fmt.Sprintf("history %s %s key %s", hs, when, k),
						fmt.Sprintf("history %s, %s the last step (destinations now %v): line %q (ring position %d) was delivered to %s, Carbon's ring for this set sends it to %s", hs, when, l.addrs(), k+" 1 2", ref.RingPosition(k), l.members[got[i]].addr, l.members[want[i]].addr),
						map[string]interface{}{"part": "E", "history": hs, "when": when, "key": k, "got": l.members[got[i]].addr, "carbon": l.members[want[i]].addr}})
				}
			}
			if extra != "" {
				coll.add(bad{int64(hi), "history-extra", fmt.Sprintf("history %s %s extra deliveries", hs, when), fmt.Sprintf("history %s, %s the last step: %s", hs, when, extra), map[string]interface{}{"part": "E", "history": hs, "when": when}})
			}
			tal.evals += int64(len(keys))
			return owners
		}
		before := check("before")
		last := h.ops[len(h.ops)-1]
		removed := -1
		if !last.add {
			removed = l.members[last.index].node
		}
		if !do(last) {
			l.shutdown()
			continue
		}
		after := check("after")
		l.shutdown()
		moved, movedOK := 0, true
		for i, k := range keys {
			if before[i] < 0 || after[i] < 0 || before[i] == after[i] {
				continue
			}
			moved++
			if last.add && after[i] != last.node && movedOK {
				movedOK = false
				coll.add(bad{int64(hi), "disruption", fmt.Sprintf("history %s disruption key %s", hs, k),
					fmt.Sprintf("history %s: adding %s moved key %q from %s to %s, which is not the added destination", hs, al.forms[last.node][last.form], k, al.nodes[before[i]], al.nodes[after[i]]),
					map[string]interface{}{"part": "E", "history": hs, "key": k}})
			}
			if !last.add && before[i] != removed && movedOK {
				movedOK = false
				coll.add(bad{int64(hi), "disruption", fmt.Sprintf("history %s disruption key %s", hs, k),
					fmt.Sprintf("history %s: removing destination %d (%s) moved key %q from %s to %s although the removed destination did not own it", hs, last.index, al.nodes[removed], k, al.nodes[before[i]], al.nodes[after[i]]),
					map[string]interface{}{"part": "E", "history": hs, "key": k}})
			}
		}
		if moved > 0 && moved < len(keys) {
			tal.nontrivial++
		}
		if len(h.ops) == depth && sampled < 2 && hi%97 == 0 {
			sampled++
			tal.sample(map[string]interface{}{"part": "E", "history": hs, "keys": len(keys), "keys_moved_by_last_step": moved})
		}
	}
	return true, len(hists), len(hists)
}

// ---------------------------------------------------------------------------

func main() {
	rep = kit.New("C15", "exploration")
	log.SetLevel(log.PanicLevel)
	log.SetOutput(io.Discard)
	rep.Quiet()
	aggregator.InitMetrics()

	// a stuck run must not hang its caller: dump the goroutines and stop as an infrastructure error
	limit := 12 * time.Minute
	if rep.Thorough() {
		limit = 45 * time.Minute
	}
	time.AfterFunc(limit, func() {
		pprof.Lookup("goroutine").WriteTo(os.Stderr, 1)
		fmt.Fprintf(rep.Out, "INFRA-ERROR property=C15 still running after %v\n", limit)
		os.Exit(2)
	})
	timed("keys", buildKeys)
	general := newKeyset(baseKeys, probes(alphA), probes(alphB))

	// the reference first: it must agree with Carbon (Python transcription / vectors)
	// (fewer keys than part H uses: the ring-position probes decide the ring's shape, the Python side is slow)
	pyKeys := newKeyset(baseKeys[:340], probes(alphA), probes(alphB))
	type sc struct{ problem, mode string }
	scCh := make(chan sc, 1)
	go func() {
		t0 := time.Now()
		p, m := selfCheck(pyKeys, []*alphabet{alphA, alphB})
		m += fmt.Sprintf(" (%.1fs, concurrent with part H)", time.Since(t0).Seconds())
		scCh <- sc{p, m}
	}()

	// quick: part H pass 0 only (all forms up to 3 destinations, uniform forms for 4) on the general keys.
	// thorough: pass 0 on the general keys plus one key for every ring position, and pass 1 (the mixed
	// address forms of the 4-destination rings) on the general keys.
	hkeys := general
	var mixedKeys *keyset
	maxDest, allForms := 4, 3
	every, rkeys := 10, 200
	depth, maxStart, ekeys := 2, 2, 64
	hBudget, budget := 60*time.Second, 15*time.Second
	if rep.Thorough() {
		hkeys = newKeyset(baseKeys, probes(alphA), probes(alphB), coverKeys())
		mixedKeys = general
		every, rkeys = 1, 200
		depth, maxStart, ekeys = 3, 3, 96
		hBudget, budget = 4*time.Minute, 3*time.Minute
	}
	hDone := map[string][2]int{}
	hComplete := true
	for _, al := range []*alphabet{alphA, alphB} {
		al := al
		timed("H/"+al.name, func() {
			d, t := partH(al, hkeys, mixedKeys, maxDest, allForms, time.Now().Add(hBudget))
			hDone[al.name] = [2]int{d, t}
			hComplete = hComplete && d == t
		})
	}

	res := <-scCh
	if res.problem != "" {
		rep.Infra = "reference self-check failed: " + res.problem
		rep.Finish(map[string]interface{}{})
	}

	// parts R and E each get a budget of their own, counted from their start; both go simplest first
	var rComplete, eComplete bool
	var nh, nhAll int
	timed("R", func() { rComplete = partR(alphB, general.strs, every, rkeys, time.Now().Add(budget)) })
	// the universe of the histories: five nodes of alphabet B with four position ties among them
	universe := []int{3, 4, 6, 7, 8} // 127.0.0.2/-, 127.0.0.2/a, 127.0.0.3/-, 127.0.0.3/a, 127.0.0.3/b
	timed("E", func() {
		eComplete, nh, nhAll = partE(alphB, universe, general.strs, depth, maxStart, ekeys, time.Now().Add(budget))
	})
	timed("L", func() {
		lk := general.strs
		if !rep.Thorough() && len(lk) > 3000 {
			lk = lk[:3000]
		}
		if li := partL(lk); li != "" && infra == "" {
			infra = li
		}
	})
	if infra != "" {
		rep.Infra = infra
	}
	coll.report()

	rep.Assume = []string{
		"destination alphabet: hosts {h1,h2,h3} (A) and {127.0.0.1,127.0.0.2,127.0.0.3} (B) x instance {none,a,b}; instance names are non-empty (carbon reads 'host:port:' as the instance '' while carbon-relay-ng reads it as no instance; outside the enumerated space)",
		"real destinations (alphabet B) dial nothing that answers: no port = dial error, port 1 = refused; spool off; every line is accounted for by exactly one conn_down_no_spool counter; barrier: Destination.Flush",
		"the reference ring ref/ring.go is checked against the Python transcription of carbon's hashing.py at run time when python3 exists, and against mc/props/c15/vectors.json always: " + res.mode,
		fmt.Sprintf("keys: all %d strings up to 6 over {a,b,c,.}; for every replica position p of every node a key at p-1, p, p+1, and at 0 and 65535 (found by search, shortest first)%s", len(baseKeys), map[bool]string{true: "; thorough: one key for each of the 65536 ring positions", false: ""}[rep.Thorough()]),
	}
	ringsTotal := int64(0)
	for _, n := range tal.rings {
		ringsTotal += n
	}
	rep.Finish(map[string]interface{}{
		"evaluations":         tal.evals,
		"distinct_nontrivial": tal.nontrivial,
		"rule": fmt.Sprintf("part H: every ordered selection of 1..%d destinations with distinct (host, instance) out of 9, in both alphabets; every assignment of address forms (with/without port) for <= %d destinations and the two uniform assignments for 4, x %d keys%s; owner compared with Carbon's ring and with the first listing of the same set; part R: %s of alphabet B (every form assignment) as a real route, %d keys each (tie and wrap-around keys first); part E: every history of 1..%d Add/DelDestination calls from every ordered start of 1..%d destinations out of 5, %d keys observed before and after the last call. non-trivial = a ring with >= 2 destinations each of which owns at least one of the checked keys, or a history whose last step moved some but not all observed keys",
			maxDest, allForms, len(hkeys.keys), map[bool]string{true: fmt.Sprintf("; the mixed form assignments for 4 destinations x %d keys", len(general.keys)), false: ""}[mixedKeys != nil], map[bool]string{true: "every such ring", false: fmt.Sprintf("every such ring with <= 2 destinations and every %dth other one", every)}[every == 1], rkeys, depth, maxStart, ekeys),
		"samples":                          tal.samples,
		"exhaustive":                       hComplete && rComplete && eComplete,
		"rings":                            tal.rings,
		"rings_total":                      ringsTotal,
		"rings_with_position_ties":         tal.tieRings,
		"evaluations_decided_by_tie_break": tal.tieEvals,
		"histories":                        nh,
		"histories_in_space":               nhAll,
		"sets_done_of_total":               hDone,
		"parts_complete":                   map[string]bool{"H": hComplete, "R": rComplete, "E": eComplete},
		"failures_by_kind":                 coll.count,
		"phase_seconds":                    phases,
	})
}
