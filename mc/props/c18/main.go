// C18: runtime table changes are atomic with respect to traffic.
//
// Two kinds of scenarios, both on the instrumented real table / route /
// destination / aggregator code under the controlled scheduler:
//
//   - "seq": every history of admin operations up to a depth (chosen with
//     vrt.Choose, so the explorer enumerates all of them): after every
//     operation Table.Snapshot() must equal a model table, an index beyond the
//     end must be rejected and change nothing, and a configuration value
//     loaded before the operation must still read the same afterwards
//     (snapshot immutability); finally one metric is dispatched and compared
//     with the reference routing function.
//   - "conc": an admin thread running 1-2 operations in parallel with 1-2
//     dispatchers, interleaved at statement granularity (vrt.YieldG before
//     every statement of Dispatch, the Add*/Del* functions and the route
//     internals), all schedules within the deviation bound. Oracle: what every
//     dispatch caused equals the reference result on some table obtained from
//     the table as it was when the dispatch began by applying a subset (in
//     order) of the admin operations that overlapped it.
package main

import (
	"errors"
	"fmt"
	"sort"
	"strings"
	"time"

	"github.com/grafana/carbon-relay-ng/aggregator"
	"github.com/grafana/carbon-relay-ng/destination"
	"github.com/grafana/carbon-relay-ng/matcher"
	"github.com/grafana/carbon-relay-ng/rewriter"
	"github.com/grafana/carbon-relay-ng/route"
	"github.com/grafana/carbon-relay-ng/table"
	"github.com/grafana/carbon-relay-ng/util"
	"github.com/grafana/carbon-relay-ng/validate"
	m20 "github.com/metrics20/go-metrics20/carbon20"
	log "github.com/sirupsen/logrus"

	"verif/mc/harn"
	"verif/mc/kit"
	"verif/mc/ref"
	"verif/mc/vrt"
	"verif/mc/vrt/vnet"
)

type refuse struct{}

func (refuse) Dial(addr string) (vnet.Endpoint, error) {
	return nil, errors.New("connection refused")
}

// ---------------------------------------------------------------------------
// entities

func blFilter(i int) ref.Filter  { return ref.Filter{Prefix: fmt.Sprintf("x%d", i)} }
func rwModel(i int) ref.Rewriter { return ref.Rewriter{Old: "m", New: fmt.Sprintf("m%d", i), Max: 1} }
func aggFilter(i int) ref.Filter { return ref.Filter{Regex: fmt.Sprintf("^m|^zz%d", i)} }
func capKey(i int) string        { return fmt.Sprintf("K%d", i) }
func destAddr(i int) string      { return fmt.Sprintf("10.0.0.%d:2003", i) }
func destKey(i int) string       { return util.Key("S", destAddr(i)) }

// destFilter: destination 1 of route S starts with a filter that rejects the dispatched names through its
// second condition (sub passes, notSub rejects); the other destinations have none
func destFilter(i int) ref.Filter {
	if i == 1 {
		return ref.Filter{Sub: "m", NotSub: "m"}
	}
	return ref.Filter{}
}

// world is the real table of one execution plus handles on its entities.
type world struct {
	t     *table.Table
	caps  map[string]*harn.Capture
	aggs  map[string]*aggregator.Aggregator // by regex
	dests map[string]*destination.Destination
	base  map[string]int64 // counter values at start
	tick  chan time.Time
}

func mk(f ref.Filter) matcher.Matcher {
	return harn.MustMatcher(f.Prefix, f.NotPrefix, f.Sub, f.NotSub, f.Regex, f.NotRegex)
}

func (w *world) newAgg(i int) *aggregator.Aggregator {
	f := aggFilter(i)
	a, err := aggregator.NewMocked("sum", mk(f), fmt.Sprintf("agg%d", i), false, 10, 5, false, make(chan []byte, 100), 100, vrt.Now, w.tick)
	if err != nil {
		panic(err)
	}
	w.aggs[f.Regex] = a
	if w.base != nil { // created after the start of the run: its counter may carry over from earlier executions
		w.base["agg:"+f.Regex] = harn.Count("unit=Metric.direction=in.aggregator=" + a.Key)
	}
	return a
}

func (w *world) newDest(i int, f ref.Filter) *destination.Destination {
	d, err := destination.New("S", mk(f), destAddr(i), "/nospool", false, false, time.Second, time.Hour, 10, 1000, 10, 1000, 1000, time.Second, 0, 0)
	if err != nil {
		panic(err)
	}
	w.dests[d.Key] = d
	if w.base != nil {
		w.base["dest:"+d.Key] = harn.Count("dest=" + d.Key + ".unit=Metric.action=drop.reason=conn_down_no_spool")
	}
	return d
}

func (w *world) newCap(i int) *harn.Capture {
	if c, ok := w.caps[capKey(i)]; ok {
		return c // the same route object added again: both table entries deliver to it
	}
	c := harn.NewCapture(capKey(i), matcher.Matcher{})
	w.caps[c.K] = c
	return c
}

type shape struct {
	bl, rw, ag, caps, dests int
}

// build creates the real table and the model for a shape.
func build(s shape) (*world, ref.Table) {
	vrt.SetEnv("net", refuse{})
	aggregator.VerifInit()
	w := &world{caps: map[string]*harn.Capture{}, aggs: map[string]*aggregator.Aggregator{}, dests: map[string]*destination.Destination{}, tick: make(chan time.Time)}
	cfg, err := table.NewTableConfig("/nospool", "1h", validate.LevelLegacy{Level: m20.MediumLegacy}, validate.LevelM20{Level: m20.MediumM20}, false)
	if err != nil {
		panic(err)
	}
	w.t = table.New(cfg)
	var model ref.Table
	for i := 0; i < s.bl; i++ {
		m := mk(blFilter(i))
		w.t.AddBlacklist(&m)
		model.Blacklist = append(model.Blacklist, blFilter(i))
	}
	for i := 0; i < s.rw; i++ {
		rw, err := rewriter.New("m", fmt.Sprintf("m%d", i), "", 1)
		if err != nil {
			panic(err)
		}
		w.t.AddRewriter(rw)
		model.Rewriters = append(model.Rewriters, rwModel(i))
	}
	for i := 0; i < s.ag; i++ {
		w.t.AddAggregator(w.newAgg(i))
		model.Aggs = append(model.Aggs, ref.Agg{Filter: aggFilter(i)})
	}
	for i := 0; i < s.caps; i++ {
		w.t.AddRoute(w.newCap(i))
		model.Routes = append(model.Routes, ref.Route{Key: capKey(i), Type: ref.TypeCapture})
	}
	if s.dests > 0 {
		var ds []*destination.Destination
		mr := ref.Route{Key: "S", Type: ref.TypeAll}
		for i := 0; i < s.dests; i++ {
			ds = append(ds, w.newDest(i, destFilter(i)))
			mr.Dests = append(mr.Dests, ref.Dest{Key: destKey(i), Filter: destFilter(i)})
		}
		r, err := route.NewSendAllMatch("S", matcher.Matcher{}, ds)
		if err != nil {
			panic(err)
		}
		w.t.AddRoute(r)
		model.Routes = append(model.Routes, mr)
	}
	vrt.Quiesce()
	w.base = w.counters()
	return w, model
}

func (w *world) counters() map[string]int64 {
	c := map[string]int64{
		"blacklist":  harn.Count("unit=Metric.direction=blacklist"),
		"unroutable": harn.Count("unit=Metric.direction=unroutable"),
	}
	for k := range w.dests {
		c["dest:"+k] = harn.Count("dest=" + k + ".unit=Metric.action=drop.reason=conn_down_no_spool")
	}
	for re, a := range w.aggs {
		c["agg:"+re] = harn.Count("unit=Metric.direction=in.aggregator=" + a.Key)
	}
	return c
}

// ---------------------------------------------------------------------------
// admin operations: the real call and its meaning on the model

type adminOp struct {
	name    string
	real    func(w *world) error
	model   func(t *ref.Table) // applied only when the operation is expected to succeed
	wantErr func(t *ref.Table) bool
}

func delIdx(n, i int) bool { return i >= n }

func ops(s shape) []adminOp {
	var out []adminOp
	never := func(*ref.Table) bool { return false }
	// blacklist
	if s.bl > 0 {
		out = append(out, adminOp{"addBlack(x9)", func(w *world) error { m := mk(blFilter(9)); w.t.AddBlacklist(&m); return nil },
			func(t *ref.Table) { t.Blacklist = append(t.Blacklist, blFilter(9)) }, never})
		for i := 0; i <= s.bl; i++ {
			i := i
			out = append(out, adminOp{fmt.Sprintf("delBlack(%d)", i), func(w *world) error { return w.t.DelBlacklist(i) },
				func(t *ref.Table) {
					t.Blacklist = append(append([]ref.Filter{}, t.Blacklist[:i]...), t.Blacklist[i+1:]...)
				},
				func(t *ref.Table) bool { return delIdx(len(t.Blacklist), i) }})
		}
	}
	if s.rw > 0 {
		out = append(out, adminOp{"addRewriter(m9)", func(w *world) error {
			rw, _ := rewriter.New("m", "m9", "", 1)
			w.t.AddRewriter(rw)
			return nil
		}, func(t *ref.Table) { t.Rewriters = append(t.Rewriters, rwModel(9)) }, never})
		for i := 0; i <= s.rw; i++ {
			i := i
			out = append(out, adminOp{fmt.Sprintf("delRewriter(%d)", i), func(w *world) error { return w.t.DelRewriter(i) },
				func(t *ref.Table) {
					t.Rewriters = append(append([]ref.Rewriter{}, t.Rewriters[:i]...), t.Rewriters[i+1:]...)
				},
				func(t *ref.Table) bool { return delIdx(len(t.Rewriters), i) }})
		}
	}
	if s.ag > 0 {
		out = append(out, adminOp{"addAgg(9)", func(w *world) error { w.t.AddAggregator(w.newAgg(9)); return nil },
			func(t *ref.Table) { t.Aggs = append(t.Aggs, ref.Agg{Filter: aggFilter(9)}) }, never})
		for i := 0; i <= s.ag; i++ {
			i := i
			out = append(out, adminOp{fmt.Sprintf("delAgg(%d)", i), func(w *world) error { return w.t.DelAggregator(i) },
				func(t *ref.Table) { t.Aggs = append(append([]ref.Agg{}, t.Aggs[:i]...), t.Aggs[i+1:]...) },
				func(t *ref.Table) bool { return delIdx(len(t.Aggs), i) }})
		}
	}
	if s.caps > 0 {
		out = append(out, adminOp{"addRoute(K9)", func(w *world) error { w.t.AddRoute(w.newCap(9)); return nil },
			func(t *ref.Table) { t.Routes = append(t.Routes, ref.Route{Key: capKey(9), Type: ref.TypeCapture}) }, never})
		for i := 0; i <= s.caps; i++ {
			key := capKey(i) // i == s.caps: unknown route, documented no-op
			out = append(out, adminOp{"delRoute(" + key + ")", func(w *world) error { return w.t.DelRoute(key) },
				func(t *ref.Table) {
					var rs []ref.Route
					for _, r := range t.Routes {
						if r.Key != key {
							rs = append(rs, r)
						}
					}
					t.Routes = rs
				}, never})
		}
	}
	if s.dests > 0 {
		routeS := func(t *ref.Table) *ref.Route {
			for i := range t.Routes {
				if t.Routes[i].Key == "S" {
					return &t.Routes[i]
				}
			}
			return nil
		}
		out = append(out, adminOp{"addDest(9)", func(w *world) error {
			r := w.t.GetRoute("S")
			if r == nil {
				return errors.New("no route")
			}
			r.(interface {
				Add(*destination.Destination)
			}).Add(w.newDest(9, ref.Filter{}))
			return nil
		}, func(t *ref.Table) {
			r := routeS(t)
			r.Dests = append(append([]ref.Dest{}, r.Dests...), ref.Dest{Key: destKey(9)})
		}, func(t *ref.Table) bool { return routeS(t) == nil }})
		for i := 0; i <= s.dests; i++ {
			i := i
			out = append(out, adminOp{fmt.Sprintf("delDest(S,%d)", i), func(w *world) error { return w.t.DelDestination("S", i) },
				func(t *ref.Table) {
					r := routeS(t)
					r.Dests = append(append([]ref.Dest{}, r.Dests[:i]...), r.Dests[i+1:]...)
				},
				func(t *ref.Table) bool { r := routeS(t); return r == nil || delIdx(len(r.Dests), i) }})
		}
		out = append(out, adminOp{"updateRoute(S,prefix=q)", func(w *world) error { return w.t.UpdateRoute("S", map[string]string{"prefix": "q"}) },
			func(t *ref.Table) { routeS(t).Filter = ref.Filter{Prefix: "q"} },
			func(t *ref.Table) bool { return routeS(t) == nil }})
		out = append(out, adminOp{"updateDest(S,1,prefix=q)", func(w *world) error { return w.t.UpdateDestination("S", 1, map[string]string{"prefix": "q"}) },
			func(t *ref.Table) {
				r := routeS(t)
				ds := append([]ref.Dest{}, r.Dests...)
				f := ds[1].Filter // only the named option changes
				f.Prefix = "q"
				ds[1].Filter = f
				r.Dests = ds
			},
			func(t *ref.Table) bool { r := routeS(t); return r == nil || len(r.Dests) < 2 }})
		// two conditions change at once: a name rejected by the old filter (through notSub) and by the new
		// one (through sub) must stay rejected whichever of the two a dispatcher sees
		out = append(out, adminOp{"updateDest(S,1,sub=q notSub=z)", func(w *world) error {
			return w.t.UpdateDestination("S", 1, map[string]string{"sub": "q", "notSub": "z"})
		},
			func(t *ref.Table) {
				r := routeS(t)
				ds := append([]ref.Dest{}, r.Dests...)
				f := ds[1].Filter
				f.Sub, f.NotSub = "q", "z"
				ds[1].Filter = f
				r.Dests = ds
			},
			func(t *ref.Table) bool { r := routeS(t); return r == nil || len(r.Dests) < 2 }})
		out = append(out, adminOp{"delRoute(S)", func(w *world) error { return w.t.DelRoute("S") },
			func(t *ref.Table) {
				var rs []ref.Route
				for _, r := range t.Routes {
					if r.Key != "S" {
						rs = append(rs, r)
					}
				}
				t.Routes = rs
			}, never})
	}
	return out
}

func cloneTable(t ref.Table) ref.Table {
	c := ref.Table{}
	c.Blacklist = append(c.Blacklist, t.Blacklist...)
	c.Rewriters = append(c.Rewriters, t.Rewriters...)
	c.Aggs = append(c.Aggs, t.Aggs...)
	for _, r := range t.Routes {
		r.Dests = append([]ref.Dest{}, r.Dests...)
		c.Routes = append(c.Routes, r)
	}
	return c
}

// snapshotString renders Table.Snapshot() in the vocabulary of the model.
func snapshotString(t *table.Table) string {
	s := t.Snapshot()
	var bl, rw, ag, ro []string
	for _, b := range s.Blacklist {
		bl = append(bl, b.Prefix)
	}
	for _, r := range s.Rewriters {
		rw = append(rw, r.New)
	}
	for _, a := range s.Aggregators {
		ag = append(ag, a.Matcher.Regex)
	}
	for _, r := range s.Routes {
		var ds []string
		for _, d := range r.Dests {
			ds = append(ds, d.Key+"{"+d.Matcher.Prefix+"}")
		}
		ro = append(ro, r.Key+"{"+r.Matcher.Prefix+"}["+strings.Join(ds, ",")+"]")
	}
	return fmt.Sprintf("bl=%v rw=%v ag=%v ro=%v", bl, rw, ag, ro)
}

func modelString(t ref.Table) string {
	var bl, rw, ag, ro []string
	for _, b := range t.Blacklist {
		bl = append(bl, b.Prefix)
	}
	for _, r := range t.Rewriters {
		rw = append(rw, r.New)
	}
	for _, a := range t.Aggs {
		ag = append(ag, a.Filter.Regex)
	}
	for _, r := range t.Routes {
		var ds []string
		for _, d := range r.Dests {
			ds = append(ds, d.Key+"{"+d.Filter.Prefix+"}")
		}
		ro = append(ro, r.Key+"{"+r.Filter.Prefix+"}["+strings.Join(ds, ",")+"]")
	}
	return fmt.Sprintf("bl=%v rw=%v ag=%v ro=%v", bl, rw, ag, ro)
}

// ---------------------------------------------------------------------------
// observation of dispatches

type obs struct {
	perDispatch []string         // per dispatch: capture routes that got it (with count and name)
	totals      map[string]int64 // counter deltas
}

func (w *world) observe(n int) obs {
	o := obs{totals: map[string]int64{}}
	now := w.counters()
	for k, v := range now {
		if d := v - w.base[k]; d != 0 {
			o.totals[k] = d
		}
	}
	for id := 0; id < n; id++ {
		var parts []string
		keys := make([]string, 0, len(w.caps))
		for k := range w.caps {
			keys = append(keys, k)
		}
		sort.Strings(keys)
		for _, k := range keys {
			for _, l := range w.caps[k].Lines {
				f := strings.Fields(l)
				if len(f) == 3 && f[1] == fmt.Sprint(id) {
					parts = append(parts, k+"<-"+f[0])
				}
			}
		}
		sort.Strings(parts)
		o.perDispatch = append(o.perDispatch, strings.Join(parts, ","))
	}
	return o
}

// expect renders the reference outcome of one dispatch in the same vocabulary.
func expect(t ref.Table, name string) (string, map[string]int64) {
	out := t.Dispatch(name)
	tot := map[string]int64{}
	if out.Blacklist > 0 {
		tot["blacklist"] = 1
	}
	if out.Unroutable > 0 {
		tot["unroutable"] = 1
	}
	for i, seen := range out.AggSeen {
		if seen {
			tot["agg:"+t.Aggs[i].Filter.Regex]++
		}
	}
	var parts []string
	for d, n := range out.Deliveries {
		for k := 0; k < n; k++ {
			if d.Dest == ref.DestOfRoute {
				parts = append(parts, d.Route+"<-"+out.Name)
			} else {
				tot["dest:"+d.Dest]++
			}
		}
	}
	sort.Strings(parts)
	return strings.Join(parts, ","), tot
}

func sameTotals(a, b map[string]int64) bool {
	for k, v := range a {
		if v != 0 && b[k] != v {
			return false
		}
	}
	for k, v := range b {
		if v != 0 && a[k] != v {
			return false
		}
	}
	return true
}

// fluxTables enumerates the tables a dispatch may legitimately have been
// processed against, given the stages the table went through while it ran.
func fluxTables(stages []ref.Table) []ref.Table {
	type slot struct {
		id     string
		states map[string]int // rendered state -> index into vals
		vals   []interface{}  // nil = absent
	}
	var order []string
	slots := map[string]*slot{}
	see := func(id string, st string, val interface{}) {
		sl, ok := slots[id]
		if !ok {
			sl = &slot{id: id, states: map[string]int{}}
			slots[id] = sl
			order = append(order, id)
		}
		if _, ok := sl.states[st]; !ok {
			sl.states[st] = len(sl.vals)
			sl.vals = append(sl.vals, val)
		}
	}
	// first pass: every entry with every state it has in some stage
	for _, t := range stages {
		for _, b := range t.Blacklist {
			see("bl:"+b.Prefix, "p", b)
		}
		for _, r := range t.Rewriters {
			see("rw:"+r.New, "p", r)
		}
		for _, a := range t.Aggs {
			see("ag:"+a.Filter.Regex, "p", a)
		}
		for _, r := range t.Routes {
			rr := r
			rr.Dests = nil
			see("ro:"+r.Key, "p"+r.Filter.String(), rr)
			for _, dd := range r.Dests {
				see("de:"+r.Key+"/"+dd.Key, "p"+dd.Filter.String(), dd)
			}
		}
	}
	// second pass: absence in some stage is a state too
	for _, t := range stages {
		present := map[string]bool{}
		for _, b := range t.Blacklist {
			present["bl:"+b.Prefix] = true
		}
		for _, r := range t.Rewriters {
			present["rw:"+r.New] = true
		}
		for _, a := range t.Aggs {
			present["ag:"+a.Filter.Regex] = true
		}
		for _, r := range t.Routes {
			present["ro:"+r.Key] = true
			for _, dd := range r.Dests {
				present["de:"+r.Key+"/"+dd.Key] = true
			}
		}
		for _, id := range order {
			if !present[id] {
				see(id, "absent", nil)
			}
		}
	}
	var out []ref.Table
	choice := make([]int, len(order))
	var rec func(i int)
	rec = func(i int) {
		if i == len(order) {
			var t ref.Table
			routeIdx := map[string]int{}
			for k, id := range order {
				v := slots[id].vals[choice[k]]
				if v == nil {
					continue
				}
				switch x := v.(type) {
				case ref.Filter:
					t.Blacklist = append(t.Blacklist, x)
				case ref.Rewriter:
					t.Rewriters = append(t.Rewriters, x)
				case ref.Agg:
					t.Aggs = append(t.Aggs, x)
				case ref.Route:
					routeIdx[x.Key] = len(t.Routes)
					t.Routes = append(t.Routes, x)
				case ref.Dest:
					rk := id[3:strings.Index(id, "/")]
					if ri, ok := routeIdx[rk]; ok {
						t.Routes[ri].Dests = append(t.Routes[ri].Dests, x)
					}
				}
			}
			out = append(out, t)
			return
		}
		for c := range slots[order[i]].vals {
			choice[i] = c
			rec(i + 1)
		}
	}
	rec(0)
	return out
}

// ---------------------------------------------------------------------------
// sequential scenario

type seqExec struct {
	shape shape
	depth int
	hist  []string
	viol  string
}

func (e *seqExec) fail(f string, a ...interface{}) {
	if e.viol == "" {
		e.viol = fmt.Sprintf(f, a...)
	}
}

type held struct {
	bl []*matcher.Matcher
	rw []rewriter.RW
	ag []*aggregator.Aggregator
	ro []route.Route
	ds []*destination.Destination
	// copies of the contents at the time the value was loaded
	cbl []*matcher.Matcher
	crw []string
	cag []*aggregator.Aggregator
	cro []route.Route
	cds []*destination.Destination
}

func hold(w *world) held {
	var h held
	h.bl, h.rw, h.ag, h.ro = w.t.VerifConfigSlices()
	h.cbl = append(h.cbl, h.bl...)
	for _, r := range h.rw {
		h.crw = append(h.crw, r.Old+">"+r.New)
	}
	h.cag = append(h.cag, h.ag...)
	h.cro = append(h.cro, h.ro...)
	if r := w.t.GetRoute("S"); r != nil {
		h.ds = route.VerifDests(r)
		h.cds = append(h.cds, h.ds...)
	}
	return h
}

func (h held) changed() string {
	for i := range h.bl {
		if h.bl[i] != h.cbl[i] {
			return fmt.Sprintf("blacklist entry %d", i)
		}
	}
	for i := range h.rw {
		if h.rw[i].Old+">"+h.rw[i].New != h.crw[i] {
			return fmt.Sprintf("rewriter %d (was %s, reads %s>%s)", i, h.crw[i], h.rw[i].Old, h.rw[i].New)
		}
	}
	for i := range h.ag {
		if h.ag[i] != h.cag[i] {
			return fmt.Sprintf("aggregator %d", i)
		}
	}
	for i := range h.ro {
		if h.ro[i] != h.cro[i] {
			return fmt.Sprintf("route %d (was %s, reads %s)", i, h.cro[i].Key(), h.ro[i].Key())
		}
	}
	for i := range h.ds {
		if h.ds[i] != h.cds[i] {
			return fmt.Sprintf("destination %d of route S", i)
		}
	}
	return ""
}

func (e *seqExec) Body() {
	w, model := build(e.shape)
	all := ops(e.shape)
	for step := 0; step < e.depth; step++ {
		k := vrt.Choose(len(all)+1, "admin op")
		if k == 0 {
			break
		}
		op := all[k-1]
		e.hist = append(e.hist, op.name)
		before := hold(w)
		wantErr := op.wantErr(&model)
		err := op.real(w)
		vrt.Quiesce()
		if wantErr && err == nil {
			e.fail("%s succeeded although the model says it must be rejected (model %s)", op.name, modelString(model))
			return
		}
		if !wantErr && err != nil {
			e.fail("%s returned error %v", op.name, err)
			return
		}
		if !wantErr {
			m := cloneTable(model)
			op.model(&m)
			model = m
		}
		if got, want := snapshotString(w.t), modelString(model); got != want {
			e.fail("after %s the table view is %s, the sequence of changes applied gives %s", op.name, got, want)
			return
		}
		if c := before.changed(); c != "" {
			e.fail("snapshot immutability: a configuration value loaded before %s reads differently afterwards: %s", op.name, c)
			return
		}
	}
	// the table must also behave like the model
	for id, name := range []string{"m", "x1m"} {
		w.base = w.counters()
		for _, c := range w.caps {
			c.Lines = nil
		}
		w.t.Dispatch([]byte(fmt.Sprintf("%s %d 1", name, 0)))
		vrt.Quiesce()
		o := w.observe(1)
		wantPer, wantTot := expect(model, name)
		if o.perDispatch[0] != wantPer || !sameTotals(o.totals, wantTot) {
			e.fail("dispatch of %q after the history: observed routes [%s] counters %v, reference routes [%s] counters %v (model %s)", name, o.perDispatch[0], o.totals, wantPer, wantTot, modelString(model))
			return
		}
		_ = id
	}
}

func (e *seqExec) Check(r *vrt.Result) (string, string) {
	outcome := fmt.Sprintf("%d ops", len(e.hist))
	h := fmt.Sprintf("shape %+v history %v", e.shape, e.hist)
	if len(r.Panics) > 0 {
		return outcome, "panic: " + r.Panics[0].Value + "\n" + h + "\n" + r.Panics[0].Stack
	}
	if r.StepLimit {
		return outcome, "livelock: step limit\n" + h
	}
	if !r.DriverDone {
		return outcome, fmt.Sprintf("hang: an admin operation or dispatch never returned\n%s\nblocked: %v", h, r.Blocked)
	}
	if e.viol != "" {
		return outcome, e.viol + "\n" + h
	}
	return outcome, ""
}

// ---------------------------------------------------------------------------
// concurrent scenario

type concExec struct {
	shape  shape
	script []int    // indices into ops(shape)
	names  []string // one metric name per dispatcher
	gated  bool     // the dispatchers are parked inside the first capture route (holding the table value they loaded) until the admin operations have completed and everything is at rest
	viol   string
	out    string

	clock    int64
	opCall   []int64
	opRet    []int64
	dCall    []int64
	dRet     []int64
	finished int
}

func (e *concExec) Body() {
	w, model := build(e.shape)
	all := ops(e.shape)
	n := len(e.names)
	e.opCall, e.opRet = make([]int64, len(e.script)), make([]int64, len(e.script))
	e.dCall, e.dRet = make([]int64, n), make([]int64, n)
	// whether each admin op is expected to succeed depends on the ops before it
	m := cloneTable(model)
	opErr := make([]bool, len(e.script))
	for i, k := range e.script {
		opErr[i] = all[k].wantErr(&m)
		if !opErr[i] {
			all[k].model(&m)
		}
	}
	gateOpen := !e.gated
	if e.gated {
		w.caps[capKey(0)].Hook = func([]byte) { vrt.WaitUntil("gate in route K0", func() bool { return gateOpen }) }
	}
	startDispatchers := func() {
		for d := 0; d < n; d++ {
			d := d
			vrt.GoNamed(fmt.Sprintf("disp%d", d), func() {
				e.clock++
				e.dCall[d] = e.clock
				w.t.Dispatch([]byte(fmt.Sprintf("%s %d 1", e.names[d], d)))
				e.clock++
				e.dRet[d] = e.clock
				e.finished++
			})
		}
	}
	if e.gated {
		startDispatchers()
		vrt.Quiesce() // every dispatcher is inside K0.Dispatch, with the table value it loaded
	}
	vrt.GoNamed("admin", func() {
		for i, k := range e.script {
			e.clock++
			e.opCall[i] = e.clock
			err := all[k].real(w)
			e.clock++
			e.opRet[i] = e.clock
			if (err != nil) != opErr[i] && e.viol == "" {
				e.viol = fmt.Sprintf("%s returned %v, model expects error=%v", all[k].name, err, opErr[i])
			}
		}
		e.finished++
	})
	if e.gated {
		vrt.WaitUntil("admin done", func() bool { return e.finished >= 1 })
		vrt.Quiesce() // whatever the change set in motion (shutdowns, drains) has come to rest
		gateOpen = true
	} else {
		startDispatchers()
	}
	vrt.WaitUntil("join", func() bool { return e.finished == n+1 })
	vrt.Quiesce()
	o := w.observe(n)
	e.out = fmt.Sprintf("%v %v", o.perDispatch, o.totals)

	// allowed tables per dispatch (DESIGN.md appendix C): every entry untouched
	// by the overlapping admin operations in table order, plus, independently
	// for every entry in flux, any of the states it had before/between/after
	// those operations.
	type cand struct {
		per string
		tot map[string]int64
		tbl string
	}
	cands := make([][]cand, n)
	lateDel := false
	for _, k := range e.script {
		if strings.HasPrefix(all[k].name, "delAgg") {
			lateDel = true
		}
	}
	for d := 0; d < n; d++ {
		base := cloneTable(model)
		var stages []ref.Table
		started := false
		for i, k := range e.script {
			if opErr[i] {
				continue
			}
			if e.opRet[i] < e.dCall[d] {
				all[k].model(&base)
				base = cloneTable(base)
			} else if e.opCall[i] < e.dRet[d] || lateDel {
				// an aggregator is observed through its numIn counter, which moves when the point is
				// processed, not when it is handed over: a delete that starts after the dispatch has
				// returned can still make the aggregator drop the point from its inbox on shutdown, so
				// the deleted aggregator counts as in flux for every dispatch that did not precede it
				// (and so do the operations of the script before that delete, to keep them in order)
				if !started {
					stages = append(stages, cloneTable(base))
					started = true
				}
				if all[k].wantErr(&base) {
					continue
				}
				all[k].model(&base)
				base = cloneTable(base)
				stages = append(stages, cloneTable(base))
			}
		}
		if !started {
			stages = append(stages, base)
		}
		for _, t := range fluxTables(stages) {
			per, tot := expect(t, e.names[d])
			cands[d] = append(cands[d], cand{per, tot, modelString(t)})
		}
	}
	// is there one allowed table per dispatch that explains everything observed?
	var rec func(d int, tot map[string]int64) bool
	rec = func(d int, tot map[string]int64) bool {
		if d == n {
			return sameTotals(tot, o.totals)
		}
		for _, c := range cands[d] {
			if c.per != o.perDispatch[d] {
				continue
			}
			t2 := map[string]int64{}
			for k, v := range tot {
				t2[k] = v
			}
			for k, v := range c.tot {
				t2[k] += v
			}
			if rec(d+1, t2) {
				return true
			}
		}
		return false
	}
	if !rec(0, map[string]int64{}) && e.viol == "" {
		var sb strings.Builder
		for d := 0; d < n; d++ {
			fmt.Fprintf(&sb, "\n dispatch %d (%s): observed routes [%s]; allowed:", d, e.names[d], o.perDispatch[d])
			for _, c := range cands[d] {
				fmt.Fprintf(&sb, "\n   routes [%s] counters %v on table %s", c.per, c.tot, c.tbl)
			}
		}
		e.viol = fmt.Sprintf("a dispatch concurrent with %s was not processed against the table before or after the change(s): observed counters %v%s", e.scriptString(), o.totals, sb.String())
	}
}

func (e *concExec) scriptString() string {
	all := ops(e.shape)
	var s []string
	for _, k := range e.script {
		s = append(s, all[k].name)
	}
	return strings.Join(s, ";")
}

func (e *concExec) Check(r *vrt.Result) (string, string) {
	h := fmt.Sprintf("shape %+v admin [%s] dispatch %v gated=%v", e.shape, e.scriptString(), e.names, e.gated)
	if len(r.Panics) > 0 {
		return e.out, "panic: " + r.Panics[0].Value + "\n" + h + "\n" + r.Panics[0].Stack
	}
	if r.StepLimit {
		return e.out, "livelock: step limit\n" + h
	}
	if !r.DriverDone {
		return "hang", fmt.Sprintf("hang: a dispatch or admin operation concurrent with %s never returned\n%s\nblocked: %v", e.scriptString(), h, r.Blocked)
	}
	if e.viol != "" {
		return e.out, e.viol + "\n" + h
	}
	return e.out, ""
}

// ---------------------------------------------------------------------------

// ---------------------------------------------------------------------------
// consistent-hashing route: one destination is removed or added while lines are dispatched. A line is
// routed by the ring that belongs to the destination list it is applied to: it reaches the owner under
// the list before or after the change (only "after" when it began after the change, only "before" when
// it returned before it), exactly once - never another destination, never nowhere.

func chAddr(i int) string { return fmt.Sprintf("10.0.1.%d:2003", i) }
func chKey(i int) string  { return util.Key("H", chAddr(i)) }
func chNode(i int) ref.RingNode {
	return ref.RingNode{Host: fmt.Sprintf("10.0.1.%d", i)}
}

// chNames[i] is a metric name owned by destination i of the three-destination ring.
var chNames = func() (out [3]string) {
	ring, err := ref.NewRing([]ref.RingNode{chNode(0), chNode(1), chNode(2)})
	if err != nil {
		panic(err)
	}
	found := 0
	for k := 0; found < 3 && k < 10000; k++ {
		n := fmt.Sprintf("h%d", k)
		if o := ring.Owner(n); out[o] == "" {
			out[o] = n
			found++
		}
	}
	return
}()

type chExec struct {
	op    int   // 0..2: DelDestination(op); 3: Add(destination 9)
	names []int // one per dispatcher: index into chNames
	viol  string
	out   string
}

func (e *chExec) opName() string {
	if e.op == 3 {
		return "addDest(H,9)"
	}
	return fmt.Sprintf("delDest(H,%d)", e.op)
}

func (e *chExec) Body() {
	vrt.SetEnv("net", refuse{})
	aggregator.VerifInit()
	cfg, err := table.NewTableConfig("/nospool", "1h", validate.LevelLegacy{Level: m20.MediumLegacy}, validate.LevelM20{Level: m20.MediumM20}, false)
	if err != nil {
		panic(err)
	}
	t := table.New(cfg)
	mkDest := func(i int) *destination.Destination {
		d, err := destination.New("H", matcher.Matcher{}, chAddr(i), "/nospool", false, false, time.Second, time.Hour, 10, 1000, 10, 1000, 1000, time.Second, 0, 0)
		if err != nil {
			panic(err)
		}
		return d
	}
	r, err := route.NewConsistentHashing("H", matcher.Matcher{}, []*destination.Destination{mkDest(0), mkDest(1), mkDest(2)})
	if err != nil {
		panic(err)
	}
	t.AddRoute(r)
	vrt.Quiesce()
	members := []int{0, 1, 2, 9}
	count := func() map[int]int64 {
		c := map[int]int64{}
		for _, i := range members {
			c[i] = harn.Count("dest=" + chKey(i) + ".unit=Metric.action=drop.reason=conn_down_no_spool")
		}
		return c
	}
	base := count()
	unr0 := harn.Count("unit=Metric.direction=unroutable")
	before := []int{0, 1, 2}
	var after []int
	if e.op == 3 {
		after = []int{0, 1, 2, 9}
	} else {
		for _, i := range before {
			if i != e.op {
				after = append(after, i)
			}
		}
	}
	var clock, opCall, opRet int64
	n := len(e.names)
	dCall, dRet := make([]int64, n), make([]int64, n)
	finished := 0
	vrt.GoNamed("admin", func() {
		clock++
		opCall = clock
		var err error
		if e.op == 3 {
			r.(*route.ConsistentHashing).Add(mkDest(9))
		} else {
			err = t.DelDestination("H", e.op)
		}
		clock++
		opRet = clock
		if err != nil && e.viol == "" {
			e.viol = fmt.Sprintf("%s returned %v", e.opName(), err)
		}
		finished++
	})
	for d := 0; d < n; d++ {
		d := d
		vrt.GoNamed(fmt.Sprintf("disp%d", d), func() {
			clock++
			dCall[d] = clock
			t.Dispatch([]byte(fmt.Sprintf("%s %d 1", chNames[e.names[d]], d)))
			clock++
			dRet[d] = clock
			finished++
		})
	}
	vrt.WaitUntil("join", func() bool { return finished == n+1 })
	vrt.Quiesce()
	got := count()
	var delta []string
	total := int64(0)
	for _, i := range members {
		if v := got[i] - base[i]; v != 0 {
			delta = append(delta, fmt.Sprintf("D%d+%d", i, v))
			total += v
		}
	}
	e.out = strings.Join(delta, " ")
	if e.viol != "" {
		return
	}
	if u := harn.Count("unit=Metric.direction=unroutable") - unr0; u != 0 {
		e.viol = fmt.Sprintf("%d line(s) counted unroutable although route H accepts everything", u)
		return
	}
	owner := func(list []int, name string) int {
		var nodes []ref.RingNode
		for _, i := range list {
			nodes = append(nodes, chNode(i))
		}
		ring, err := ref.NewRing(nodes)
		if err != nil {
			panic(err)
		}
		return list[ring.Owner(name)]
	}
	// allowed owners per dispatcher; the destination being removed may swallow a line it was handed
	// while it shuts down (that line was routed by the "before" table), so it may or may not count it
	type choice struct {
		dest     int
		optional bool
	}
	allowed := make([][]choice, n)
	for d := 0; d < n; d++ {
		name := chNames[e.names[d]]
		if !(dCall[d] > opRet) { // did not begin after the change
			o := owner(before, name)
			allowed[d] = append(allowed[d], choice{o, e.op == o})
		}
		if !(dRet[d] < opCall) { // did not return before the change
			allowed[d] = append(allowed[d], choice{owner(after, name), false})
		}
	}
	// does some combination of allowed owners explain the counters?
	var rec func(d int, want map[int]int64) bool
	rec = func(d int, want map[int]int64) bool {
		if d == n {
			for _, i := range members {
				if want[i] != got[i]-base[i] {
					return false
				}
			}
			return true
		}
		for _, c := range allowed[d] {
			want[c.dest]++
			ok := rec(d+1, want)
			want[c.dest]--
			if ok {
				return true
			}
			if c.optional && rec(d+1, want) {
				return true
			}
		}
		return false
	}
	if !rec(0, map[int]int64{}) {
		var desc []string
		for d := 0; d < n; d++ {
			var a []string
			for _, c := range allowed[d] {
				a = append(a, fmt.Sprintf("D%d", c.dest))
			}
			desc = append(desc, fmt.Sprintf("%q -> %s", chNames[e.names[d]], strings.Join(a, " or ")))
		}
		e.viol = fmt.Sprintf("consistent-hashing route [D0 D1 D2] during %s: deliveries {%s} are not what the ring before or after the change yields (%s): a line was routed with the ring of one destination list and delivered by index into another", e.opName(), e.out, strings.Join(desc, "; "))
	}
}

func (e *chExec) Check(r *vrt.Result) (string, string) {
	h := fmt.Sprintf("%s, dispatchers %v", e.opName(), e.names)
	if len(r.Panics) > 0 {
		return "panic", "panic: " + r.Panics[0].Value + "\n" + h + "\n" + r.Panics[0].Stack
	}
	if r.StepLimit {
		return "steplimit", "livelock: step limit\n" + h
	}
	if !r.DriverDone {
		return "blocked", fmt.Sprintf("a dispatch or the admin operation never returned\n%s\nblocked: %v", h, r.Blocked)
	}
	if e.viol != "" {
		return e.out, e.viol + "\n" + h
	}
	return e.out, ""
}

func main() {
	rep := kit.New("C18", "model_checking")
	rep.Quiet()
	log.SetLevel(log.PanicLevel)
	bound, seqDepth := 2, 3
	if rep.Thorough() {
		bound, seqDepth = 3, 4
	}
	groups := map[string]bool{"c18": true}
	var scns []*vrt.Scenario
	shapes := []shape{{bl: 3}, {rw: 3}, {ag: 3}, {caps: 3}, {caps: 1, dests: 3}, {bl: 1, rw: 2, ag: 1, caps: 2, dests: 2}}
	// sequential histories: split by first operation
	for _, s := range shapes {
		s := s
		scns = append(scns, &vrt.Scenario{
			Name: fmt.Sprintf("seq %+v", s), Cfg: vrt.Config{MaxSteps: 50000}, Model: vrt.CostDelay, Bound: 0,
			New: func() vrt.Exec { return &seqExec{shape: s, depth: seqDepth} },
		})
	}
	// concurrent: every single admin op, and every ordered pair of the same shape, against 1 and 2 dispatchers
	for _, s := range shapes[:5] {
		s := s
		all := ops(s)
		name := "m"
		if s.bl > 0 {
			name = "x1m"
		}
		var scripts [][]int
		for i := range all {
			scripts = append(scripts, []int{i})
		}
		for i := range all {
			for j := range all {
				if i == j && strings.HasPrefix(all[i].name, "add") {
					continue // the same entity twice: entries are identified by key in the concurrent oracle
				}
				scripts = append(scripts, []int{i, j})
			}
		}
		for _, sc := range scripts {
			for _, nd := range []int{1, 2} {
				if nd == 2 && len(sc) == 2 && !rep.Thorough() {
					continue
				}
				sc := sc
				b := bound
				if len(sc) == 2 {
					b = bound - 1 // pairs of admin operations one deviation less than single ones
				}
				names := []string{name, "m"}[:nd]
				e0 := &concExec{shape: s, script: sc, names: names}
				g := groups
				if strings.Contains(e0.scriptString(), "updateDest") {
					// statement-level interleaving inside Matcher.Match as well: a filter must be seen whole
					g = map[string]bool{"c18": true, "c18m": true}
				}
				scns = append(scns, &vrt.Scenario{
					Name: fmt.Sprintf("conc %+v [%s] x%d", s, e0.scriptString(), nd),
					Cfg:  vrt.Config{Groups: g, MaxSteps: 50000}, Model: vrt.CostDelay, Bound: b,
					New: func() vrt.Exec { return &concExec{shape: s, script: sc, names: names} },
				})
			}
		}
	}
	// stale snapshot: a dispatcher that loaded the table value, is held up inside the first route, and
	// continues only after the change and everything it set in motion have completed
	{
		s := shapes[4] // one capture route, then sendAllMatch S with three destinations
		all := ops(s)
		for i := range all {
			sc := []int{i}
			e0 := &concExec{shape: s, script: sc, names: []string{"m"}, gated: true}
			scns = append(scns, &vrt.Scenario{
				Name: fmt.Sprintf("stale-snapshot %+v [%s]", s, e0.scriptString()),
				Cfg:  vrt.Config{Groups: groups, MaxSteps: 50000}, Model: vrt.CostDelay, Bound: bound - 1,
				New: func() vrt.Exec { return &concExec{shape: s, script: sc, names: []string{"m"}, gated: true} },
			})
		}
	}
	// consistent hashing: each change against one dispatcher per owner, and against two dispatchers
	for op := 0; op <= 3; op++ {
		var sets [][]int
		for a := 0; a < 3; a++ {
			sets = append(sets, []int{a})
		}
		sets = append(sets, []int{1, 2}, []int{0, 2}, []int{0, 1})
		for _, ns := range sets {
			op, ns := op, ns
			b := bound
			if len(ns) == 2 {
				b = bound - 1
				if !rep.Thorough() {
					b = bound // the two-dispatcher runs are short
				}
			}
			e0 := &chExec{op: op, names: ns}
			scns = append(scns, &vrt.Scenario{
				Name: fmt.Sprintf("conc consistentHashing [%s] names %v", e0.opName(), ns),
				Cfg:  vrt.Config{Groups: groups, MaxSteps: 50000}, Model: vrt.CostDelay, Bound: b,
				New: func() vrt.Exec { return &chExec{op: op, names: ns} },
			})
		}
	}
	rep.Assume = []string{
		"interleavings at statement granularity inside Table.Dispatch, the Add*/Del* functions, SendAllMatch/SendFirstMatch.Dispatch and the route add/del/update internals; at synchronisation operations elsewhere; sequential consistency",
		fmt.Sprintf("delay bound %d for single admin operations, %d for pairs; tables with 3 entries of the kind being changed", bound, bound-1),
		"oracle for concurrent dispatches: reference result on a table obtained by applying a subset (in order) of the overlapping admin operations to the table as it was when the dispatch began",
	}
	e1 := &kit.E1{Rep: rep, Scenarios: scns, Deadline: rep.Deadline(150*time.Second, 25*time.Minute)}
	cov := e1.Run()
	if cov != nil {
		cov["bound"] = bound
		cov["cost_model"] = "delay"
	}
	rep.Finish(cov)
}
