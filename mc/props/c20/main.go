// C20: configuration means what the documentation says, in both syntaxes.
//
// Engine E4 (bounded-exhaustive, free-running, uninstrumented).
//
// Part A (entries). For every entry kind (blacklist, rewriter, aggregation,
// carbon route of every type with 1-2 destinations, grafanaNet route) the
// documented options form a universe of option *slots* (route option,
// option of destination 1, option of destination 2, ...). Enumerated: the
// empty set, every single slot, every pair of slots, all slots at once (plus
// every boolean with both explicit values, both spellings sub/substr, and in
// the thorough tier both orders of a pair and every triple), and a few
// configurations holding several entries of every kind. Every slot carries a value that differs from
// every documented default and from the value of every other slot, so an
// ignored, swapped or misplaced option shows. Each configuration is written
// (i) as a TOML document, decoded with the repository's TOML library into
// cfg.Config and applied with cfg.InitTable, (ii) as the equivalent command
// applied with imperatives.Apply (and for the all-slots case also as an
// [init] cmds entry). The resulting entries are read back (Snapshot(),
// exported fields, overlay accessors for unexported destination fields) and
// compared with the expected entry computed from the option/default tables
// below, which are transcribed from docs/config.md,
// docs/tcp-admin-interface.md, docs/aggregation.md and docs/rewriting.md -
// not from the code.
//
// Part B (interpolation). The real cmd/carbon-relay-ng binary is built with an
// overlay-only init() hook (mc/access/cmd/carbon-relay-ng/c20_expand.go.in)
// that runs documents through the program's own readConfigFile. Documents: a
// list of `$` forms in realistic contexts, all strings over a small atom
// alphabet up to a length, and documented rewriter templates end to end
// (interpolation -> TOML -> InitTable -> rewriter.Do). Oracle: only the
// documented variables are substituted; every other `$` sequence is unchanged
// (where the documentation leaves the tokenisation open - bare $HOST, `$$`,
// nesting - every reading is accepted).
package main

import (
	"crypto/sha256"
	"encoding/hex"
	"encoding/json"
	"fmt"
	"io"
	stdlog "log"
	"os"
	"os/exec"
	"path/filepath"
	"regexp"
	"runtime"
	"runtime/debug"
	"sort"
	"strconv"
	"strings"
	"sync"
	"sync/atomic"
	"time"

	"github.com/BurntSushi/toml"
	"github.com/grafana/carbon-relay-ng/aggregator"
	"github.com/grafana/carbon-relay-ng/cfg"
	"github.com/grafana/carbon-relay-ng/destination"
	"github.com/grafana/carbon-relay-ng/imperatives"
	"github.com/grafana/carbon-relay-ng/matcher"
	"github.com/grafana/carbon-relay-ng/route"
	"github.com/grafana/carbon-relay-ng/table"
	log "github.com/sirupsen/logrus"

	"verif/mc/kit"
)

var rep *kit.Reporter

// ---------------------------------------------------------------------------
// The documentation, as data

// optDoc is one row of a documentation table: an optional setting, the unit
// its value is given in, and the default it takes when it is not given.
type optDoc struct {
	Name    string
	Unit    string // str | int | bool | ms | us | float
	Default string // in the option's own unit, as documented ("" = empty string)
	Doc     string // where this row comes from
}

func matcherDocs(where string) []optDoc {
	var out []optDoc
	for _, n := range []string{"prefix", "notPrefix", "sub", "notSub", "regex", "notRegex"} {
		out = append(out, optDoc{n, "str", "", where})
	}
	return out
}

// docs/config.md "## carbon route" (lines 96-105): key, type mandatory; six filters default "".
var routeDocs = matcherDocs(`docs/config.md:100-105 (carbon route: prefix..notRegex | N | string | "")`)

// docs/config.md "## carbon destination" (lines 146-166); same list with the same
// defaults in docs/tcp-admin-interface.md:56-75.
var destDocs = append(matcherDocs(`docs/config.md:149-154 (carbon destination: prefix..notRegex | N | string | "")`),
	optDoc{"flush", "ms", "1000", "docs/config.md:155 flush | int (ms) | 1000 | flush interval"},
	optDoc{"reconn", "ms", "10000", "docs/config.md:156 reconn | int (ms) | 10k | reconnection interval"},
	optDoc{"pickle", "bool", "false", "docs/config.md:157 pickle | true/false | false"},
	optDoc{"spool", "bool", "false", "docs/config.md:158 spool | true/false | false | disk spooling"},
	optDoc{"connbuf", "int", "30000", "docs/config.md:159 connbuf | int | 30k"},
	optDoc{"iobuf", "int", "2000000", "docs/config.md:160 iobuf | int (bytes) | 2M"},
	optDoc{"spoolbuf", "int", "10000", "docs/config.md:161 spoolbuf | int | 10k (tcp-admin-interface.md:70: default: 10000)"},
	optDoc{"spoolmaxbytesperfile", "int", "209715200", "docs/config.md:162 spoolmaxbytesperfile | int | 200MiB (tcp-admin-interface.md:71: 200 * 1024 * 1024)"},
	optDoc{"spoolsyncevery", "int", "10000", "docs/config.md:163 spoolsyncevery | int | 10k (tcp-admin-interface.md:72: default: 10000)"},
	optDoc{"spoolsyncperiod", "ms", "1000", "docs/config.md:164 spoolsyncperiod | int (ms) | 1000"},
	optDoc{"spoolsleep", "us", "500", "docs/config.md:165 spoolsleep | int (micros) | 500"},
	optDoc{"unspoolsleep", "us", "10", "docs/config.md:166 unspoolsleep | int (micros) | 10"},
)

// docs/config.md "## grafanaNet route" (lines 170-193); the command form is
// docs/tcp-admin-interface.md:77.
var gnDocs = append(matcherDocs(`docs/config.md:177-182 (grafanaNet route: prefix..notRegex | N | string | "")`),
	optDoc{"sslverify", "bool", "true", "docs/config.md:183 sslverify | true/false | true"},
	optDoc{"spool", "bool", "false", "docs/config.md:184 spool | true/false | false"},
	optDoc{"blocking", "bool", "false", "docs/config.md:185 blocking | true/false | false"},
	optDoc{"concurrency", "int", "100", "docs/config.md:186 concurrency | int | 100"},
	optDoc{"bufSize", "int", "10000000", "docs/config.md:187 bufSize | int | 10M"},
	optDoc{"flushMaxNum", "int", "5000", "docs/config.md:188 flushMaxNum | int | 5000"},
	optDoc{"flushMaxWait", "ms", "500", "docs/config.md:189 flushMaxWait | int (ms) | 500"},
	optDoc{"timeout", "ms", "10000", "docs/config.md:190 timeout | int (ms) | 10000"},
	optDoc{"orgId", "int", "1", "docs/config.md:191 orgId | int | 1"},
	optDoc{"errBackoffMin", "ms", "100", "docs/config.md:192 errBackoffMin | int (ms) | 100"},
	optDoc{"errBackoffFactor", "float", "1.5", "docs/config.md:193 errBackoffFactor | float | 1.5"},
)

// Aggregations: docs/config.md:33-79 (sections), docs/tcp-admin-interface.md:17-37
// (addAgg), docs/aggregation.md:12 (filters are optional), :84 (dropRaw), :95
// (cache: "By default, the cache is enabled for aggregators set up via commands
// (init commands in the config) but disabled for aggregators configured via
// config sections"). The cache default is therefore per syntax.
var aggDocs = []optDoc{
	{"prefix", "str", "", "docs/tcp-admin-interface.md:33 prefix=<str>; docs/aggregation.md:12 optional"},
	{"notPrefix", "str", "", "docs/tcp-admin-interface.md:34 notPrefix=<str>"},
	{"sub", "str", "", "docs/tcp-admin-interface.md:31 sub=<str>"},
	{"notSub", "str", "", "docs/tcp-admin-interface.md:32 notSub=<str>"},
	{"notRegex", "str", "", "docs/tcp-admin-interface.md:30 notRegex=<str>"},
	{"cache", "bool", "false", "docs/aggregation.md:95 cache: off for sections, on for commands"},
	{"dropRaw", "bool", "false", "docs/aggregation.md:84, docs/config.md:78 dropRaw = false"},
}

const aggCacheDefaultCmd = "true" // docs/aggregation.md:95

// functions of docs/tcp-admin-interface.md:18-27 (addAgg) - docs/aggregation.md:55-66
// and docs/config.md:64 add "percentiles" for sections.
var aggFuncsBoth = []string{"avg", "count", "delta", "derive", "last", "max", "min", "stdev", "sum"}

// blacklist: docs/config.md:8-17 (six matcher types), docs/tcp-admin-interface.md:12 (addBlack).
var blackTypes = []string{"prefix", "notPrefix", "sub", "notSub", "regex", "notRegex"}

func canon(unit, v string) string {
	switch unit {
	case "str", "bool":
		return v
	case "int":
		n, err := strconv.ParseInt(v, 10, 64)
		if err != nil {
			panic(err)
		}
		return strconv.FormatInt(n, 10)
	case "ms":
		n, _ := strconv.ParseInt(v, 10, 64)
		return (time.Duration(n) * time.Millisecond).String()
	case "us":
		n, _ := strconv.ParseInt(v, 10, 64)
		return (time.Duration(n) * time.Microsecond).String()
	case "float":
		f, _ := strconv.ParseFloat(v, 64)
		return strconv.FormatFloat(f, 'g', -1, 64)
	}
	panic("unit " + unit)
}

// ---------------------------------------------------------------------------
// Slots and values

type slot struct {
	Scope string // r (route), d1/d2 (destination), g (grafanaNet), a (aggregation)
	Doc   optDoc
	Val   string
}

func (s slot) ID() string { return s.Scope + "." + s.Doc.Name + "=" + s.Val }

type numGen struct{ next int }

func isPrime(n int) bool {
	for d := 2; d*d <= n; d++ {
		if n%d == 0 {
			return false
		}
	}
	return n > 1
}

// distinct small primes: never a documented default, never equal to each other,
// and no two of them differ by a factor 1000 (ms/us/s mix-ups stay visible).
func (g *numGen) num() string {
	if g.next < 13 {
		g.next = 13
	}
	for !isPrime(g.next) {
		g.next++
	}
	n := g.next
	g.next++
	return strconv.Itoa(n)
}

func strVal(scope, name string) string {
	switch name {
	case "prefix":
		return scope + "pfx."
	case "notPrefix":
		return scope + "npfx."
	case "sub":
		return scope + "sub"
	case "notSub":
		return scope + "nsub"
	case "regex":
		return "^" + scope + "re[0-9]"
	case "notRegex":
		return scope + "nre$"
	}
	panic(name)
}

func mkSlots(scope string, docs []optDoc, g *numGen, skipMatcher bool) []slot {
	var out []slot
	for _, d := range docs {
		var v string
		switch d.Unit {
		case "str":
			if skipMatcher {
				continue
			}
			v = strVal(scope, d.Name)
		case "bool":
			v = "true"
			if d.Default == "true" {
				v = "false"
			}
		case "float":
			v = "2.25"
		default:
			v = g.num()
		}
		out = append(out, slot{scope, d, v})
	}
	return out
}

// subsets enumerates, simplest first: {}, singles (+ explicit other value for
// booleans), pairs (both orders when rev), triples (when triples), everything.
func subsets(u []slot, rev, triples bool) [][]slot {
	out := [][]slot{{}}
	for _, s := range u {
		out = append(out, []slot{s})
		if s.Doc.Unit == "bool" {
			o := s
			o.Val = s.Doc.Default
			out = append(out, []slot{o})
		}
	}
	for i := range u {
		for j := i + 1; j < len(u); j++ {
			out = append(out, []slot{u[i], u[j]})
			if rev && u[i].Scope == u[j].Scope {
				out = append(out, []slot{u[j], u[i]})
			}
		}
	}
	if triples {
		for i := range u {
			for j := i + 1; j < len(u); j++ {
				for k := j + 1; k < len(u); k++ {
					out = append(out, []slot{u[i], u[j], u[k]})
				}
			}
		}
	}
	if len(u) > 3 {
		out = append(out, append([]slot(nil), u...))
	}
	return out
}

func ids(set []slot) string {
	var s []string
	for _, x := range set {
		s = append(s, x.ID())
	}
	return "[" + strings.Join(s, " ") + "]"
}

func has(set []slot, scope, name string) bool {
	for _, s := range set {
		if s.Scope == scope && s.Doc.Name == name {
			return true
		}
	}
	return false
}

func scoped(set []slot, scope string) []slot {
	var out []slot
	for _, s := range set {
		if s.Scope == scope {
			out = append(out, s)
		}
	}
	return out
}

// rendering
func tomlOpt(s slot, substr bool) string {
	n := s.Doc.Name
	if n == "sub" && substr {
		n = "substr"
	}
	if s.Doc.Unit == "str" {
		return n + " = '" + s.Val + "'"
	}
	return n + " = " + s.Val
}

func cmdOpts(set []slot) string {
	var p []string
	for _, s := range set {
		p = append(p, s.Doc.Name+"="+s.Val)
	}
	return strings.Join(p, " ")
}

func expectOpts(want map[string]string, pfx string, docs []optDoc, set []slot) {
	for _, d := range docs {
		want[pfx+d.Name] = canon(d.Unit, d.Default)
	}
	for _, s := range set {
		want[pfx+s.Doc.Name] = canon(s.Doc.Unit, s.Val)
	}
}

// ---------------------------------------------------------------------------
// Running a configuration against the real code and reading the table back

type tbl struct {
	table.MockTable
	spool string
}

func (t *tbl) GetSpoolDir() string { return t.spool }

var tmpDir, spoolDir, schemasFile, aggFile string

// what a destination's spool directory is expected to be: the table's
// (spool_dir of the configuration); every worker uses a table with its own
const tableSpoolDir = "(spool dir of the table)"

func newTbl(spool string) *tbl { return &tbl{spool: spool} }

func guard(f func() error) (err error) {
	defer func() {
		if r := recover(); r != nil {
			err = fmt.Errorf("PANIC: %v", r)
		}
	}()
	return f()
}

func runTOML(doc string, spool string) (*tbl, error) {
	t := newTbl(spool)
	err := guard(func() error {
		config := cfg.NewConfig()
		meta, err := toml.Decode(doc, &config)
		if err != nil {
			return fmt.Errorf("toml: %v", err)
		}
		return cfg.InitTable(t, config, meta)
	})
	return t, err
}

func runCmds(cmds []string, spool string) (*tbl, error) {
	t := newTbl(spool)
	err := guard(func() error {
		for _, c := range cmds {
			if err := imperatives.Apply(t, c); err != nil {
				return err
			}
		}
		return nil
	})
	return t, err
}

func dur(ns int64) string { return time.Duration(ns).String() }

func putMatcher(out map[string]string, p string, m matcher.Matcher) {
	out[p+"prefix"] = m.Prefix
	out[p+"notPrefix"] = m.NotPrefix
	out[p+"sub"] = m.Sub
	out[p+"notSub"] = m.NotSub
	out[p+"regex"] = m.Regex
	out[p+"notRegex"] = m.NotRegex
}

func flatten(t *tbl) map[string]string {
	out := map[string]string{}
	out["blacklist.n"] = strconv.Itoa(len(t.Blacklist))
	for i, m := range t.Blacklist {
		putMatcher(out, fmt.Sprintf("blacklist[%d].", i), *m)
	}
	out["rewriter.n"] = strconv.Itoa(len(t.Rewriters))
	for i, rw := range t.Rewriters {
		p := fmt.Sprintf("rewriter[%d].", i)
		out[p+"old"] = rw.Old
		out[p+"new"] = rw.New
		out[p+"not"] = rw.Not
		out[p+"max"] = strconv.Itoa(rw.Max)
	}
	out["aggregation.n"] = strconv.Itoa(len(t.Aggregators))
	for i, a := range t.Aggregators {
		p := fmt.Sprintf("aggregation[%d].", i)
		s := a.Snapshot()
		out[p+"function"] = s.Fun
		putMatcher(out, p, s.Matcher)
		out[p+"format"] = s.OutFmt
		out[p+"interval"] = strconv.Itoa(int(s.Interval))
		out[p+"wait"] = strconv.Itoa(int(s.Wait))
		out[p+"cache"] = strconv.FormatBool(s.Cache)
		out[p+"dropRaw"] = strconv.FormatBool(s.DropRaw)
		if a.Fun != s.Fun || a.OutFmt != s.OutFmt || a.Cache != s.Cache || a.Interval != s.Interval || a.Wait != s.Wait || a.DropRaw != s.DropRaw || !a.Matcher.Equals(s.Matcher) {
			out[p+"snapshot"] = "differs from the live aggregator"
		}
	}
	out["route.n"] = strconv.Itoa(len(t.Routes))
	for i, r := range t.Routes {
		p := fmt.Sprintf("route[%d].", i)
		snap := r.Snapshot()
		out[p+"key"] = r.Key()
		if snap.Key != r.Key() {
			out[p+"snapshot.key"] = snap.Key
		}
		putMatcher(out, p, snap.Matcher)
		switch x := r.(type) {
		case *route.SendAllMatch:
			out[p+"type"] = "sendAllMatch"
		case *route.SendFirstMatch:
			out[p+"type"] = "sendFirstMatch"
		case *route.ConsistentHashing:
			out[p+"type"] = "consistentHashing"
		case *route.GrafanaNet:
			out[p+"type"] = "grafanaNet"
			c := x.Cfg
			out[p+"addr"] = c.Addr
			out[p+"apiKey"] = c.ApiKey
			out[p+"schemasFile"] = c.SchemasFile
			out[p+"aggregationFile"] = c.AggregationFile
			out[p+"sslverify"] = strconv.FormatBool(c.SSLVerify)
			out[p+"spool"] = strconv.FormatBool(c.Spool)
			out[p+"blocking"] = strconv.FormatBool(c.Blocking)
			out[p+"concurrency"] = strconv.Itoa(c.Concurrency)
			out[p+"bufSize"] = strconv.Itoa(c.BufSize)
			out[p+"flushMaxNum"] = strconv.Itoa(c.FlushMaxNum)
			out[p+"flushMaxWait"] = c.FlushMaxWait.String()
			out[p+"timeout"] = c.Timeout.String()
			out[p+"orgId"] = strconv.Itoa(c.OrgID)
			out[p+"errBackoffMin"] = c.ErrBackoffMin.String()
			out[p+"errBackoffFactor"] = strconv.FormatFloat(c.ErrBackoffFactor, 'g', -1, 64)
			if snap.Addr != c.Addr {
				out[p+"snapshot.addr"] = snap.Addr
			}
			continue
		default:
			out[p+"type"] = fmt.Sprintf("%T", r)
			continue
		}
		out[p+"ndests"] = strconv.Itoa(len(snap.Dests))
		for k := 0; k < len(snap.Dests); k++ {
			dp := fmt.Sprintf("%sd%d.", p, k+1)
			d, err := r.GetDestination(k)
			if err != nil {
				out[dp+"error"] = err.Error()
				continue
			}
			flattenDest(out, dp, d, t.spool)
			sd := snap.Dests[k]
			if !sd.Matcher.Equals(d.GetMatcher()) || sd.Addr != d.Addr || sd.Spool != d.Spool || sd.Pickle != d.Pickle {
				out[dp+"snapshot"] = "differs from the live destination"
			}
		}
	}
	return out
}

func flattenDest(out map[string]string, p string, d *destination.Destination, spool string) {
	putMatcher(out, p, d.GetMatcher())
	out[p+"addr"] = d.Addr
	out[p+"instance"] = d.Instance
	out[p+"spooldir"] = d.SpoolDir
	if d.SpoolDir == spool {
		out[p+"spooldir"] = tableSpoolDir
	}
	pf, pr, cb, ib := d.VerifC20Tuning()
	out[p+"flush"] = dur(pf)
	out[p+"reconn"] = dur(pr)
	out[p+"pickle"] = strconv.FormatBool(d.Pickle)
	out[p+"spool"] = strconv.FormatBool(d.Spool)
	out[p+"connbuf"] = strconv.Itoa(cb)
	out[p+"iobuf"] = strconv.Itoa(ib)
	out[p+"spoolbuf"] = strconv.Itoa(d.SpoolBufSize)
	out[p+"spoolmaxbytesperfile"] = strconv.FormatInt(d.SpoolMaxBytesPerFile, 10)
	out[p+"spoolsyncevery"] = strconv.FormatInt(d.SpoolSyncEvery, 10)
	out[p+"spoolsyncperiod"] = d.SpoolSyncPeriod.String()
	out[p+"spoolsleep"] = d.SpoolSleep.String()
	out[p+"unspoolsleep"] = d.UnspoolSleep.String()
}

func cleanup(t *tbl) {
	for _, r := range t.Routes {
		if g, ok := r.(*route.GrafanaNet); ok {
			g.VerifC20Stop()
		} else {
			r.Shutdown()
		}
	}
	for _, a := range t.Aggregators {
		a.Shutdown()
	}
}

// ---------------------------------------------------------------------------
// Cases

type variant struct {
	Syntax string // "toml" | "cmd" | "init"
	Text   []string
}

type kase struct {
	Kind     string
	Set      []slot
	Desc     string
	Variants []variant
	Want     map[string]string // expected flat table for sections
	WantCmd  map[string]string // expected flat table for commands (nil: same as Want)
	// AcceptError: an explicit rejection (error) is an acceptable outcome
	AcceptError bool
}

type stats struct {
	evals       int64
	nontrivial  map[string]bool
	samples     []interface{}
	perKind     map[string]int
	seenSig     map[string]int
	seenLeaf    map[string]bool
	docs        int64
	cross       int64
	crossDiffer int64
}

var st = &stats{nontrivial: map[string]bool{}, perKind: map[string]int{}, seenSig: map[string]int{}}

var baseline = map[string]map[string]string{}

func mapsEqual(a, b map[string]string) bool {
	if len(a) != len(b) {
		return false
	}
	for k, v := range a {
		if w, ok := b[k]; !ok || w != v {
			return false
		}
	}
	return true
}

// report deduplicates by root cause: one signature per (syntax, option, want,
// got), whatever the route type, the destination index or the position of the
// entry in a multi-entry configuration; an [init] cmds entry goes through the
// same imperatives.Apply as a direct command and counts as "cmd". The first
// (= simplest: enumeration is simplest-first) failing configuration is the replay.
var leafRe = regexp.MustCompile(`\[\d+\]|\bd\d+\.`)

func report(k *kase, v variant, field, want, got string) {
	syn := v.Syntax
	if syn == "init" {
		syn = "cmd"
	}
	leaf := leafRe.ReplaceAllStringFunc(field, func(m string) string {
		if strings.HasPrefix(m, "d") {
			return "dest."
		}
		return ""
	})
	if field == "(whole entry)" {
		leaf = k.Kind + " " + ids(k.Set)
	}
	sig := fmt.Sprintf("entry %s %s want %q got %q", syn, leaf, want, got)
	st.seenSig[sig]++
	if st.seenSig[sig] > 1 {
		return
	}
	opts, text := ids(k.Set), strings.Join(v.Text, " ; ")
	if len(opts) > 300 {
		opts = opts[:300] + " ...]"
	}
	if len(text) > 600 {
		text = text[:600] + " ... (complete in the replay file)"
	}
	rep.Violation(sig,
		fmt.Sprintf("%s via %s, options %s: %s is %q, the documentation says %q\n  config: %s", k.Kind, v.Syntax, opts, field, got, want, text),
		map[string]interface{}{"part": "entry", "kind": k.Kind, "syntax": v.Syntax, "text": v.Text, "options": ids(k.Set), "field": field, "want": want, "got": got, "docs": docRefs(k.Set)})
}

func docRefs(set []slot) []string {
	var out []string
	for _, s := range set {
		out = append(out, s.Doc.Doc)
	}
	return out
}

func runVariant(v variant, spool string) (map[string]string, error) {
	var t *tbl
	var err error
	switch v.Syntax {
	case "toml", "init":
		t, err = runTOML(v.Text[0], spool)
	default:
		t, err = runCmds(v.Text, spool)
	}
	var got map[string]string
	if err == nil {
		err = guard(func() error { got = flatten(t); return nil })
	}
	cleanup(t)
	return got, err
}

type mismatch struct {
	v                variant
	field, want, got string
}

type result struct {
	done        bool
	evals       int64
	cross       int64
	crossDiffer int64
	mism        []mismatch
}

// runCase runs every variant of one configuration against the real code and
// compares every field of the resulting table with the documented entry.
// It only collects; reporting happens afterwards, in enumeration order.
func runCase(k *kase, spool string) (res result) {
	res.done = true
	obs := map[string]map[string]string{}
	for _, v := range k.Variants {
		want := k.Want
		if v.Syntax != "toml" && k.WantCmd != nil {
			want = k.WantCmd
		}
		got, err := runVariant(v, spool)
		res.evals++
		if err != nil {
			if k.AcceptError && !strings.HasPrefix(err.Error(), "PANIC") {
				continue
			}
			res.mism = append(res.mism, mismatch{v, "(whole entry)", "accepted", "rejected: " + err.Error()})
			continue
		}
		obs[v.Syntax] = got
		var fields []string
		for f := range want {
			fields = append(fields, f)
		}
		for f := range got {
			if _, ok := want[f]; !ok {
				fields = append(fields, f)
			}
		}
		sort.Strings(fields)
		for _, f := range fields {
			w, wok := want[f]
			g, gok := got[f]
			if !wok {
				w = "(absent)"
			}
			if !gok {
				g = "(absent)"
			}
			if w != g {
				res.mism = append(res.mism, mismatch{v, f, w, g})
			}
		}
	}
	// both syntaxes against each other, on every field for which the
	// documentation does not state a difference. Equality with the same
	// documented entry already implies it (every such difference is one of the
	// mismatches collected above); it is counted as an independent statement.
	if a, b := obs["toml"], obs["cmd"]; a != nil && b != nil {
		for f, av := range a {
			if k.WantCmd != nil && k.Want[f] != k.WantCmd[f] {
				continue
			}
			res.cross++
			if b[f] != av {
				res.crossDiffer++
			}
		}
	}
	return res
}

// account does the bookkeeping and reporting for one finished case.
func account(k *kase, res result) {
	st.perKind[k.Kind]++
	st.evals += res.evals
	st.cross += res.cross
	st.crossDiffer += res.crossDiffer
	if base, ok := baseline[k.Kind]; ok && !mapsEqual(base, k.Want) {
		st.nontrivial[k.Kind+" "+ids(k.Set)+" "+k.Desc] = true
	}
	if len(st.samples) < 14 && (len(k.Set) == 2 || len(k.Set) > 6) && st.perKind[k.Kind]%97 == 5 {
		st.samples = append(st.samples, map[string]interface{}{"kind": k.Kind, "options": ids(k.Set), "configs": k.Variants})
	}
	for _, m := range res.mism {
		report(k, m.v, m.field, m.want, m.got)
	}
}

// --- carbon routes

func destAddr(typ string, i int) (text, addr, instance string) {
	addr = fmt.Sprintf("127.0.0.%d:1", i)
	if typ == "consistentHashing" {
		instance = fmt.Sprintf("inst%d", i)
		return addr + ":" + instance, addr, instance
	}
	return addr, addr, ""
}

func carbonCase(typ string, ndests int, set []slot, substr bool, desc string) *kase {
	key := "rk-" + typ
	k := &kase{Kind: fmt.Sprintf("%s/%d", typ, ndests), Set: set, Desc: desc}
	want := map[string]string{"blacklist.n": "0", "rewriter.n": "0", "aggregation.n": "0", "route.n": "1"}
	want["route[0].key"] = key
	want["route[0].type"] = typ
	want["route[0].ndests"] = strconv.Itoa(ndests)
	expectOpts(want, "route[0].", routeDocs, scoped(set, "r"))
	var dests []string
	for i := 1; i <= ndests; i++ {
		text, addr, inst := destAddr(typ, i)
		sc := fmt.Sprintf("d%d", i)
		if o := cmdOpts(scoped(set, sc)); o != "" {
			text += " " + o
		}
		dests = append(dests, text)
		p := fmt.Sprintf("route[0].d%d.", i)
		expectOpts(want, p, destDocs, scoped(set, sc))
		want[p+"addr"] = addr
		want[p+"instance"] = inst
		want[p+"spooldir"] = tableSpoolDir
	}
	k.Want = want
	var tl []string
	tl = append(tl, "[[route]]", "key = '"+key+"'", "type = '"+typ+"'")
	for _, s := range scoped(set, "r") {
		tl = append(tl, tomlOpt(s, substr))
	}
	tl = append(tl, "destinations = [")
	for _, d := range dests {
		tl = append(tl, "  '"+d+"',")
	}
	tl = append(tl, "]")
	k.Variants = append(k.Variants, variant{"toml", []string{strings.Join(tl, "\n") + "\n"}})
	if !substr {
		cmd := "addRoute " + typ + " " + key
		if o := cmdOpts(scoped(set, "r")); o != "" {
			cmd += " " + o
		}
		cmd += "  " + strings.Join(dests, "  ")
		k.Variants = append(k.Variants, variant{"cmd", []string{cmd}})
		if len(set) > 6 {
			k.Variants = append(k.Variants, variant{"init", []string{"[init]\ncmds = [\n  '" + cmd + "',\n]\n"}})
		}
	}
	return k
}

func carbonCases(typ string, ndests int, rev, triples bool) []*kase {
	g := &numGen{}
	u := mkSlots("r", routeDocs, g, false)
	for i := 1; i <= ndests; i++ {
		// docs/tcp-admin-interface.md does not say so, but a consistentHashing route
		// refuses destination filters with an error (checked separately below)
		u = append(u, mkSlots(fmt.Sprintf("d%d", i), destDocs, g, typ == "consistentHashing")...)
	}
	var out []*kase
	for _, set := range subsets(u, rev, triples) {
		out = append(out, carbonCase(typ, ndests, set, false, ""))
		if has(set, "r", "sub") {
			out = append(out, carbonCase(typ, ndests, set, true, "substr"))
		}
	}
	if typ == "consistentHashing" {
		// a filter on a destination of a consistentHashing route: rejected with an
		// error, or honoured - never silently dropped
		for i := 1; i <= ndests; i++ {
			for _, s := range mkSlots(fmt.Sprintf("d%d", i), destDocs[:6], g, false) {
				k := carbonCase(typ, ndests, []slot{s}, false, "dest-filter")
				k.AcceptError = true
				out = append(out, k)
			}
		}
	}
	return out
}

// zeroCases: every numeric option written explicitly as 0, alone, in both syntaxes. Zero is the
// one value a parser can mistake for "not given": the entry must carry 0 (the option was
// specified), or the configuration is refused with an error - never the default in silence.
func zeroCases() []*kase {
	var out []*kase
	numeric := func(d optDoc) bool { return d.Unit == "int" || d.Unit == "ms" || d.Unit == "us" || d.Unit == "float" }
	for _, typ := range []string{"sendAllMatch", "consistentHashing"} {
		for _, d := range destDocs {
			if numeric(d) {
				k := carbonCase(typ, 1, []slot{{"d1", d, "0"}}, false, "zero")
				k.AcceptError = true
				out = append(out, k)
			}
		}
	}
	var bufDoc optDoc
	for _, d := range gnDocs {
		if d.Name == "bufSize" {
			bufDoc = d
		}
	}
	for _, d := range gnDocs {
		if numeric(d) {
			set := []slot{{"g", d, "0"}}
			if d.Name != "bufSize" {
				set = append([]slot{{"g", bufDoc, "7"}}, set...)
			}
			k := gnCase(set, false, "zero")
			k.AcceptError = true
			out = append(out, k)
		}
	}
	for _, d := range aggDocs {
		if numeric(d) {
			k := aggCase("sum", []slot{{"a", d, "0"}}, false, false, "zero")
			k.AcceptError = true
			out = append(out, k)
		}
	}
	return out
}

// --- grafanaNet

const gnAddr = "http://127.0.0.1:1/metrics"
const gnApiKey = "gn-api-key"

func gnCase(set []slot, substr bool, desc string) *kase {
	return gnCaseKey("rk-gnet", set, substr, desc)
}

func gnCaseKey(key string, set []slot, substr bool, desc string) *kase {
	k := &kase{Kind: "grafanaNet", Set: set, Desc: desc}
	want := map[string]string{"blacklist.n": "0", "rewriter.n": "0", "aggregation.n": "0", "route.n": "1"}
	p := "route[0]."
	want[p+"key"] = key
	want[p+"type"] = "grafanaNet"
	want[p+"addr"] = gnAddr
	want[p+"apiKey"] = gnApiKey
	want[p+"schemasFile"] = schemasFile
	want[p+"aggregationFile"] = aggFile
	expectOpts(want, p, gnDocs, set)
	k.Want = want
	tl := []string{"[[route]]", "key = '" + key + "'", "type = 'grafanaNet'", "addr = '" + gnAddr + "'", "apiKey = '" + gnApiKey + "'",
		"schemasFile = '" + schemasFile + "'", "aggregationFile = '" + aggFile + "'"}
	var mopts, oopts []slot
	for _, s := range set {
		tl = append(tl, tomlOpt(s, substr))
		if s.Doc.Unit == "str" {
			mopts = append(mopts, s)
		} else {
			oopts = append(oopts, s)
		}
	}
	k.Variants = append(k.Variants, variant{"toml", []string{strings.Join(tl, "\n") + "\n"}})
	if !substr {
		// docs/tcp-admin-interface.md:77
		cmd := "addRoute grafanaNet " + key
		if o := cmdOpts(mopts); o != "" {
			cmd += " " + o
		}
		cmd += "  " + gnAddr + " " + gnApiKey + " " + schemasFile + " " + aggFile
		if o := cmdOpts(oopts); o != "" {
			cmd += " " + o
		}
		k.Variants = append(k.Variants, variant{"cmd", []string{cmd}})
		if len(set) > 6 {
			k.Variants = append(k.Variants, variant{"init", []string{"[init]\ncmds = [\n  '" + cmd + "',\n]\n"}})
		}
	}
	return k
}

// gnCases. A grafanaNet route allocates its queues when it is created: bufSize
// slots in total, 240 MB with the documented default, which costs about a second
// or more on the test machine. With ballast (quick tier) every single and pair
// that does not set bufSize additionally sets a small bufSize, written first so
// that a later option that wrongly lands in bufSize still shows; the bufSize
// default itself is then checked by the empty set (both syntaxes), and bufSize
// alone and paired with every other option is part of the enumeration anyway.
// The thorough tier runs singles and pairs without ballast and adds every
// triple (with ballast).
func gnCases(rev, ballast, triples bool) []*kase {
	g := &numGen{}
	u := mkSlots("g", gnDocs, g, false)
	var bufDoc optDoc
	for _, d := range gnDocs {
		if d.Name == "bufSize" {
			bufDoc = d
		}
	}
	small := slot{"g", bufDoc, g.num()}
	var out []*kase
	for _, set := range subsets(u, rev, triples) {
		desc := ""
		if (ballast && len(set) >= 1 && len(set) <= 2 || len(set) == 3) && !has(set, "g", "bufSize") {
			set = append([]slot{small}, set...)
			desc = "+bufSize"
		}
		out = append(out, gnCase(set, false, desc))
		if has(set, "g", "sub") {
			out = append(out, gnCase(set, true, desc+"substr"))
		}
	}
	return out
}

// --- aggregations

const aggRegex = `^aggin\.(.*)`
const aggFmt = "aggout.$1"
const aggInterval, aggWait = "7", "11"

func aggCase(fun string, set []slot, substr bool, tomlOnly bool, desc string) *kase {
	k := &kase{Kind: "aggregation", Set: set, Desc: desc + " " + fun}
	mk := func(cacheDefault string) map[string]string {
		want := map[string]string{"blacklist.n": "0", "rewriter.n": "0", "aggregation.n": "1", "route.n": "0"}
		p := "aggregation[0]."
		expectOpts(want, p, aggDocs, nil)
		want[p+"cache"] = cacheDefault
		for _, s := range set {
			want[p+s.Doc.Name] = canon(s.Doc.Unit, s.Val)
		}
		want[p+"function"] = fun
		want[p+"regex"] = aggRegex
		want[p+"format"] = aggFmt
		want[p+"interval"] = aggInterval
		want[p+"wait"] = aggWait
		return want
	}
	k.Want = mk("false")
	k.WantCmd = mk(aggCacheDefaultCmd)
	tl := []string{"[[aggregation]]", "function = '" + fun + "'", "regex = '" + aggRegex + "'", "format = '" + aggFmt + "'", "interval = " + aggInterval, "wait = " + aggWait}
	var mopts, oopts []slot
	for _, s := range set {
		tl = append(tl, tomlOpt(s, substr))
		if s.Doc.Unit == "str" {
			mopts = append(mopts, s)
		} else {
			oopts = append(oopts, s)
		}
	}
	k.Variants = append(k.Variants, variant{"toml", []string{strings.Join(tl, "\n") + "\n"}})
	if !substr && !tomlOnly {
		// docs/tcp-admin-interface.md:17: addAgg <func> <match> <fmt> <interval> <wait> [cache=true/false]
		cmd := "addAgg " + fun + " regex=" + aggRegex
		if o := cmdOpts(mopts); o != "" {
			cmd += " " + o
		}
		cmd += " " + aggFmt + " " + aggInterval + " " + aggWait
		if o := cmdOpts(oopts); o != "" {
			cmd += " " + o
		}
		k.Variants = append(k.Variants, variant{"cmd", []string{cmd}})
		if len(set) > 6 {
			k.Variants = append(k.Variants, variant{"init", []string{"[init]\ncmds = [\n  '" + cmd + "',\n]\n"}})
		}
	}
	return k
}

func aggCases(rev bool) []*kase {
	g := &numGen{}
	u := mkSlots("a", aggDocs, g, false)
	var out []*kase
	for _, set := range subsets(u, rev, true) {
		out = append(out, aggCase("sum", set, false, false, ""))
		if has(set, "a", "sub") {
			out = append(out, aggCase("sum", set, true, false, "substr"))
		}
	}
	for _, f := range aggFuncsBoth {
		out = append(out, aggCase(f, nil, false, false, "function"))
		out = append(out, aggCase(f, u, false, false, "function"))
	}
	out = append(out, aggCase("percentiles", nil, false, true, "function"))
	return out
}

// --- sub and substr together: `sub` is the documented option, it must not be ignored
func subAndSubstrCases() []*kase {
	var out []*kase
	sub := slot{"r", routeDocs[2], "rsub"}
	k := carbonCase("sendAllMatch", 1, []slot{sub}, false, "sub+substr")
	k.Variants = []variant{{"toml", []string{strings.Replace(k.Variants[0].Text[0], "sub = 'rsub'", "sub = 'rsub'\nsubstr = 'other'", 1)}}}
	out = append(out, k)
	k = carbonCase("sendAllMatch", 1, []slot{sub}, false, "substr+sub")
	k.Variants = []variant{{"toml", []string{strings.Replace(k.Variants[0].Text[0], "sub = 'rsub'", "substr = 'other'\nsub = 'rsub'", 1)}}}
	out = append(out, k)
	asub := slot{"a", aggDocs[2], "asub"}
	k = aggCase("sum", []slot{asub}, false, true, "sub+substr")
	k.Variants = []variant{{"toml", []string{strings.Replace(k.Variants[0].Text[0], "sub = 'asub'", "sub = 'asub'\nsubstr = 'other'", 1)}}}
	out = append(out, k)
	gsub := slot{"g", gnDocs[2], "gsub"}
	k = gnCase([]slot{gsub}, false, "sub+substr")
	k.Variants = []variant{{"toml", []string{strings.Replace(k.Variants[0].Text[0], "sub = 'gsub'", "sub = 'gsub'\nsubstr = 'other'", 1)}}}
	out = append(out, k)
	return out
}

// --- several entries of every kind in one configuration: an option must not
// leak into a neighbouring entry (two grafanaNet routes: the section form finds
// its booleans by looking the route key up in the decoder's metadata)
var idxRe = regexp.MustCompile(`^(blacklist|rewriter|aggregation|route)\[(\d+)\]\.`)

func combine(desc string, ks []*kase) *kase {
	out := &kase{Kind: "combined", Desc: desc}
	merge := func(pick func(k *kase) map[string]string) map[string]string {
		want := map[string]string{}
		n := map[string]int{}
		for _, k := range ks {
			w := pick(k)
			add := map[string]int{}
			for f, v := range w {
				if strings.HasSuffix(f, ".n") && !strings.Contains(f, "[") {
					c, _ := strconv.Atoi(v)
					add[strings.TrimSuffix(f, ".n")] = c
					continue
				}
				m := idxRe.FindStringSubmatch(f)
				i, _ := strconv.Atoi(m[2])
				want[fmt.Sprintf("%s[%d].%s", m[1], i+n[m[1]], f[len(m[0]):])] = v
			}
			for list, c := range add {
				n[list] += c
			}
		}
		for _, list := range []string{"blacklist", "rewriter", "aggregation", "route"} {
			want[list+".n"] = strconv.Itoa(n[list])
		}
		return want
	}
	out.Want = merge(func(k *kase) map[string]string { return k.Want })
	out.WantCmd = merge(func(k *kase) map[string]string {
		if k.WantCmd != nil {
			return k.WantCmd
		}
		return k.Want
	})
	var doc string
	var cmds []string
	for _, k := range ks {
		out.Set = append(out.Set, k.Set...)
		for _, v := range k.Variants {
			switch v.Syntax {
			case "toml":
				doc += v.Text[0] + "\n"
			case "cmd":
				cmds = append(cmds, v.Text...)
			}
		}
	}
	var q []string
	for _, c := range cmds {
		q = append(q, "  '"+c+"',")
	}
	out.Variants = []variant{{"toml", []string{doc}}, {"cmd", cmds}, {"init", []string{"[init]\ncmds = [\n" + strings.Join(q, "\n") + "\n]\n"}}}
	return out
}

func combinedCases() []*kase {
	g := &numGen{}
	ga := mkSlots("g", gnDocs, g, false)
	var gb []slot // the second grafanaNet route sets only what the first does not need to show a leak
	for _, s := range mkSlots("h", gnDocs, g, false) {
		if s.Doc.Name == "bufSize" || s.Doc.Name == "concurrency" {
			s.Scope = "g"
			gb = append(gb, s)
		}
	}
	ca := func(typ string, nd int, all bool) *kase {
		g := &numGen{next: 400}
		u := mkSlots("r", routeDocs, g, false)
		for i := 1; i <= nd; i++ {
			u = append(u, mkSlots(fmt.Sprintf("d%d", i), destDocs, g, typ == "consistentHashing")...)
		}
		if !all {
			u = nil
		}
		return carbonCase(typ, nd, u, false, "")
	}
	agg := mkSlots("a", aggDocs, &numGen{}, false)
	bl := blacklistCases()
	rw := rewriterCases()
	return []*kase{
		combine("every kind once, all options", []*kase{bl[len(bl)-1], rw[0], aggCase("sum", agg, false, false, ""), ca("sendAllMatch", 2, true), gnCaseKey("rk-gnetA", ga, false, "")}),
		combine("option-less entries after fully specified ones", []*kase{aggCase("sum", agg, false, false, ""), aggCase("max", nil, false, false, ""), ca("sendAllMatch", 2, true), ca("sendFirstMatch", 1, false), ca("consistentHashing", 2, false), gnCaseKey("rk-gnetA", ga, false, ""), gnCaseKey("rk-gnetB", gb, false, "")}),
		combine("fully specified entries after option-less ones", []*kase{aggCase("max", nil, false, false, ""), aggCase("sum", agg, false, false, ""), ca("sendFirstMatch", 1, false), ca("sendAllMatch", 2, true), gnCaseKey("rk-gnetB", gb, false, ""), gnCaseKey("rk-gnetA", ga, false, "")}),
	}
}

// --- rewriters: docs/rewriting.md (old, new, max; `not` only in sections, line 22),
// docs/tcp-admin-interface.md:14 addRewriter <old> <new> <max>
var tokenLike = map[string]bool{"404": true, "200": true, "true": true, "false": true, "prefix": true, "sub": true}

func rewriterCases() []*kase {
	var out []*kase
	type ow struct{ old, new, max string }
	for _, c := range []ow{
		{"rwold", "rwnew", "-1"}, {"rwold", "rwnew", "1"}, {"rwold", "rwnew", "2"}, {"rwnew", "rwold", "3"},
		{`/rw\.([^.]+)/`, "rws.${1}.x", "-1"}, {"/^/", "rwpfx.", "-1"}, {"=", "_is_", "-1"},
		// values that look like another kind of token to the command scanner (digits only, an option
		// name, a boolean): refused by a syntax, or the same entry in both - never a different one
		{"404", "rwnew", "-1"}, {"rwold", "200", "-1"}, {"404", "200", "1"}, {"true", "false", "-1"}, {"prefix", "sub", "-1"},
	} {
		for _, not := range []string{"(omitted)", "", "rwnot", "/rwn[0-9]/"} {
			k := &kase{Kind: "rewriter", Desc: fmt.Sprintf("old=%s new=%s max=%s not=%s", c.old, c.new, c.max, not)}
			k.Set = []slot{{"w", optDoc{"old", "str", "", "docs/rewriting.md:27-31"}, c.old}, {"w", optDoc{"max", "int", "", "docs/rewriting.md:5"}, c.max}, {"w", optDoc{"not", "str", "", "docs/rewriting.md:22"}, not}}
			want := map[string]string{"blacklist.n": "0", "rewriter.n": "1", "aggregation.n": "0", "route.n": "0"}
			want["rewriter[0].old"] = c.old
			want["rewriter[0].new"] = c.new
			want["rewriter[0].max"] = c.max
			want["rewriter[0].not"] = ""
			tl := []string{"[[rewriter]]", "old = '" + c.old + "'", "new = '" + c.new + "'"}
			if not != "(omitted)" {
				tl = append(tl, "not = '"+not+"'")
				want["rewriter[0].not"] = not
			}
			tl = append(tl, "max = "+c.max)
			k.Want = want
			k.Variants = append(k.Variants, variant{"toml", []string{strings.Join(tl, "\n") + "\n"}})
			if tokenLike[c.old] || tokenLike[c.new] {
				k.AcceptError = true
			}
			if not == "(omitted)" || not == "" {
				cmd := "addRewriter " + c.old + " " + c.new + " " + c.max
				k.Variants = append(k.Variants, variant{"cmd", []string{cmd}}, variant{"init", []string{"[init]\ncmds = [\n  '" + cmd + "',\n]\n"}})
			}
			out = append(out, k)
		}
	}
	return out
}

// --- blacklist
func blacklistCases() []*kase {
	var out []*kase
	mk := func(types []string, desc string) *kase {
		k := &kase{Kind: "blacklist", Desc: desc}
		want := map[string]string{"rewriter.n": "0", "aggregation.n": "0", "route.n": "0", "blacklist.n": strconv.Itoa(len(types))}
		var entries, cmds []string
		for i, ty := range types {
			v := strVal("b", ty)
			k.Set = append(k.Set, slot{fmt.Sprintf("b%d", i), optDoc{ty, "str", "", "docs/config.md:12-17"}, v})
			for _, d := range routeDocs {
				want[fmt.Sprintf("blacklist[%d].%s", i, d.Name)] = ""
			}
			want[fmt.Sprintf("blacklist[%d].%s", i, ty)] = v
			entries = append(entries, "  '"+ty+" "+v+"',")
			cmds = append(cmds, "addBlack "+ty+" "+v)
		}
		k.Want = want
		k.Variants = append(k.Variants, variant{"toml", []string{"blacklist = [\n" + strings.Join(entries, "\n") + "\n]\n"}})
		k.Variants = append(k.Variants, variant{"cmd", cmds})
		var q []string
		for _, c := range cmds {
			q = append(q, "  '"+c+"',")
		}
		k.Variants = append(k.Variants, variant{"init", []string{"[init]\ncmds = [\n" + strings.Join(q, "\n") + "\n]\n"}})
		return k
	}
	for _, ty := range blackTypes {
		out = append(out, mk([]string{ty}, ty))
	}
	for i := range blackTypes {
		for j := range blackTypes {
			if i != j {
				out = append(out, mk([]string{blackTypes[i], blackTypes[j]}, blackTypes[i]+","+blackTypes[j]))
			}
		}
	}
	out = append(out, mk(blackTypes, "all six, in order"))
	return out
}

// ---------------------------------------------------------------------------
// Part B: interpolation

var docVars = map[string]string{ // examples/carbon-relay-ng.ini:5-7 (${HOST}); docs/config.md:231-238 (${GRAFANA_NET_*})
	"GRAFANA_NET_ADDR":    "http://gnet.example:8/metrics",
	"GRAFANA_NET_API_KEY": "KEYVALUE",
	"GRAFANA_NET_USER_ID": "424242",
}

func isIdent(c byte) bool {
	return c == '_' || (c >= '0' && c <= '9') || (c >= 'a' && c <= 'z') || (c >= 'A' && c <= 'Z')
}

// refExpand: substitute the documented variables, copy everything else.
// shellUnits: an undocumented ${...} / $name / $$ is one unit that is copied
// as a whole (nothing inside it is substituted); otherwise only the `$` is
// copied and scanning resumes right after it. bare: $NAME without braces
// counts as a reference to a documented variable.
func refExpand(doc string, shellUnits, bare bool) string {
	var out []byte
	for i := 0; i < len(doc); {
		if doc[i] != '$' {
			out = append(out, doc[i])
			i++
			continue
		}
		rest := doc[i+1:]
		if strings.HasPrefix(rest, "{") {
			if j := strings.IndexByte(rest, '}'); j >= 0 {
				if v, ok := docVars[rest[1:j]]; ok {
					out = append(out, v...)
					i += j + 2
					continue
				}
				if shellUnits {
					out = append(out, doc[i:i+j+2]...)
					i += j + 2
					continue
				}
			}
			out = append(out, '$')
			i++
			continue
		}
		n := 0
		for n < len(rest) && isIdent(rest[n]) {
			n++
		}
		if n > 0 {
			if v, ok := docVars[rest[:n]]; ok && bare {
				out = append(out, v...)
				i += n + 1
				continue
			}
			out = append(out, doc[i:i+n+1]...)
			i += n + 1
			continue
		}
		if shellUnits && strings.HasPrefix(rest, "$") {
			out = append(out, "$$"...)
			i += 2
			continue
		}
		out = append(out, '$')
		i++
	}
	return string(out)
}

func accepted(doc string) []string {
	seen := map[string]bool{}
	var out []string
	for _, su := range []bool{false, true} {
		for _, bare := range []bool{true, false} {
			s := refExpand(doc, su, bare)
			if !seen[s] {
				seen[s] = true
				out = append(out, s)
			}
		}
	}
	return out
}

var forms = []string{
	"${HOST}", "$HOST", "${GRAFANA_NET_ADDR}", "$GRAFANA_NET_ADDR", "${GRAFANA_NET_API_KEY}", "$GRAFANA_NET_API_KEY",
	"${GRAFANA_NET_USER_ID}", "$GRAFANA_NET_USER_ID", "${GRAFANA_NET_USER_ID}:${GRAFANA_NET_API_KEY}",
	"$1", "${1}", "$1.$2", "${1}.${2}", "${1}${2}", "${1}x", "$1x", "${1}_total", "${12}", "${name}", "$name",
	"$$", "$x", "${x}", "${}", "$", "${a", "${", "$}", "$HOSTNAME", "${HOSTNAME}", "${INSTANCE}", "$INSTANCE", "${host}",
	"$ ", "$-", "$*", "${*}", "$.", "100$", "${HOST}${1}", "${1}${HOST}", "$HOST$1",
}

type context struct{ name, pre, post string }

var contexts = []context{
	{"bare", "", ""},
	{"instance", "instance = \"", "\"\n"},
	{"rewriter new", "[[rewriter]]\nold = '/server\\.([^.]+)/'\nnew = 'servers.", ".collectd'\nnot = ''\nmax = -1\n"},
	{"aggregation format", "[[aggregation]]\nfunction = 'sum'\nregex = '^stats\\.(.*)\\.(.*)'\nformat = 'agg.", ".sum'\ninterval = 10\nwait = 20\n"},
	{"init cmd", "[init]\ncmds = [\n 'addRewriter /server\\.([^.]+)/ servers.", ".collectd -1',\n]\n"},
	{"grafanaNet apikey", "[[route]]\nkey = 'grafanaNet'\ntype = 'grafanaNet'\naddr = \"${GRAFANA_NET_ADDR}\"\napikey = \"", "\"\n"},
}

var atoms = []string{"$", "{", "}", "1", "a", "HOST", "_", "."}

func atomDocs(maxLen int) []string {
	var out []string
	var rec func(cur string, n int)
	rec = func(cur string, n int) {
		if n > 0 {
			out = append(out, cur)
		}
		if n == maxLen {
			return
		}
		for _, a := range atoms {
			rec(cur+a, n+1)
		}
	}
	rec("", 0)
	sort.SliceStable(out, func(i, j int) bool { return len(out[i]) < len(out[j]) })
	seen := map[string]bool{}
	var uniq []string
	for _, d := range out {
		if !seen[d] && strings.Contains(d, "$") {
			seen[d] = true
			uniq = append(uniq, d)
		}
	}
	return uniq
}

type expander struct {
	bin   string
	built chan error
}

func startExpanderBuild() *expander {
	e := &expander{built: make(chan error, 1)}
	overlay := os.Getenv("VERIF_OVERLAY")
	work := os.Getenv("VERIF_WORK")
	if overlay == "" || work == "" {
		e.built <- fmt.Errorf("VERIF_OVERLAY / VERIF_WORK not set: run through ./check")
		return e
	}
	e.bin = filepath.Join(work, "crng-c20")
	go func() {
		// The helper is rebuilt from the tree unless a helper built from exactly
		// these sources is still there (linking costs more than the whole of part B).
		key := sourceKey(os.Getenv("VERIF_REPO"))
		keyFile := e.bin + ".key"
		if old, err := os.ReadFile(keyFile); err == nil && key != "" && string(old) == key {
			if _, err := os.Stat(e.bin); err == nil {
				e.built <- nil
				return
			}
		}
		os.Remove(keyFile)
		args := []string{"build", "-ldflags=-s -w"}
		if mf := os.Getenv("VERIF_MODFLAG"); mf != "" {
			args = append(args, mf)
		}
		args = append(args, "-overlay", overlay, "-o", e.bin, "github.com/grafana/carbon-relay-ng/cmd/carbon-relay-ng")
		c := exec.Command("go", args...)
		c.Dir = filepath.Join(kit.Root, "mc")
		c.Env = append(os.Environ(), "GOFLAGS=-mod=mod", "GOPROXY=off", "GOSUMDB=off", "GOTOOLCHAIN=local", "CGO_ENABLED=0")
		outp, err := c.CombinedOutput()
		if err != nil {
			err = fmt.Errorf("building cmd/carbon-relay-ng with the expand hook: %v\n%s", err, outp)
		} else if key != "" {
			os.WriteFile(keyFile, []byte(key), 0o644)
		}
		e.built <- err
	}()
	return e
}

// sourceKey hashes everything the helper binary is built from: every .go file,
// go.mod and go.sum of the tree under test, the accessor files and the harness
// module files. "" if anything cannot be read (then the helper is always rebuilt).
func sourceKey(repo string) string {
	if repo == "" {
		repo = "/repo"
	}
	h := sha256.New()
	fmt.Fprintln(h, runtime.Version(), repo)
	ok := true
	for _, root := range []string{repo, filepath.Join(kit.Root, "mc", "access"), filepath.Join(kit.Root, "mc", "go.mod"), filepath.Join(kit.Root, "mc", "go.sum")} {
		err := filepath.Walk(root, func(path string, fi os.FileInfo, err error) error {
			if err != nil {
				return err
			}
			if fi.IsDir() {
				if fi.Name() == ".git" {
					return filepath.SkipDir
				}
				return nil
			}
			n := fi.Name()
			if !strings.HasSuffix(n, ".go") && !strings.HasSuffix(n, ".go.in") && n != "go.mod" && n != "go.sum" {
				return nil
			}
			b, err := os.ReadFile(path)
			if err != nil {
				return err
			}
			fmt.Fprintf(h, "%s %d\n", path, len(b))
			h.Write(b)
			return nil
		})
		if err != nil {
			ok = false
		}
	}
	if !ok {
		return ""
	}
	return hex.EncodeToString(h.Sum(nil))
}

func (e *expander) expand(docs []string) ([]string, error) {
	dir := filepath.Join(tmpDir, "expand")
	os.MkdirAll(dir, 0o755)
	b, _ := json.Marshal(docs)
	if err := os.WriteFile(filepath.Join(dir, "in.json"), b, 0o644); err != nil {
		return nil, err
	}
	os.Remove(filepath.Join(dir, "out.json"))
	c := exec.Command(e.bin)
	c.Env = append(os.Environ(), "VERIF_C20_EXPAND="+dir)
	for k, v := range docVars {
		if k != "HOST" {
			c.Env = append(c.Env, k+"="+v)
		}
	}
	if outp, err := c.CombinedOutput(); err != nil {
		return nil, fmt.Errorf("expand helper: %v\n%s", err, outp)
	}
	b, err := os.ReadFile(filepath.Join(dir, "out.json"))
	if err != nil {
		return nil, err
	}
	var outs []string
	if err := json.Unmarshal(b, &outs); err != nil {
		return nil, err
	}
	if len(outs) != len(docs) {
		return nil, fmt.Errorf("expand helper returned %d documents for %d", len(outs), len(docs))
	}
	return outs, nil
}

func okExpansion(doc, got string) bool {
	for _, a := range accepted(doc) {
		if a == got {
			return true
		}
	}
	return false
}

type bviol struct {
	sig, what string
	replay    interface{}
}

// bresult is what part B collected; it is merged into the report after part A.
type bresult struct {
	infra      string
	buildWall  float64
	evals      int64
	docs       int64
	nontrivial []string
	samples    []interface{}
	viol       []bviol
}

// changeClass names how an interpolated document differs from every accepted
// reading, so that one root cause gives one signature.
func changeClass(doc, got string) string {
	strip := func(s string) string { return strings.NewReplacer("{", "", "}", "").Replace(s) }
	want := accepted(doc)[0]
	switch {
	case len(got) < len(want) && strip(got) == strip(want):
		return "braces lost"
	case len(got) < len(want):
		return "characters eaten"
	}
	return "changed"
}

func partB(e *expander, maxLen int) *bresult {
	b := &bresult{}
	t0 := time.Now()
	if err := <-e.built; err != nil {
		b.infra = err.Error()
		return b
	}
	b.buildWall = time.Since(t0).Seconds()

	// B1: listed forms in contexts
	type fc struct{ form, ctx, doc string }
	var list []fc
	var docs []string
	for _, f := range forms {
		for _, c := range contexts {
			d := c.pre + f + c.post
			list = append(list, fc{f, c.name, d})
			docs = append(docs, d)
		}
	}
	outs, err := e.expand(docs)
	if err != nil {
		b.infra = err.Error()
		return b
	}
	type classInfo struct {
		first    int
		forms    []string
		seenForm map[string]bool
	}
	classes := map[string]*classInfo{}
	var order []string
	for i, x := range list {
		b.evals++
		b.docs++
		b.nontrivial = append(b.nontrivial, "expand "+x.doc)
		if !okExpansion(x.doc, outs[i]) {
			c := changeClass(x.doc, outs[i])
			ci := classes[c]
			if ci == nil {
				ci = &classInfo{first: i, seenForm: map[string]bool{}}
				classes[c] = ci
				order = append(order, c)
			}
			if !ci.seenForm[x.form] {
				ci.seenForm[x.form] = true
				ci.forms = append(ci.forms, x.form)
			}
		}
	}
	for _, c := range order {
		ci := classes[c]
		x := list[ci.first]
		b.viol = append(b.viol, bviol{fmt.Sprintf("expand %s: %s", c, x.form),
			fmt.Sprintf("interpolation of the configuration file changes an undocumented `$` sequence (%s): document %q is handed to the TOML decoder as %q, expected %q - only ${HOST} and ${GRAFANA_NET_ADDR|API_KEY|USER_ID} are documented variables. Forms affected in the same way: %q", c, x.doc, outs[ci.first], accepted(x.doc)[0], ci.forms),
			map[string]interface{}{"part": "expand", "document": x.doc, "got": outs[ci.first], "accepted": accepted(x.doc), "forms": ci.forms}})
	}
	b.samples = append(b.samples, map[string]interface{}{"part": "expand forms", "forms": len(forms), "contexts": len(contexts), "example": list[len(contexts)*10+2].doc})

	// B2: every string over the atom alphabet
	docs = atomDocs(maxLen)
	outs, err = e.expand(docs)
	if err != nil {
		b.infra = err.Error()
		return b
	}
	nbad := 0
	first := -1
	for i, d := range docs {
		b.evals++
		b.docs++
		if len(d) > 1 {
			b.nontrivial = append(b.nontrivial, "expand "+d)
		}
		if !okExpansion(d, outs[i]) {
			nbad++
			if first < 0 {
				first = i
			}
		}
	}
	if first >= 0 {
		d := docs[first]
		b.viol = append(b.viol, bviol{"expand shortest " + d,
			fmt.Sprintf("interpolation changes an undocumented `$` sequence: %q becomes %q (accepted: %q); %d of the %d documents over atoms %v up to %d atoms are changed wrongly, this is the shortest", d, outs[first], accepted(d), nbad, len(docs), atoms, maxLen),
			map[string]interface{}{"part": "expand", "document": d, "got": outs[first], "accepted": accepted(d), "failing": nbad, "of": len(docs)}})
	}
	b.samples = append(b.samples, map[string]interface{}{"part": "expand atoms", "atoms": atoms, "max_atoms": maxLen, "documents": len(docs), "last": docs[len(docs)-1]})

	// B3: end to end - a documented rewriter template through file interpolation,
	// TOML decoding, InitTable and the rewriter itself.
	// docs/rewriting.md:8: The "new" value can include submatch identifiers
	// (regexp.Expand) in the format ${1}.
	line := "server.web1.cpu 1 2"
	var e2eFirst *bviol
	var e2eAll []string
	for _, tmpl := range []string{"servers.${1}.collectd", "servers.${1}_x", "${1}x.servers"} {
		wantLine := string(regexp.MustCompile(`server\.([^.]+)`).ReplaceAll([]byte(line), []byte(tmpl)))
		sec := "[[rewriter]]\nold = '/server\\.([^.]+)/'\nnew = '" + tmpl + "'\nnot = ''\nmax = -1\n"
		ini := "[init]\ncmds = [\n 'addRewriter /server\\.([^.]+)/ " + tmpl + " -1',\n]\n"
		outs, err := e.expand([]string{sec, ini})
		if err != nil {
			b.infra = err.Error()
			return b
		}
		for i, syn := range []string{"section", "init command"} {
			b.evals++
			b.nontrivial = append(b.nontrivial, "e2e "+syn+tmpl)
			t, err := runTOML(outs[i], spoolDir)
			got := "(no rewriter)"
			if err != nil {
				got = "error: " + err.Error()
			} else if len(t.Rewriters) == 1 {
				got = string(t.Rewriters[0].Do([]byte(line)))
			}
			if got != wantLine {
				e2eAll = append(e2eAll, fmt.Sprintf("%s new=%s -> %q", syn, tmpl, got))
				if e2eFirst == nil {
					e2eFirst = &bviol{fmt.Sprintf("expand end-to-end rewriter %s new=%s", syn, tmpl),
						fmt.Sprintf("a config file with a rewriter (%s) old=/server\\.([^.]+)/ new=%s rewrites %q to %q; with the documented ${1} meaning (docs/rewriting.md:8) it is %q. The file was interpolated to: %q", syn, tmpl, line, got, wantLine, outs[i]),
						map[string]interface{}{"part": "expand-e2e", "document": []string{sec, ini}[i], "interpolated": outs[i], "line": line, "got": got, "want": wantLine}}
				}
			}
		}
	}
	if e2eFirst != nil {
		e2eFirst.what += fmt.Sprintf(" (all failing: %q)", e2eAll)
		b.viol = append(b.viol, *e2eFirst)
	}
	return b
}

// ---------------------------------------------------------------------------

func replay(path string) {
	exit := func(code int) {
		os.RemoveAll(tmpDir)
		os.Exit(code)
	}
	var r struct {
		Part     string   `json:"part"`
		Syntax   string   `json:"syntax"`
		Text     []string `json:"text"`
		Document string   `json:"document"`
		Field    string   `json:"field"`
		Want     string   `json:"want"`
	}
	if err := kit.LoadReplay(path, &r); err != nil {
		fmt.Fprintln(rep.Out, "replay:", err)
		exit(2)
	}
	switch r.Part {
	case "entry":
		got, err := runVariant(variant{r.Syntax, r.Text}, spoolDir)
		fmt.Fprintf(rep.Out, "config (%s):\n%s\n", r.Syntax, strings.Join(r.Text, "\n"))
		if err != nil {
			fmt.Fprintf(rep.Out, "rejected: %v\n", err)
			exit(1)
		}
		var fs []string
		for f := range got {
			fs = append(fs, f)
		}
		sort.Strings(fs)
		for _, f := range fs {
			mark := ""
			if f == r.Field {
				mark = fmt.Sprintf("   <-- documentation says %q", r.Want)
			}
			fmt.Fprintf(rep.Out, "  %s = %q%s\n", f, got[f], mark)
		}
		if got[r.Field] != r.Want {
			exit(1)
		}
	default:
		e := startExpanderBuild()
		if err := <-e.built; err != nil {
			fmt.Fprintln(rep.Out, err)
			exit(2)
		}
		outs, err := e.expand([]string{r.Document})
		if err != nil {
			fmt.Fprintln(rep.Out, err)
			exit(2)
		}
		fmt.Fprintf(rep.Out, "document:     %q\ninterpolated: %q\naccepted:     %q\n", r.Document, outs[0], accepted(r.Document))
		if !okExpansion(r.Document, outs[0]) {
			exit(1)
		}
	}
	exit(0)
}

// heapBallast is never touched (it costs address space, not memory). It keeps
// the collector's heap goal - and with it the amount of freed memory the runtime
// keeps instead of returning it to the OS - above what the cases need, while the
// small GC percentage makes the collector recycle that memory every ~60 MB of
// allocation. Net effect: the harness keeps re-using the same few hundred MB.
// First-touch page faults (about 100 us each on the test machine, worse with a
// dozen threads faulting at once) dominated the run time before: 35 s instead
// of 14 s for the quick tier.
var heapBallast []byte

const (
	gcPercentSmall = 2  // almost everything: many small, short-lived allocations
	gcPercentGnet  = 50 // thorough grafanaNet group: 240 MB of live queues per route
)

func main() {
	heapBallast = make([]byte, 3<<30)
	debug.SetGCPercent(gcPercentSmall)
	rep = kit.New("C20", "exploration")
	log.SetLevel(log.PanicLevel)
	log.SetOutput(io.Discard)
	stdlog.SetOutput(io.Discard) // nsqd's disk queue logs through the standard logger
	rep.Quiet()
	aggregator.InitMetrics()

	// scratch: schemas/aggregation files for grafanaNet routes, spool directories,
	// interpolation documents. tmpfs when there is one (the spool and document
	// traffic is many small file operations); always removed at the end.
	work := os.Getenv("VERIF_WORK")
	if work == "" {
		work = filepath.Join(kit.Root, ".work", "c20")
	}
	tmpDir = filepath.Join(work, "c20-tmp")
	if fi, err := os.Stat("/dev/shm"); err == nil && fi.IsDir() {
		tmpDir = filepath.Join("/dev/shm", "verif-"+filepath.Base(work)+"-tmp")
	}
	os.RemoveAll(tmpDir)
	spoolDir = filepath.Join(tmpDir, "spool")
	if err := os.MkdirAll(spoolDir, 0o755); err != nil {
		rep.Infra = err.Error()
		rep.Finish(map[string]interface{}{})
	}
	schemasFile = filepath.Join(tmpDir, "storage-schemas.conf")
	aggFile = filepath.Join(tmpDir, "storage-aggregation.conf")
	os.WriteFile(schemasFile, []byte("[default]\npattern = .*\nretentions = 10s:1d\n"), 0o644)
	os.WriteFile(aggFile, []byte("[default]\npattern = .*\nxFilesFactor = 0.5\naggregationMethod = average\n"), 0o644)

	// ${HOST}: "hostname" (examples/carbon-relay-ng.ini:6); the pinned test
	// TestConfigHostVarInterpolation fixes it as the first label
	h, _ := os.Hostname()
	docVars["HOST"] = strings.SplitN(h, ".", 2)[0]

	if rep.ReplayOnly != "" {
		replay(rep.ReplayOnly)
	}

	maxLen := 5
	if rep.Thorough() {
		maxLen = 6
	}
	exp := startExpanderBuild()
	bdone := make(chan *bresult, 1)
	tB := time.Now()
	var wallB float64
	go func() {
		b := partB(exp, maxLen)
		wallB = time.Since(tB).Seconds()
		bdone <- b
	}()
	deadline := rep.Deadline(55*time.Second, 13*time.Minute)
	exhaustive := true
	var skipped []string

	// baselines (expected entry of the empty option set) for the non-trivial count
	baseline["aggregation"] = aggCase("sum", nil, false, false, "").Want
	baseline["grafanaNet"] = gnCase(nil, false, "").Want
	baseline["blacklist"] = map[string]string{}
	baseline["rewriter"] = map[string]string{}
	var groups [][]*kase
	var names []string
	add := func(name string, ks []*kase) { names = append(names, name); groups = append(groups, ks) }
	add("blacklist", blacklistCases())
	add("rewriter", rewriterCases())
	add("aggregation", aggCases(true))
	add("sub+substr", subAndSubstrCases())
	add("grafanaNet", gnCases(false, !rep.Thorough(), rep.Thorough()))
	baseline["combined"] = map[string]string{}
	add("combined", combinedCases())
	carbon := func(typ string, nd int) {
		name := fmt.Sprintf("%s/%d", typ, nd)
		baseline[name] = carbonCase(typ, nd, nil, false, "").Want
		add(name, carbonCases(typ, nd, rep.Thorough(), rep.Thorough() && nd == 1))
	}
	carbon("sendAllMatch", 1)
	carbon("sendFirstMatch", 1)
	carbon("consistentHashing", 2)
	carbon("sendAllMatch", 2)
	carbon("sendFirstMatch", 2)
	baseline["zero"] = map[string]string{}
	add("zero", zeroCases())

	// Run: the cases are independent (own table, own spool directory per worker), so
	// they are spread over workers; results are accounted and reported afterwards
	// in enumeration order, which keeps the output deterministic.
	counts := map[string]int{}
	walls := map[string]float64{}
	nw := runtime.NumCPU()
	if nw > 12 {
		nw = 12
	}
	allResults := make([][]result, len(groups))
	for gi, g := range groups {
		t0 := time.Now()
		results := make([]result, len(g))
		var next int64 = -1
		var wg sync.WaitGroup
		n := nw
		if names[gi] == "grafanaNet" && n > 4 {
			n = 4 // a grafanaNet route with the default bufSize allocates 240 MB of queues
		}
		if names[gi] == "grafanaNet" && rep.Thorough() {
			debug.SetGCPercent(gcPercentGnet)
		}
		for w := 0; w < n; w++ {
			wg.Add(1)
			go func(w int) {
				defer wg.Done()
				spool := filepath.Join(spoolDir, fmt.Sprintf("w%d", w))
				os.MkdirAll(spool, 0o755)
				for {
					i := int(atomic.AddInt64(&next, 1))
					if i >= len(g) || time.Now().After(deadline) {
						return
					}
					results[i] = runCase(g[i], spool)
				}
			}(w)
		}
		wg.Wait()
		debug.SetGCPercent(gcPercentSmall)
		allResults[gi] = results
		walls[names[gi]] = time.Since(t0).Seconds()
	}
	// accounting and reporting, in enumeration order, the multi-entry group last
	order := make([]int, 0, len(groups))
	for gi := range groups {
		if names[gi] != "combined" {
			order = append(order, gi)
		}
	}
	for gi := range groups {
		if names[gi] == "combined" {
			order = append(order, gi)
		}
	}
	for _, gi := range order {
		g := groups[gi]
		missing := 0
		for i, k := range g {
			if !allResults[gi][i].done {
				missing++
				continue
			}
			account(k, allResults[gi][i])
			counts[names[gi]]++
		}
		if missing > 0 {
			exhaustive = false
			skipped = append(skipped, fmt.Sprintf("%s: %d of %d configurations", names[gi], missing, len(g)))
		}
	}

	b := <-bdone
	walls["interpolation (concurrent with the entries)"] = wallB
	walls["interpolation: of which building cmd/carbon-relay-ng"] = b.buildWall
	if b.infra != "" {
		rep.Infra = b.infra
	}
	st.evals += b.evals
	st.docs += b.docs
	for _, k := range b.nontrivial {
		st.nontrivial[k] = true
	}
	st.samples = append(st.samples, b.samples...)
	for _, v := range b.viol {
		rep.Violation(v.sig, v.what, v.replay)
	}
	os.RemoveAll(tmpDir)

	rep.Assume = []string{
		"the option/default tables in the harness are a faithful transcription of docs/config.md, docs/tcp-admin-interface.md, docs/aggregation.md, docs/rewriting.md (each row cites its line)",
		"documented variables: ${HOST} (examples/carbon-relay-ng.ini:5-7) and ${GRAFANA_NET_ADDR}, ${GRAFANA_NET_API_KEY}, ${GRAFANA_NET_USER_ID} (docs/config.md:231-238); where the documentation leaves tokenisation open (bare $HOST, $$, nesting) every reading is accepted",
		"option values avoid what the command tokenizer cannot express (spaces, words starting with true/false or a digit run)",
		"routes are built against real destinations pointed at refusing loopback ports and shut down after reading; grafanaNet routes post nothing (127.0.0.1:1) and are stopped through an overlay accessor",
	}
	if len(skipped) > 0 {
		rep.Assume = append(rep.Assume, "internal deadline hit, not run: "+strings.Join(skipped, "; "))
	}
	dups := 0
	for _, n := range st.seenSig {
		dups += n
	}
	rep.Finish(map[string]interface{}{
		"evaluations":                       st.evals,
		"distinct_nontrivial":               len(st.nontrivial),
		"rule":                              "entries: per kind, the empty option set, every single option slot (booleans with both values), every pair (thorough: both orders of a pair within one scope; every triple for aggregations, 1-destination routes and grafanaNet routes), all slots at once, sub and substr spellings, three multi-entry configurations; each as a TOML section and as a command (all-slots also as an [init] cmds entry), every field of the resulting entry compared with the documentation tables. non-trivial = a configuration whose documented entry differs from the all-defaults entry of its kind (every blacklist/rewriter configuration counts). interpolation: every listed $ form in every context plus every string over the atom alphabet that contains a $; non-trivial = contains a $ and at least one more atom",
		"samples":                           st.samples,
		"exhaustive":                        exhaustive,
		"configurations_per_kind":           counts,
		"interpolation_documents":           st.docs,
		"field_mismatch_observations":       dups,
		"wall_s_per_group":                  walls,
		"toml_vs_command_field_comparisons": st.cross,
		"toml_vs_command_field_differences": st.crossDiffer,
	})
}
