// C10: aggregations emit exactly one correct point per bucket, once, in order.
//
// Engine E2 (explicit-state search over operation sequences) on the real
// aggregator.Aggregator built with aggregator.NewMocked: injected clock,
// injected tick channel, `out` a buffered channel owned and drained by the
// harness, at-rest barrier harn.AggRest after EVERY operation. Free-running,
// uninstrumented build.
//
// Operations: point(name, ts, value), processed at the current clock;
// tick(t), which carries its own time and moves the clock to t (non-decreasing);
// in group D also clock(t) (the clock advances without a tick, ticks may then
// carry a time below the clock, as a tick that waited in the buffered tick
// channel does).
//
// Two searches per configuration (function x cache x format x interval/wait):
//
//	raw     every history over the alphabet up to a small depth is executed on a
//	        fresh aggregator, nothing merged (ground truth for the merged search).
//	merged  breadth-first search over the product of reference model and
//	        implementation. Two histories are merged iff they end with the same key
//	            (clock, last tick, reference-model summary, dump of the
//	             implementation's own state through the overlay accessor
//	             VerifC10Dump: tsList, every open bucket's per-key processor
//	             fields, point count, match cache)
//	        Equal keys have equal futures: the reference summary determines
//	        every future reference output (see ref.AggSummary), the dump plus
//	        the clock is everything Aggregator.run reads when it handles the
//	        next message (the cache's last-seen times are left out: within the
//	        explored time span no entry can expire when wait >= 1, and the
//	        wait = 0 configurations run with the cache off in this search).
//	        So every transition (state, op) of the product graph is executed
//	        and compared once, and every history up to the depth is a path in
//	        that graph.
//	        Every state that is expanded is first reached by REPLAYING its
//	        (first-found, shortest) history on a fresh aggregator, with the
//	        oracle applied after every operation, and the replay must end in the
//	        key recorded when the state was discovered. The operations of the
//	        alphabet are then applied to that state one after the other; between
//	        two of them the state (tsList, aggregations, cache) is re-installed
//	        from a deep copy through the accessor VerifC10Restore instead of
//	        replaying the history another time (the dump after a restore is
//	        compared with the dump at the snapshot on every 8th operation).
//	        Final alphabet: a history of the full depth ends with every
//	        tick/clock operation but only with one point per (name, bucket):
//	        the value and the position inside the bucket of a last point cannot
//	        influence anything observable before a later tick (counters only, no
//	        output), and every point is applied at every smaller depth. States at
//	        the full depth are not counted.
//	        Depth: quick 5 (4 with the match cache on, whose contents multiply
//	        the states by 3-7); thorough 6 everywhere and 7 where the depth-5
//	        frontier has at most 100000 states (the rule depends on counts only,
//	        so the explored space is the same on every run).
//
// Oracle after every operation: lines written to `out` equal the reference as
// a multiset per bucket and as a sequence across buckets (values to %f
// precision), no (name, bucket) is emitted twice in a history, the TooOld
// counter and the aggregator's direction=in counter move exactly like the
// reference says.
//
// The package-level TooOld counter forces one aggregator at a time per
// process: the master re-executes itself as worker processes (GOMAXPROCS=1;
// level-synchronous, the master merges the workers' first sightings in
// (path, operation) order, so the search does not depend on timing). A worker
// that dies (panic in the aggregator's goroutine) or hangs is reported as a
// violation with the history it was executing (kept in a /dev/shm file).
//
// Debugging aids: C10_ONLY=<substring of a configuration id>, C10_WORKERS=<n>,
// C10_DEADLINE_S=<seconds>, C10_NORESTORE=1 (cross-check: never re-install a
// state, replay the history on a fresh aggregator for every single transition;
// must give the same state and transition counts); ./check C10 quick --replay <file> re-executes a
// replay file step by step.
package main

import (
	"bufio"
	"bytes"
	"crypto/md5"
	"encoding/gob"
	"fmt"
	"io"
	"os"
	"os/exec"
	"runtime"
	"sort"
	"strconv"
	"strings"
	"sync"
	"sync/atomic"
	"time"

	"github.com/grafana/carbon-relay-ng/aggregator"
	"github.com/grafana/carbon-relay-ng/matcher"
	"github.com/grafana/carbon-relay-ng/stats"
	log "github.com/sirupsen/logrus"

	"verif/mc/harn"
	"verif/mc/kit"
	"verif/mc/ref"
)

// ---------------------------------------------------------------------------
// operations, configurations

type Op struct {
	K    string  `json:"op"` // point | tick | clock
	Name string  `json:"name,omitempty"`
	TS   int64   `json:"ts,omitempty"`
	Val  float64 `json:"value,omitempty"`
	T    int64   `json:"t,omitempty"`
}

func (o Op) String() string {
	switch o.K {
	case "point":
		return fmt.Sprintf("point(%s,%d,%s)", o.Name, o.TS, strconv.FormatFloat(o.Val, 'g', -1, 64))
	case "tick":
		return fmt.Sprintf("tick(%d)", o.T)
	}
	return fmt.Sprintf("clock(%d)", o.T)
}

type Config struct {
	Group    string `json:"group"`
	Fun      string `json:"fun"`
	Regex    string `json:"regex"`
	Fmt      string `json:"format"`
	Cache    bool   `json:"cache"`
	Interval int64  `json:"interval"`
	Wait     int64  `json:"wait"`
	Init     int64  `json:"initial_clock"`
	// Late: the clock may also advance without a tick (op clock) and a tick may
	// carry a time below the clock (a tick that waited in the buffered tick
	// channel), but never above it and never below the previous tick.
	Late bool `json:"late_ticks"`
	// FracTick / FracNow: nanoseconds added to every tick time / every reading of the clock
	// handed to the aggregator. The aggregator works in whole seconds (time.Unix() truncates),
	// so the reference model is unaffected: anything that rounds instead of truncating, or
	// compares sub-second times, shows as a difference (group E).
	FracTick int64 `json:"tick_nanoseconds,omitempty"`
	FracNow  int64 `json:"clock_nanoseconds,omitempty"`
	Ops      []Op  `json:"-"`
	// merged search: every level up to Depth is expanded; beyond it (up to MaxDepth) a level is
	// expanded only while the frontier has at most Cap states; the last level uses the final alphabet
	Depth    int `json:"depth_merged"`
	MaxDepth int `json:"max_depth_merged"`
	Cap      int `json:"frontier_cap"`
	RawDepth int `json:"depth_raw"`
	bufs     [][][]byte
	m        matcher.Matcher
	// final[oi]: operation oi is applied as the LAST operation of a history of the full depth.
	// Such a history ends with every tick/clock operation, but only with one point per
	// (name, bucket): value and position inside the bucket of a point cannot influence
	// anything observable (counters, no output) before a later tick, and every point of the
	// alphabet is applied at every smaller depth.
	final []bool
}

func (c *Config) ID() string {
	s := fmt.Sprintf("%s fun=%s cache=%v fmt=%s interval=%d wait=%d", c.Group, c.Fun, c.Cache, c.Fmt, c.Interval, c.Wait)
	if c.FracTick != 0 || c.FracNow != 0 {
		s += fmt.Sprintf(" tick+%dns clock+%dns", c.FracTick, c.FracNow)
	}
	return s
}

const rule = `^(k\d)\..*`

func alphabet(base int64, names []string, tss []int64, vals []float64, ticks []int64, clocks []int64) []Op {
	var ops []Op
	for _, n := range names {
		for _, ts := range tss {
			for _, v := range vals {
				ops = append(ops, Op{K: "point", Name: n, TS: base + ts, Val: v})
			}
		}
	}
	for _, t := range ticks {
		ops = append(ops, Op{K: "tick", T: base + t})
	}
	for _, t := range clocks {
		ops = append(ops, Op{K: "clock", T: base + t})
	}
	return ops
}

func describeAlphabet(ops []Op) string {
	names, tss, vals, ticks, clocks := map[string]bool{}, map[int64]bool{}, map[float64]bool{}, map[int64]bool{}, map[int64]bool{}
	for _, o := range ops {
		switch o.K {
		case "point":
			names[o.Name], tss[o.TS], vals[o.Val] = true, true, true
		case "tick":
			ticks[o.T] = true
		default:
			clocks[o.T] = true
		}
	}
	ks := func(m interface{}) string {
		var l []string
		switch x := m.(type) {
		case map[string]bool:
			for k := range x {
				l = append(l, k)
			}
			sort.Strings(l)
		case map[int64]bool:
			var n []int64
			for k := range x {
				n = append(n, k)
			}
			sort.Slice(n, func(i, j int) bool { return n[i] < n[j] })
			for _, k := range n {
				l = append(l, fmt.Sprint(k))
			}
		case map[float64]bool:
			var n []float64
			for k := range x {
				n = append(n, k)
			}
			sort.Float64s(n)
			for _, k := range n {
				l = append(l, fmt.Sprint(k))
			}
		}
		return "{" + strings.Join(l, ",") + "}"
	}
	s := fmt.Sprintf("%d ops: point(name in %s, ts in %s, value in %s); tick(now in %s)", len(ops), ks(names), ks(tss), ks(vals), ks(ticks))
	if len(clocks) > 0 {
		s += "; clock(now in " + ks(clocks) + ")"
	}
	return s
}

// configs is a deterministic function of the tier (master and workers build the same list).
func configs(thorough bool) []*Config {
	var cs []*Config
	depth, raw := 5, 2
	if thorough {
		depth, raw = 7, 3
	}
	// A: the alphabet of DESIGN.md §4 C10, interval 10, wait 5. Offsets are relative to base 1000
	// (a multiple of the interval; a clock below `wait` would underflow the unsigned cutoff and is not a real clock).
	const baseA = 1000
	opsA := alphabet(baseA, []string{"k1.a", "k1.b", "k2.a"}, []int64{9, 10, 15, 19, 20}, []float64{1, 2.5, -3},
		[]int64{10, 14, 15, 16, 24, 25, 26, 35}, nil)
	for _, f := range ref.AggFunctions {
		for _, cache := range []bool{false, true} {
			for _, format := range []string{"$1", "agg.out"} {
				cs = append(cs, &Config{Group: "A", Fun: f, Regex: rule, Fmt: format, Cache: cache, Interval: 10, Wait: 5, Init: baseA + 4, Ops: opsA, Depth: depth, RawDepth: raw})
			}
		}
	}
	// B: interval 5, wait 0 at a realistic epoch; names that do not match (x.a: fails the prefix
	// derived from the regex; kx.a: passes it, fails the regex). Merged search with the cache off
	// (with wait = 0 the cache clean-up is active and depends on map iteration order), raw search with the cache on.
	const baseB = 1500000000
	opsB := alphabet(baseB, []string{"k1.a", "k1.b", "k2.a", "kx.a", "x.a"}, []int64{4, 5, 9, 10}, []float64{1, -3},
		[]int64{4, 5, 6, 10, 15}, nil)
	for _, f := range ref.AggFunctions {
		cs = append(cs, &Config{Group: "B", Fun: f, Regex: rule, Fmt: "$1", Cache: false, Interval: 5, Wait: 0, Init: baseB + 3, Ops: opsB, Depth: depth, RawDepth: 2})
		cs = append(cs, &Config{Group: "B", Fun: f, Regex: rule, Fmt: "$1", Cache: true, Interval: 5, Wait: 0, Init: baseB + 3, Ops: opsB, Depth: 0, RawDepth: raw})
	}
	// C: interval 10, wait 10 (wait = interval: two buckets open at the same time), cache on, prefix + capture group.
	opsC := alphabet(baseB, []string{"k1.a", "k1.b", "k2.a"}, []int64{9, 10, 19, 20, 29}, []float64{1, 2.5},
		[]int64{10, 19, 20, 21, 30, 40}, nil)
	for _, f := range ref.AggFunctions {
		cs = append(cs, &Config{Group: "C", Fun: f, Regex: rule, Fmt: "agg.$1.x", Cache: true, Interval: 10, Wait: 10, Init: baseB + 9, Ops: opsC, Depth: depth, RawDepth: 2})
	}
	// D: interval 10, wait 5, the clock also advances between ticks and ticks may be delivered late.
	opsD := alphabet(baseA, []string{"k1.a", "k2.a"}, []int64{9, 10, 19, 20}, []float64{1, -3},
		[]int64{14, 15, 16, 25}, []int64{14, 15, 16, 25, 26})
	for _, f := range ref.AggFunctions {
		cs = append(cs, &Config{Group: "D", Fun: f, Regex: rule, Fmt: "$1", Cache: false, Interval: 10, Wait: 5, Init: baseA + 4, Late: true, Ops: opsD, Depth: depth, RawDepth: 2})
	}
	// E: groups A and D again with sub-second parts on the times the aggregator is handed (a real
	// aligned tick fires a fraction after the second, and time.Now() is never a whole second):
	// (tick fraction, clock fraction) with the clock never behind the tick inside one second.
	fracs := [][2]int64{{500000000, 500000000}, {999999999, 999999999}, {0, 999999999}, {500000000, 750000000}}
	funsE := []string{"sum", "last", "count"}
	if thorough {
		funsE = ref.AggFunctions
	}
	for _, fr := range fracs {
		for _, f := range funsE {
			cs = append(cs, &Config{Group: "E", Fun: f, Regex: rule, Fmt: "$1", Cache: false, Interval: 10, Wait: 5, Init: baseA + 4, Ops: opsA, Depth: depth, RawDepth: 2, FracTick: fr[0], FracNow: fr[1]})
			cs = append(cs, &Config{Group: "E", Fun: f, Regex: rule, Fmt: "$1", Cache: false, Interval: 10, Wait: 5, Init: baseA + 4, Late: true, Ops: opsD, Depth: depth, RawDepth: 2, FracTick: fr[0], FracNow: fr[1]})
		}
	}
	for _, c := range cs {
		if c.Depth > 0 {
			// quick: depth 5, with the match cache on (its contents multiply the states by 3-7) depth 4;
			// thorough: depth 6 everywhere, depth 7 where at most 100000 states are on the depth-5 frontier
			if c.Cache {
				c.Depth--
			}
			c.MaxDepth, c.Cap = c.Depth, 0
			if thorough {
				c.Depth, c.MaxDepth, c.Cap = 6, 7, 100000
			}
		}
		m, err := matcher.New("", "", "", "", c.Regex, "")
		if err != nil {
			panic(err)
		}
		c.m = m
		seen := map[string]bool{}
		for _, o := range c.Ops {
			c.bufs = append(c.bufs, [][]byte{[]byte(o.Name), []byte(strconv.FormatFloat(o.Val, 'f', -1, 64)), []byte(strconv.FormatInt(o.TS, 10))})
			k := fmt.Sprint(o.Name, " ", o.TS-o.TS%c.Interval)
			c.final = append(c.final, o.K != "point" || !seen[k])
			seen[k] = true
		}
	}
	return cs
}

// allowed: may op o be applied when the clock shows now and the last tick carried lastTick?
func (c *Config) allowed(o Op, now, lastTick int64) bool {
	switch o.K {
	case "tick":
		if c.Late {
			return o.T <= now && o.T >= lastTick
		}
		return o.T >= now
	case "clock":
		return o.T > now
	}
	return true
}

func (c *Config) clockAfter(path []uint8) (now, lastTick int64) {
	now, lastTick = c.Init, 0
	for _, oi := range path {
		o := c.Ops[oi]
		switch o.K {
		case "tick":
			lastTick = o.T
			if o.T > now {
				now = o.T
			}
		case "clock":
			now = o.T
		}
	}
	return
}

// ---------------------------------------------------------------------------
// executing one history on the real aggregator and on the reference

type Viol struct {
	Sig    string    `json:"signature"`
	What   string    `json:"what"`
	Replay ReplayDoc `json:"replay"`
}

type ReplayDoc struct {
	Config  Config   `json:"config"`
	History []Op     `json:"history"`
	Step    int      `json:"failing_step"`
	Got     []string `json:"got"`
	Want    []string `json:"want"`
}

type executor struct {
	clock     int64 // unix seconds, read by the aggregator goroutine
	out       chan []byte
	tooOld    interface{ Count() int64 }
	numIn     map[*Config]interface{ Count() int64 }
	crash     *os.File
	verbose   io.Writer
	paranoid  bool
	noRestore bool
	ops       int64
	execs     int64
}

func newExecutor() *executor {
	return &executor{out: make(chan []byte, 8192), tooOld: stats.Counter("module=aggregator.unit=Metric.what=TooOld"), numIn: map[*Config]interface{ Count() int64 }{}}
}

func (e *executor) now() time.Time { return time.Unix(atomic.LoadInt64(&e.clock), 0) }

func histString(c *Config, path []uint8) string {
	var s []string
	for _, oi := range path {
		s = append(s, c.Ops[oi].String())
	}
	return "[" + strings.Join(s, " ") + "]"
}

func (e *executor) drain() []string {
	var got []string
	for len(e.out) > 0 {
		got = append(got, string(<-e.out))
	}
	return got
}

// compare checks the lines emitted by one operation against the reference groups.
func compare(got []string, want [][]ref.AggLine) string {
	type line struct {
		name, val string
		ts        int64
	}
	var groups [][]line
	for _, g := range got {
		f := strings.Fields(g)
		if len(f) != 3 {
			return fmt.Sprintf("malformed output line %q", g)
		}
		ts, err := strconv.ParseInt(f[2], 10, 64)
		if err != nil {
			return fmt.Sprintf("malformed output line %q", g)
		}
		l := line{f[0], f[1], ts}
		if n := len(groups); n > 0 && groups[n-1][0].ts == ts {
			groups[n-1] = append(groups[n-1], l)
		} else {
			if n > 0 && groups[n-1][0].ts > ts {
				return fmt.Sprintf("buckets not in ascending order: %d emitted after %d", ts, groups[n-1][0].ts)
			}
			for _, og := range groups {
				if og[0].ts == ts {
					return fmt.Sprintf("bucket %d emitted in two separate runs", ts)
				}
			}
			groups = append(groups, []line{l})
		}
	}
	if len(groups) != len(want) {
		return fmt.Sprintf("%d buckets emitted, reference emits %d", len(groups), len(want))
	}
	for i, g := range groups {
		w := want[i]
		if g[0].ts != w[0].Bucket {
			return fmt.Sprintf("bucket #%d emitted is %d, reference emits %d", i, g[0].ts, w[0].Bucket)
		}
		sort.Slice(g, func(a, b int) bool { return g[a].name < g[b].name })
		if len(g) != len(w) {
			return fmt.Sprintf("bucket %d: %d lines, reference %d", w[0].Bucket, len(g), len(w))
		}
		for j := range g {
			if g[j].name != w[j].Name {
				return fmt.Sprintf("bucket %d: line for %q, reference has %q", w[0].Bucket, g[j].name, w[j].Name)
			}
			if !ref.AggValueOK(g[j].val, w[j].Accept) {
				return fmt.Sprintf("bucket %d: %s = %s, reference %s", w[0].Bucket, g[j].name, g[j].val, w[j])
			}
		}
	}
	return ""
}

func wantStrings(want [][]ref.AggLine) []string {
	var s []string
	for _, g := range want {
		for _, l := range g {
			s = append(s, l.String())
		}
	}
	return s
}

// live is a running aggregator with the reference model stepped alongside.
type live struct {
	c        *Config
	a        *aggregator.Aggregator
	tick     chan time.Time
	numIn    interface{ Count() int64 }
	model    *ref.AggModel
	emitted  map[string]int
	shared   bool // emitted belongs to a snapshot: copy before writing
	lastTick int64
}

func (e *executor) note(c *Config, path []uint8) {
	if e.crash != nil {
		var b [256]byte
		s := append(b[:0], c.ID()...)
		s = append(s, " history="...)
		s = append(s, histString(c, path)...)
		s = append(s, '\n', 0)
		e.crash.WriteAt(s, 0)
	}
}

func (e *executor) start(c *Config) *live {
	e.execs++
	atomic.StoreInt64(&e.clock, c.Init)
	l := &live{c: c, tick: make(chan time.Time), emitted: map[string]int{}}
	a, err := aggregator.NewMocked(c.Fun, c.m, c.Fmt, c.Cache, uint(c.Interval), uint(c.Wait), false, e.out, 16, func() time.Time { return time.Unix(atomic.LoadInt64(&e.clock), c.FracNow) }, l.tick)
	if err != nil {
		panic(err)
	}
	l.a = a
	numIn, ok := e.numIn[c]
	if !ok {
		numIn = stats.Counter("unit=Metric.direction=in.aggregator=" + a.Key)
		e.numIn[c] = numIn
	}
	l.numIn = numIn
	l.model = ref.NewAggModel(c.Fun, c.Regex, c.Fmt, c.Interval, c.Wait, c.Init)
	return l
}

func (e *executor) stop(l *live) {
	l.a.Shutdown() // flushes what is due at the current clock into out
	e.drain()
}

// step applies operation path[i] (the history so far is path[:i]) to the live
// aggregator and to the reference, waits for rest and compares.
func (e *executor) step(l *live, path []uint8, i int) *Viol {
	c := l.c
	oi := path[i]
	o := c.Ops[oi]
	fail := func(what string, got []string, want []string) *Viol {
		h := make([]Op, i+1)
		for k := range h {
			h[k] = c.Ops[path[k]]
		}
		hs := histString(c, path[:i+1])
		cc := *c
		cc.Ops, cc.bufs = nil, nil
		return &Viol{
			Sig:    c.ID() + " history=" + hs,
			What:   fmt.Sprintf("aggregation {%s} history %s: after operation #%d %s: %s (emitted %q, reference %q)", c.ID(), hs, i+1, o, what, got, want),
			Replay: ReplayDoc{Config: cc, History: h, Step: i, Got: got, Want: want},
		}
	}
	e.ops++
	old0, in0 := e.tooOld.Count(), l.numIn.Count()
	var want [][]ref.AggLine
	wantOld, wantIn := int64(0), int64(0)
	switch o.K {
	case "point":
		l.a.AddMaybe(c.bufs[oi], o.Val, uint32(o.TS))
		matched, accepted := l.model.Point(o.Name, o.TS, o.Val)
		if matched {
			wantIn = 1
			if !accepted {
				wantOld = 1
			}
		}
	case "tick":
		if o.T > atomic.LoadInt64(&e.clock) {
			atomic.StoreInt64(&e.clock, o.T)
		}
		l.tick <- time.Unix(o.T, c.FracTick)
		want = l.model.Tick(o.T)
		l.lastTick = o.T
	case "clock":
		atomic.StoreInt64(&e.clock, o.T)
		l.model.Advance(o.T)
	}
	harn.AggRest(l.a)
	got := e.drain()
	dOld, dIn := e.tooOld.Count()-old0, l.numIn.Count()-in0
	if e.verbose != nil {
		fmt.Fprintf(e.verbose, "%3d %-24s emitted %q reference %q tooOld +%d (ref +%d) in +%d (ref +%d)\n", i+1, o, got, wantStrings(want), dOld, wantOld, dIn, wantIn)
	}
	if msg := compare(got, want); msg != "" {
		return fail(msg, got, wantStrings(want))
	}
	for _, g := range got {
		f := strings.Fields(g)
		k := f[0] + " " + f[2]
		if l.shared {
			m := make(map[string]int, len(l.emitted)+4)
			for k, n := range l.emitted {
				m[k] = n
			}
			l.emitted, l.shared = m, false
		}
		l.emitted[k]++
		if l.emitted[k] > 1 {
			return fail(fmt.Sprintf("(name, bucket) %q emitted a second time in this history", k), got, wantStrings(want))
		}
	}
	if dOld != wantOld {
		return fail(fmt.Sprintf("TooOld counter moved by %d, reference says %d", dOld, wantOld), got, wantStrings(want))
	}
	if dIn != wantIn {
		return fail(fmt.Sprintf("direction=in counter moved by %d, reference says %d", dIn, wantIn), got, wantStrings(want))
	}
	return nil
}

func (l *live) keys() (refKey, dump string) {
	for cell, n := range l.model.Emitted {
		if n > 1 {
			panic(fmt.Sprint("reference emitted twice: ", cell))
		}
	}
	return fmt.Sprintf("lt=%d|%s", l.lastTick, l.model.Canon(false)), l.a.VerifC10Dump()
}

// run executes the history path on a fresh aggregator, stepping the reference alongside.
// It returns the merge key reached (refKey, implDump) and the first violation.
func (e *executor) run(c *Config, path []uint8) (refKey, dump string, v *Viol) {
	e.note(c, path)
	l := e.start(c)
	for i := range path {
		if v = e.step(l, path, i); v != nil {
			break
		}
	}
	if v == nil {
		refKey, dump = l.keys()
	}
	e.stop(l)
	return
}

// expand replays path on a fresh aggregator (full oracle), checks that it ends in the product
// state recorded when the state was discovered, and then applies every allowed operation to
// that state: the state is re-installed before each operation through the snapshot accessor
// instead of replaying the path again.
func (e *executor) expand(c *Config, path []uint8, expect *[16]byte, final bool, each func(oi int, refKey, dump string, v *Viol)) (v *Viol) {
	e.note(c, path)
	l := e.start(c)
	defer e.stop(l)
	for i := range path {
		if v = e.step(l, path, i); v != nil {
			return v
		}
	}
	rk, dump := l.keys()
	if expect != nil && md5.Sum([]byte(rk+"\x00"+dump)) != *expect {
		cc := *c
		cc.Ops, cc.bufs = nil, nil
		h := make([]Op, len(path))
		for k := range h {
			h[k] = c.Ops[path[k]]
		}
		return &Viol{Sig: c.ID() + " hidden state history=" + histString(c, path),
			What:   fmt.Sprintf("aggregation {%s}: replaying %s on a fresh aggregator ends in {%s} {%s}, which is not the state reached when the last operation was applied to the re-installed state of the prefix: the aggregator keeps state outside tsList/aggregations/cache", c.ID(), histString(c, path), rk, dump),
			Replay: ReplayDoc{Config: cc, History: h, Step: len(path) - 1}}
	}
	snap := l.a.VerifC10Snap()
	model0, emitted0, lt0, clock0 := l.model, l.emitted, l.lastTick, atomic.LoadInt64(&e.clock)
	buf := make([]uint8, len(path)+1)
	copy(buf, path)
	nth := 0
	for oi, o := range c.Ops {
		if !c.allowed(o, clock0, lt0) || (final && !c.final[oi]) {
			continue
		}
		if e.noRestore { // cross-check mode: a fresh aggregator and one more replay for every operation
			e.stop(l)
			l2 := e.start(c)
			*l = *l2
			e.execs--
			for i := range path {
				if v = e.step(l, path, i); v != nil {
					return v
				}
			}
		} else {
			l.a.VerifC10Restore(snap)
		}
		atomic.StoreInt64(&e.clock, clock0)
		l.model = model0.Clone()
		l.emitted, l.shared = emitted0, true
		l.lastTick = lt0
		if nth++; e.paranoid && nth%8 == 1 {
			if d := l.a.VerifC10Dump(); d != dump {
				panic("C10 harness: restore is not faithful: " + d + " != " + dump)
			}
		}
		buf[len(path)] = uint8(oi)
		if sv := e.step(l, buf, len(path)); sv != nil {
			each(oi, "", "", sv)
			// the aggregator may be in any state now: continue on a fresh one
			e.stop(l)
			l2 := e.start(c)
			*l = *l2
			e.execs--
			continue
		}
		if final { // the successor is not expanded (and not counted as a state)
			each(oi, "", "", nil)
			continue
		}
		rk2, dump2 := l.keys()
		each(oi, rk2, dump2, nil)
	}
	return nil
}

// ---------------------------------------------------------------------------
// worker protocol

type Job struct {
	Kind  string // "merged": expand every path by every operation; "raw": every history of Depth operations below each path; "quit"
	Cfg   int
	Start int // index of Paths[0] in the level
	Paths [][]uint8
	Keys  [][16]byte // merged: the product state recorded for each path (empty for the root)
	Depth int
	Final bool  // merged: the successors are at the full depth (reduced final alphabet, not expanded further)
	Done  []int // configurations that are finished (the worker drops what it remembers about them)
	Epoch int   // 1: shallow pass, 2: full search (the worker starts a new per-configuration set)
}

type NewState struct {
	PI  int32
	OI  uint8
	Key [16]byte // product state: reference summary + implementation dump
	Ref [16]byte // reference summary alone
}

type Reply struct {
	Trans  int64 // transitions (state, op) / operations of raw histories executed and compared
	Execs  int64 // histories executed on the real aggregator
	Ops    int64 // operations executed on the real aggregator (including replayed prefixes)
	New    []NewState
	Viols  []Viol
	Sample []string
}

const maxViolPerJob = 3

func workerMain() {
	log.SetLevel(log.PanicLevel)
	log.SetOutput(io.Discard)
	in := gob.NewDecoder(bufio.NewReader(os.Stdin))
	outw := bufio.NewWriter(os.NewFile(3, "reply"))
	enc := gob.NewEncoder(outw)
	if dn, err := os.OpenFile(os.DevNull, os.O_WRONLY, 0); err == nil {
		os.Stdout = dn
	}
	aggregator.InitMetrics()
	tuneGC()
	cs := configs(os.Getenv("C10_TIER") == "thorough")
	e := newExecutor()
	e.paranoid = os.Getenv("C10_PARANOID") != "0"
	e.noRestore = os.Getenv("C10_NORESTORE") != ""
	if p := os.Getenv("C10_CRASHFILE"); p != "" {
		e.crash, _ = os.OpenFile(p, os.O_CREATE|os.O_WRONLY, 0o644)
	}
	seen := map[int]map[[16]byte]bool{}
	epoch := map[int]int{}
	for {
		var j Job
		if err := in.Decode(&j); err != nil || j.Kind == "quit" {
			return
		}
		c := cs[j.Cfg]
		for _, d := range j.Done {
			delete(seen, d)
		}
		var r Reply
		o0, x0 := e.ops, e.execs
		switch j.Kind {
		case "merged":
			if seen[j.Cfg] == nil || epoch[j.Cfg] != j.Epoch {
				seen[j.Cfg] = map[[16]byte]bool{}
				epoch[j.Cfg] = j.Epoch
			}
			sn := seen[j.Cfg]
			for pi, p := range j.Paths {
				var expect *[16]byte
				if len(j.Keys) > 0 {
					expect = &j.Keys[pi]
				}
				pv := e.expand(c, p, expect, j.Final, func(oi int, rk, dump string, v *Viol) {
					r.Trans++
					if v != nil {
						if len(r.Viols) < maxViolPerJob {
							r.Viols = append(r.Viols, *v)
						}
						return
					}
					if j.Final {
						return
					}
					key := md5.Sum([]byte(rk + "\x00" + dump))
					if !sn[key] {
						sn[key] = true
						r.New = append(r.New, NewState{PI: int32(j.Start + pi), OI: uint8(oi), Key: key, Ref: md5.Sum([]byte(rk))})
						if j.Start == 0 && pi == 0 && len(p) == 2 && len(r.Sample) < 2 { // deterministic choice: first state of the depth-2 frontier
							r.Sample = append(r.Sample, fmt.Sprintf("%s history %s %s -> reference state {%s} implementation {%s}", c.ID(), histString(c, p), c.Ops[oi], rk, dump))
						}
					}
				})
				if pv != nil && len(r.Viols) < maxViolPerJob {
					r.Viols = append(r.Viols, *pv)
				}
			}
		case "raw":
			// every history of exactly Depth operations that extends the prefix (each shorter
			// history is a prefix of one of them and is compared on the way)
			var rec func(p []uint8, now, lt int64)
			rec = func(p []uint8, now, lt int64) {
				if len(p) == j.Depth {
					_, _, v := e.run(c, p)
					r.Trans++
					if v != nil && len(r.Viols) < maxViolPerJob {
						r.Viols = append(r.Viols, *v)
					}
					return
				}
				for oi, o := range c.Ops {
					if !c.allowed(o, now, lt) {
						continue
					}
					q := append(p, uint8(oi))
					n2, l2 := c.clockAfter(q)
					rec(q, n2, l2)
				}
			}
			for _, p := range j.Paths {
				now, lt := c.clockAfter(p)
				q := make([]uint8, len(p), 16)
				copy(q, p)
				rec(q, now, lt)
			}
		}
		r.Ops, r.Execs = e.ops-o0, e.execs-x0
		if err := enc.Encode(&r); err != nil {
			return
		}
		outw.Flush()
	}
}

// ---------------------------------------------------------------------------
// master

type worker struct {
	id    int
	cmd   *exec.Cmd
	enc   *gob.Encoder
	w     *bufio.Writer
	dec   *gob.Decoder
	crash string
	errb  *bytes.Buffer
}

type task struct {
	job   Job
	reply chan *Reply
}

type master struct {
	rep      *kit.Reporter
	cs       []*Config
	tasks    chan *task
	mu       sync.Mutex
	trans    int64
	execs    int64
	ops      int64
	states   int64 // distinct reference states (summed over configurations)
	product  int64 // distinct product states
	rawHist  int64
	samples  []string
	stop     int32
	deadline time.Time
	infra    string
	incompl  []string
	depths   []int
	done     []int
	nviol    map[string]int
	perCfg   []map[string]interface{}
}

func (m *master) spawn(id int) (*worker, error) {
	w := &worker{id: id, errb: &bytes.Buffer{}}
	w.crash = fmt.Sprintf("/dev/shm/verif-c10-%d-%d", os.Getpid(), id)
	cmd := exec.Command(os.Args[0])
	cmd.Env = append(os.Environ(), "C10_WORKER=1", "C10_TIER="+m.rep.Tier, "C10_CRASHFILE="+w.crash, "GOMAXPROCS=1")
	stdin, err := cmd.StdinPipe()
	if err != nil {
		return nil, err
	}
	pr, pw, err := os.Pipe()
	if err != nil {
		return nil, err
	}
	cmd.ExtraFiles = []*os.File{pw}
	cmd.Stderr = w.errb
	if err := cmd.Start(); err != nil {
		return nil, err
	}
	pw.Close()
	w.cmd = cmd
	w.w = bufio.NewWriter(stdin)
	w.enc = gob.NewEncoder(w.w)
	w.dec = gob.NewDecoder(bufio.NewReader(pr))
	return w, nil
}

func (m *master) serve(w *worker, wg *sync.WaitGroup) {
	defer wg.Done()
	defer os.Remove(w.crash)
	for t := range m.tasks {
		if atomic.LoadInt32(&m.stop) != 0 || time.Now().After(m.deadline) {
			t.reply <- nil
			continue
		}
		var r Reply
		done := make(chan error, 1)
		go func() {
			if err := w.enc.Encode(&t.job); err != nil {
				done <- err
				return
			}
			w.w.Flush()
			done <- w.dec.Decode(&r)
		}()
		var err error
		select {
		case err = <-done:
		case <-time.After(10 * time.Minute):
			err = fmt.Errorf("no answer for 10 minutes (aggregator stuck)")
		}
		if err != nil {
			// the worker died (panic inside the aggregator's goroutine) or hangs: the crash file names the history
			w.cmd.Process.Kill()
			w.cmd.Wait()
			cur, _ := os.ReadFile(w.crash)
			if i := bytes.IndexByte(cur, 0); i >= 0 {
				cur = cur[:i]
			}
			h := strings.TrimSpace(string(cur))
			tail := w.errb.String()
			if len(tail) > 1500 {
				tail = tail[:1500]
			}
			if h == "" {
				m.mu.Lock()
				m.infra = fmt.Sprintf("worker %d failed before running anything: %v %s", w.id, err, tail)
				m.mu.Unlock()
			} else {
				m.rep.Violation("crash "+h, fmt.Sprintf("the aggregator crashed or hung while executing %s (or one more operation of the alphabet applied after it): %v\n%s", h, err, tail), map[string]interface{}{"history": h, "stderr": tail})
			}
			atomic.StoreInt32(&m.stop, 1)
			t.reply <- nil
			// keep draining tasks so that producers do not block
			for t := range m.tasks {
				t.reply <- nil
			}
			return
		}
		t.reply <- &r
	}
	w.enc.Encode(&Job{Kind: "quit"})
	w.w.Flush()
	w.cmd.Wait()
}

func (m *master) account(r *Reply) {
	m.mu.Lock()
	m.trans += r.Trans
	m.execs += r.Execs
	m.ops += r.Ops
	m.samples = append(m.samples, r.Sample...)
	m.mu.Unlock()
	for _, v := range r.Viols {
		// at most two replay files per configuration (a broken aggregator fails everywhere)
		id := v.Sig
		if i := strings.Index(id, " history="); i >= 0 {
			id = id[:i]
		}
		m.mu.Lock()
		m.nviol[id]++
		n := m.nviol[id]
		m.mu.Unlock()
		if n <= 2 {
			m.rep.Violation(v.Sig, v.What, v.Replay)
		}
	}
}

// failed: did the configuration produce a violation already?
func (m *master) failed(c *Config) bool {
	m.mu.Lock()
	defer m.mu.Unlock()
	return m.nviol[c.ID()] > 0
}

// submit sends the jobs and returns the replies in job order (nil entries: aborted).
func (m *master) submit(jobs []Job) []*Reply {
	ts := make([]*task, len(jobs))
	// tasks are queued in order (each worker then sees its share of a level in increasing order)
	res := make([]*Reply, len(jobs))
	m.mu.Lock()
	done := append([]int(nil), m.done...)
	m.mu.Unlock()
	for i := range jobs {
		jobs[i].Done = done
		t := &task{job: jobs[i], reply: make(chan *Reply, 1)}
		ts[i] = t
		m.tasks <- t
	}
	for i, t := range ts {
		res[i] = <-t.reply
		if res[i] != nil {
			m.account(res[i])
		}
	}
	return res
}

// explore runs the raw and the merged search of one configuration.
// shallowDepth: the first pass explores every configuration to this depth before any
// configuration is explored fully (simplest first across configurations, and whatever
// happens to the time budget on a loaded machine, every configuration has been looked at).
const shallowDepth = 3

func (m *master) explore(ci int, deadline time.Time, nworkers int, shallow bool) {
	c := m.cs[ci]
	info := map[string]interface{}{"config": c.ID(), "alphabet": len(c.Ops)}
	complete := true
	minDepth, maxDepth, rawDepth, epoch := c.Depth, c.MaxDepth, c.RawDepth, 2
	if shallow {
		epoch = 1
		if rawDepth > 2 {
			rawDepth = 2
		}
		if maxDepth > shallowDepth {
			minDepth, maxDepth = shallowDepth, shallowDepth
		}
	} else if m.failed(c) {
		m.mu.Lock()
		m.incompl = append(m.incompl, c.ID())
		m.perCfg = append(m.perCfg, map[string]interface{}{"config": c.ID(), "complete": false, "stopped": "violation in the shallow pass"})
		m.mu.Unlock()
		return
	}
	// raw: one job per first operation
	if rawDepth > 0 {
		var jobs []Job
		for oi, o := range c.Ops {
			if c.allowed(o, c.Init, 0) {
				jobs = append(jobs, Job{Kind: "raw", Cfg: ci, Paths: [][]uint8{{uint8(oi)}}, Depth: rawDepth})
			}
		}
		n := int64(0)
		for _, r := range m.submit(jobs) {
			if r == nil {
				complete = false
				continue
			}
			n += r.Trans
			if len(r.Viols) > 0 {
				complete = false
			}
		}
		info["raw_depth"], info["raw_histories"] = rawDepth, n
		if !shallow {
			m.mu.Lock()
			m.rawHist += n
			m.mu.Unlock()
		}
	}
	// merged BFS
	if maxDepth > 0 && complete {
		seen := map[[16]byte]bool{}
		refSeen := map[[16]byte]bool{}
		frontier := [][]uint8{{}}
		var fkeys [][16]byte
		var perLevel []int
		trans := int64(0)
		reached := 0
		for d := 0; d < maxDepth && len(frontier) > 0; d++ {
			// the level that reaches the last depth applies the final alphabet
			final := d+1 == maxDepth || (d+1 >= minDepth && len(frontier) > c.Cap)
			if time.Now().After(deadline) || atomic.LoadInt32(&m.stop) != 0 {
				complete = false
				info["stopped_before_depth"] = d + 1
				break
			}
			chunk := len(frontier)/(nworkers*6) + 1
			if chunk > 256 {
				chunk = 256
			}
			var jobs []Job
			for s := 0; s < len(frontier); s += chunk {
				e := s + chunk
				if e > len(frontier) {
					e = len(frontier)
				}
				j := Job{Kind: "merged", Cfg: ci, Start: s, Paths: frontier[s:e], Final: final, Epoch: epoch}
				if len(fkeys) > 0 {
					j.Keys = fkeys[s:e]
				}
				jobs = append(jobs, j)
			}
			var cand []NewState
			bad := false
			for _, r := range m.submit(jobs) {
				if r == nil {
					bad = true
					continue
				}
				trans += r.Trans
				cand = append(cand, r.New...)
				if len(r.Viols) > 0 {
					bad = true
				}
			}
			if bad {
				// a violation (or an abort): the deeper levels of this configuration add nothing
				complete = false
				info["stopped_before_depth"] = d + 2
				break
			}
			sort.Slice(cand, func(i, j int) bool {
				if cand[i].PI != cand[j].PI {
					return cand[i].PI < cand[j].PI
				}
				return cand[i].OI < cand[j].OI
			})
			var next [][]uint8
			var nkeys [][16]byte
			for _, n := range cand {
				refSeen[n.Ref] = true
				if seen[n.Key] {
					continue
				}
				seen[n.Key] = true
				if !final {
					p := frontier[n.PI]
					q := make([]uint8, len(p)+1)
					copy(q, p)
					q[len(p)] = n.OI
					next = append(next, q)
					nkeys = append(nkeys, n.Key)
				}
			}
			reached = d + 1
			if final {
				break
			}
			perLevel = append(perLevel, len(seen)+1)
			frontier, fkeys = next, nkeys
		}
		if shallow {
			return
		}
		info["depth_reached"] = reached
		if complete {
			m.mu.Lock()
			m.depths = append(m.depths, reached)
			m.mu.Unlock()
		}
		m.mu.Lock()
		m.done = append(m.done, ci) // workers free their per-configuration sets when they see it in a later job
		m.mu.Unlock()
		info["product_states"], info["reference_states"], info["transitions"], info["product_states_by_depth"] = len(seen)+1, len(refSeen)+1, trans, perLevel
		m.mu.Lock()
		m.states += int64(len(refSeen) + 1)
		m.product += int64(len(seen) + 1)
		m.mu.Unlock()
	}
	if shallow {
		return
	}
	info["complete"] = complete
	m.mu.Lock()
	if !complete {
		m.incompl = append(m.incompl, c.ID())
	}
	m.perCfg = append(m.perCfg, info)
	m.mu.Unlock()
}

func replay(rep *kit.Reporter, path string) {
	var doc ReplayDoc
	if err := kit.LoadReplay(path, &doc); err != nil {
		fmt.Fprintln(rep.Out, "replay:", err)
		os.Exit(2)
	}
	c := doc.Config
	c.Ops = doc.History
	m, err := matcher.New("", "", "", "", c.Regex, "")
	if err != nil {
		fmt.Fprintln(rep.Out, "replay:", err)
		os.Exit(2)
	}
	c.m = m
	var p []uint8
	for i, o := range c.Ops {
		c.bufs = append(c.bufs, [][]byte{[]byte(o.Name), []byte(strconv.FormatFloat(o.Val, 'f', -1, 64)), []byte(strconv.FormatInt(o.TS, 10))})
		p = append(p, uint8(i))
	}
	e := newExecutor()
	e.verbose = rep.Out
	fmt.Fprintf(rep.Out, "replaying {%s} initial clock %d on %s\n", c.ID(), c.Init, os.Getenv("VERIF_REPO"))
	_, _, v := e.run(&c, p)
	if v != nil {
		fmt.Fprintln(rep.Out, "VIOLATION reproduced:", v.What)
		os.Exit(1)
	}
	fmt.Fprintln(rep.Out, "no violation on this tree")
	os.Exit(0)
}

// atLeast1: a run that stops at its first violation has expanded the initial state only
func atLeast1(n int64) int64 {
	if n < 1 {
		return 1
	}
	return n
}

func main() {
	if os.Getenv("C10_WORKER") != "" {
		workerMain()
		return
	}
	rep := kit.New("C10", "model_checking")
	log.SetLevel(log.PanicLevel)
	log.SetOutput(io.Discard)
	rep.Quiet()
	aggregator.InitMetrics()
	if rep.ReplayOnly != "" {
		replay(rep, rep.ReplayOnly)
	}
	cs := configs(rep.Thorough())
	nw := runtime.NumCPU()
	if s := os.Getenv("C10_WORKERS"); s != "" {
		nw, _ = strconv.Atoi(s)
	}
	if nw < 1 {
		nw = 1
	}
	m := &master{rep: rep, cs: cs, tasks: make(chan *task), nviol: map[string]int{}}
	var wg sync.WaitGroup
	for i := 0; i < nw; i++ {
		w, err := m.spawn(i)
		if err != nil {
			rep.Infra = "cannot start worker: " + err.Error()
			rep.Finish(map[string]interface{}{})
		}
		wg.Add(1)
		go m.serve(w, &wg)
	}
	deadline := rep.Deadline(50*time.Second, 13*time.Minute)
	if x, err := strconv.Atoi(os.Getenv("C10_DEADLINE_S")); err == nil { // measuring aid
		deadline = time.Now().Add(time.Duration(x) * time.Second)
	}
	m.deadline = deadline
	// configurations are explored concurrently (their levels interleave on the worker pool);
	// the most expensive functions start first
	order := make([]int, len(cs))
	for i := range order {
		order[i] = i
	}
	weight := map[string]int{"derive": 0, "percentiles": 1, "stdev": 1}
	sort.SliceStable(order, func(i, j int) bool {
		wi, oki := weight[cs[order[i]].Fun]
		wj, okj := weight[cs[order[j]].Fun]
		if !oki {
			wi = 2
		}
		if !okj {
			wj = 2
		}
		return wi < wj
	})
	for _, shallow := range []bool{true, false} {
		var cwg sync.WaitGroup
		sem := make(chan bool, 24)
		for _, ci := range order {
			if only := os.Getenv("C10_ONLY"); only != "" && !strings.Contains(cs[ci].ID(), only) { // debugging aid
				continue
			}
			cwg.Add(1)
			sem <- true
			go func(ci int) {
				defer cwg.Done()
				m.explore(ci, deadline, nw, shallow)
				<-sem
			}(ci)
		}
		cwg.Wait()
	}
	close(m.tasks)
	wg.Wait()
	if m.infra != "" {
		rep.Infra = m.infra
	}
	// the showcase histories belong to the explored space: they are only executed here, in the
	// master, when the search found nothing (an aggregator that panics would take the master down)
	var showcase []interface{}
	if rep.Violations() == 0 && atomic.LoadInt32(&m.stop) == 0 && len(m.incompl) == 0 {
		showcase = showcases(cs)
	}
	sort.Strings(m.samples)
	if len(m.samples) > 12 { // spread over the configurations
		var pick []string
		for i := 0; i < 12; i++ {
			pick = append(pick, m.samples[i*len(m.samples)/12])
		}
		m.samples = pick
	}
	sort.Slice(m.perCfg, func(i, j int) bool { return m.perCfg[i]["config"].(string) < m.perCfg[j]["config"].(string) })
	groups := map[string]string{}
	var funs = map[string]bool{}
	for _, c := range cs {
		groups[c.Group] = fmt.Sprintf("interval %d wait %d initial clock %d late ticks %v: %s", c.Interval, c.Wait, c.Init, c.Late, describeAlphabet(c.Ops))
		funs[c.Fun] = true
	}
	raw := cs[0].RawDepth
	depth, maxDepth := 0, 0
	for i, d := range m.depths {
		if i == 0 || d < depth {
			depth = d
		}
		if d > maxDepth {
			maxDepth = d
		}
	}
	rep.Assume = []string{
		"rule regex " + rule + " (k1.a and k1.b share the output key), formats $1 / agg.out (no capture group) / agg.$1.x; dropRaw off (C11 covers it)",
		"the clock never runs backwards and a tick never carries a time above the clock (group D: ticks may lag behind the clock, what is due is decided by the tick's own time); clocks >= wait (below, the unsigned cutoff now-wait underflows: not a real clock)",
		"derive: no line when a bucket has no two different timestamps, ties on the oldest/newest timestamp accept any of the tied values; stdev: population or sample accepted (docs/aggregation.md says neither); percentiles p25..p99 by the NIST (N+1) method cited in the code",
		"state merging: histories are merged iff clock, last tick, reference summary and the implementation's own state dump (VerifC10Dump) agree; the cache's last-seen times are not part of the key (no expiry possible in the explored time span when wait >= 1; wait = 0 runs cache-off in the merged search and cache-on in the raw search)",
		"every expanded state is reached by replaying its history on a fresh aggregator (and must reproduce the recorded key); the alphabet is then applied to it with the state re-installed between operations from a deep copy (VerifC10Restore) instead of one more replay: the aggregator is assumed to keep no state that matters outside tsList / aggregations / match cache (checked by the key comparison of every replay and by the raw search)",
		"final alphabet: a history of the full depth ends with any tick/clock operation but only one point per (name, bucket); depth rule: see coverage.depth_rule",
		"values are multiples of 0.5, so sums are exact; printed values are compared as %f strings (a 1e-9 relative rounding slack for differently ordered floating-point operations)",
	}
	cov := map[string]interface{}{
		"states":                        atLeast1(m.states),
		"product_states":                m.product,
		"transitions":                   m.trans,
		"traces_validated_against_impl": m.execs,
		"operations_executed_on_impl":   m.ops,
		"raw_histories":                 m.rawHist,
		"depth":                         depth,
		"max_depth":                     maxDepth,
		"shallow_pass_depth":            shallowDepth,
		"depth_rule":                    "quick: merged search to depth 5, to depth 4 with the match cache on; thorough: depth 6 everywhere, depth 7 where the depth-5 frontier has at most 100000 states (per_configuration.depth_reached); depth = smallest depth_reached, max_depth = largest; raw search to raw_depth (cache-on wait=0 configurations: raw only)",
		"raw_depth":                     raw,
		"configurations":                len(cs),
		"functions":                     len(funs),
		"alphabet":                      groups,
		"samples":                       append(showcase, toIface(m.samples)...),
		"exhaustive":                    len(m.incompl) == 0 && atomic.LoadInt32(&m.stop) == 0,
		"incomplete_configurations":     m.incompl,
		"per_configuration":             m.perCfg,
		"explanation":                   "states = distinct reference-model states below the full depth (md5 of the canonical rendering), summed over configurations; product_states = distinct (reference state, implementation dump) pairs = nodes of the searched graph; transitions = (state, operation) pairs executed on the real aggregator and compared with the reference, plus the raw histories; traces_validated_against_impl = histories executed from a fresh aggregator with the oracle after every operation (one per expanded state, plus the raw histories); operations_executed_on_impl = all operations the real aggregator processed",
	}
	rep.Finish(cov)
}

var ballast []byte

// every history allocates a fresh aggregator and model and drops them: with a tiny live heap
// the runtime's scavenger keeps returning the freed pages to the OS and faulting them in
// again; an untouched ballast raises the heap goal and stops that
func tuneGC() {
	mb := 8
	if s := os.Getenv("C10_BALLAST"); s != "" {
		mb, _ = strconv.Atoi(s)
	}
	if mb > 0 {
		ballast = make([]byte, mb<<20)
	}
}

func toIface(l []string) []interface{} {
	var out []interface{}
	for _, s := range l {
		out = append(out, s)
	}
	return out
}

// showcases executes three histories of the explored space in the master process and
// records what the real aggregator emitted after every operation (evidence samples).
func showcases(cs []*Config) []interface{} {
	find := func(c *Config, o Op) uint8 {
		for i, x := range c.Ops {
			if x == o {
				return uint8(i)
			}
		}
		panic("showcase operation not in the alphabet: " + o.String())
	}
	pt := func(n string, ts int64, v float64) Op { return Op{K: "point", Name: n, TS: 1000 + ts, Val: v} }
	tk := func(t int64) Op { return Op{K: "tick", T: 1000 + t} }
	var out []interface{}
	e := newExecutor()
	for _, sc := range []struct {
		fun, format string
		h           []Op
	}{
		{"sum", "$1", []Op{pt("k1.a", 10, 1), pt("k1.b", 15, 2.5), pt("k2.a", 20, -3), tk(15), tk(25)}},
		{"percentiles", "agg.out", []Op{pt("k1.a", 19, 2.5), pt("k2.a", 10, -3), tk(14), pt("k1.b", 15, 1), tk(16)}},
		{"derive", "$1", []Op{pt("k1.a", 20, 1), pt("k1.a", 10, 2.5), pt("k1.b", 19, -3), tk(15), pt("k1.a", 15, 1)}},
	} {
		for _, c := range cs {
			if c.Group != "A" || c.Fun != sc.fun || c.Fmt != sc.format || c.Cache {
				continue
			}
			var p []uint8
			for _, o := range sc.h {
				p = append(p, find(c, o))
			}
			var b bytes.Buffer
			e.verbose = &b
			_, _, v := e.run(c, p)
			steps := strings.Split(strings.TrimSpace(b.String()), "\n")
			for i := range steps {
				steps[i] = strings.Join(strings.Fields(steps[i]), " ")
			}
			out = append(out, map[string]interface{}{"config": c.ID(), "history": histString(c, p), "steps": steps, "violation": v != nil})
		}
	}
	return out
}
