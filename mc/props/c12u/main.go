// C12 (schedule half): the UDP read loop. The real Listener.consumeUdp runs
// under the controlled scheduler on a modelled UDP socket; datagrams larger
// than the scanner's first read (so that the handler keeps reading from the
// listener's receive buffer) are delivered back to back, and the dispatcher
// yields inside Dispatch like a slow pipeline would. Every schedule within the
// deviation bound must dispatch exactly the lines of each datagram, whole, in
// order, each once — whatever the listener does with goroutines and buffers.
// Run by the C12 harness as a sub-check (it shares the property id).
package main

import (
	"errors"
	"fmt"
	"io"
	"sort"
	"strings"
	"time"

	"github.com/grafana/carbon-relay-ng/input"
	log "github.com/sirupsen/logrus"

	"verif/mc/kit"
	"verif/mc/ref"
	"verif/mc/vrt"
	"verif/mc/vrt/vnet"
)

type udp struct {
	q      [][]byte
	closed bool
	reads  int
}

type addr struct{}

func (addr) Network() string { return "udp" }
func (addr) String() string  { return "10.0.0.9:1234" }

func (u *udp) ReadFrom(b []byte) (int, vnet.Addr, error) {
	vrt.WaitUntil("udp.ReadFrom", func() bool { return len(u.q) > 0 || u.closed })
	if len(u.q) == 0 {
		return 0, nil, errors.New("use of closed network connection")
	}
	d := u.q[0]
	u.q = u.q[1:]
	u.reads++
	return copy(b, d), addr{}, nil
}

func (u *udp) Close() error { u.closed = true; return nil }

type capture struct{ lines []string }

func (c *capture) Dispatch(buf []byte) {
	c.lines = append(c.lines, string(buf)) // the observation is the argument at call time
	vrt.Yield()                            // a pipeline that takes a moment
}
func (c *capture) IncNumInvalid() {}

func big(tag byte, n int) string { return strings.Repeat(string(tag), n) }

var alphabet = map[string]string{
	"small2":   "s.one 1 2\ns.two 3 4\n",
	"nolf":     "n.only 5 6",
	"bigA":     big('A', 1900) + " 1 2\n" + big('A', 1901) + " 1 2\n" + big('A', 1902) + " 1 2\n",
	"bigB":     big('B', 2100) + " 1 2\n" + big('B', 2101) + " 1 2\n" + big('B', 700) + " 1 2",
	"crlf":     "c.one 1 2\r\nc.two 3 4\r\n",
	"big1line": big('L', 5000) + " 1 2",
}

type exec struct {
	seq  []string
	cap  *capture
	viol string
}

// ---------------------------------------------------------------------------
// two TCP connections served at the same time by the relay's one Plain handler (as the
// listener does: one goroutine per connection calling handler.Handle). Every Read is a
// scheduling point and returns the next segment of its own stream.

type segReader struct {
	segs [][]byte
}

func (r *segReader) Read(p []byte) (int, error) {
	vrt.Yield()
	if len(r.segs) == 0 {
		return 0, io.EOF
	}
	n := copy(p, r.segs[0])
	if n == len(r.segs[0]) {
		r.segs = r.segs[1:]
	} else {
		r.segs[0] = r.segs[0][n:]
	}
	return n, nil
}

var tcpStreams = [2]string{
	"aaaa.first 1 1000\naaaa.second 2 2000\naaaa.third 3 3000",
	"bbbbbbbb.metric.name 7 77700\nbb.x 1 2\r\nbbbbbbbbbbbbbbbbbbbb.long 8 88800\n",
}

// cut sets per stream: inside the second line, at a line end, none
var tcpCuts = [2][][]int{{{26}, {18}, {10, 30}}, {{}, {12}, {29, 40}}}

type tcpExec struct {
	cap  *capture
	cuts [2]int
}

func split(s string, cuts []int) (out [][]byte) {
	prev := 0
	for _, c := range cuts {
		out = append(out, []byte(s[prev:c]))
		prev = c
	}
	return append(out, []byte(s[prev:]))
}

func (e *tcpExec) Body() {
	e.cap = &capture{}
	h := input.NewPlain(e.cap)
	for i := 0; i < 2; i++ {
		e.cuts[i] = vrt.Choose(len(tcpCuts[i]), fmt.Sprintf("segmentation of stream %d", i))
	}
	for i := 0; i < 2; i++ {
		r := &segReader{segs: split(tcpStreams[i], tcpCuts[i][e.cuts[i]])}
		vrt.GoNamed(fmt.Sprintf("conn-%d", i), func() { h.Handle(r) })
	}
	vrt.Quiesce()
}

func (e *tcpExec) Check(r *vrt.Result) (string, string) {
	h := fmt.Sprintf("two connections on one handler, segmentations %v / %v", tcpCuts[0][e.cuts[0]], tcpCuts[1][e.cuts[1]])
	if len(r.Panics) > 0 {
		return "panic", "panic: " + r.Panics[0].Value + "\n" + h + "\n" + r.Panics[0].Stack
	}
	if r.StepLimit {
		return "steplimit", "livelock: step limit\n" + h
	}
	if !r.DriverDone {
		return "blocked", fmt.Sprintf("hang\n%s\nblocked: %v", h, r.Blocked)
	}
	outcome := strings.Join(e.cap.lines, "|")
	for i := 0; i < 2; i++ {
		var got []string
		for _, l := range e.cap.lines {
			if strings.HasPrefix(l, tcpStreams[i][:2]) {
				got = append(got, l)
			}
		}
		var want []string
		for _, l := range ref.Lines([]byte(tcpStreams[i])) {
			want = append(want, string(l))
		}
		if strings.Join(got, "\x00") != strings.Join(want, "\x00") {
			return outcome, fmt.Sprintf("tcp: connection %d: the dispatched lines are not exactly the lines of its stream, in order, each once: got %q, want %q (all dispatched: %q)\n%s", i, got, want, e.cap.lines, h)
		}
	}
	if len(e.cap.lines) != len(ref.Lines([]byte(tcpStreams[0])))+len(ref.Lines([]byte(tcpStreams[1]))) {
		return outcome, fmt.Sprintf("tcp: lines were dispatched that belong to neither stream: %q\n%s", e.cap.lines, h)
	}
	return outcome, ""
}

func (e *exec) Body() {
	u := &udp{}
	vrt.SetEnv("udp", u)
	e.cap = &capture{}
	l := input.NewListener("10.0.0.1:2003", 0, input.NewPlain(e.cap))
	vrt.GoNamed("udp-loop", func() { l.VerifC12UDPLoop() })
	for i, k := range e.seq {
		u.q = append(u.q, []byte(alphabet[k]))
		if i < len(e.seq)-1 && vrt.Choose(2, "next datagram arrives at once | after the loop is idle") == 1 {
			vrt.Quiesce()
		}
	}
	vrt.Quiesce()
	if len(u.q) != 0 {
		e.viol = fmt.Sprintf("%d datagram(s) were never read", len(u.q))
	}
}

func (e *exec) Check(r *vrt.Result) (string, string) {
	h := fmt.Sprintf("datagrams %v", e.seq)
	if len(r.Panics) > 0 {
		return "panic", "panic: " + r.Panics[0].Value + "\n" + h + "\n" + r.Panics[0].Stack
	}
	if r.StepLimit {
		return "steplimit", "livelock: step limit\n" + h
	}
	if !r.DriverDone {
		return "blocked", fmt.Sprintf("hang\n%s\nblocked: %v", h, r.Blocked)
	}
	if e.viol != "" {
		return "viol", e.viol + "\n" + h
	}
	var want []string
	for _, k := range e.seq {
		for _, l := range ref.Lines([]byte(alphabet[k])) {
			want = append(want, string(l))
		}
	}
	got := append([]string(nil), e.cap.lines...)
	outcome := fmt.Sprintf("%d lines", len(got))
	// datagrams are independent streams: the statement fixes the order within a datagram; lines of
	// different datagrams are all distinct here, so compare as multisets and then per datagram order
	sg, sw := append([]string(nil), got...), append([]string(nil), want...)
	sort.Strings(sg)
	sort.Strings(sw)
	if strings.Join(sg, "\x00") != strings.Join(sw, "\x00") {
		return outcome, fmt.Sprintf("udp: the dispatched lines are not exactly the lines of the datagrams, each once and whole: got %d lines %s, want %d lines %s\n%s", len(got), brief(got), len(want), brief(want), h)
	}
	pos := map[string]int{}
	for i, l := range got {
		pos[l] = i
	}
	for _, k := range e.seq {
		prev := -1
		for _, l := range ref.Lines([]byte(alphabet[k])) {
			if pos[string(l)] < prev {
				return outcome, fmt.Sprintf("udp: the lines of datagram %s were dispatched out of order\n%s", k, h)
			}
			prev = pos[string(l)]
		}
	}
	return outcome, ""
}

func brief(ls []string) string {
	var out []string
	for _, l := range ls {
		if len(l) > 24 {
			l = fmt.Sprintf("%s…(%d bytes)", l[:12], len(l))
		}
		out = append(out, fmt.Sprintf("%q", l))
	}
	return "[" + strings.Join(out, " ") + "]"
}

func main() {
	rep := kit.New("C12", "model_checking")
	rep.Quiet()
	log.SetLevel(log.PanicLevel)
	log.SetOutput(io.Discard)
	bound, maxLen := 3, 2
	if rep.Thorough() {
		bound, maxLen = 4, 3
	}
	var keys []string
	for k := range alphabet {
		keys = append(keys, k)
	}
	sort.Strings(keys)
	var scns []*vrt.Scenario
	var rec func(cur []string)
	rec = func(cur []string) {
		if len(cur) >= 1 {
			seq := append([]string(nil), cur...)
			scns = append(scns, &vrt.Scenario{Name: strings.Join(seq, ","), Cfg: vrt.Config{MaxSteps: 50000, Horizon: time.Hour}, Model: vrt.CostDelay, Bound: bound,
				New: func() vrt.Exec { return &exec{seq: seq} }})
		}
		if len(cur) == maxLen {
			return
		}
		for _, k := range keys {
			// all lines of a scenario must be distinct: a datagram kind appears once
			dup := false
			for _, c := range cur {
				if c == k {
					dup = true
				}
			}
			if !dup {
				rec(append(cur, k))
			}
		}
	}
	rec(nil)
	scns = append(scns, &vrt.Scenario{Name: "tcp: two connections, one handler", Cfg: vrt.Config{MaxSteps: 50000, Horizon: time.Hour}, Model: vrt.CostDelay, Bound: bound,
		New: func() vrt.Exec { return &tcpExec{} }})
	rep.Assume = []string{"the UDP socket is a model that hands the queued datagrams to ReadFrom one by one; the dispatcher yields inside Dispatch"}
	e1 := &kit.E1{Rep: rep, Scenarios: scns, Deadline: rep.Deadline(60*time.Second, 10*time.Minute)}
	cov := e1.Run()
	if cov != nil {
		cov["bound"] = bound
	}
	rep.Finish(cov)
}
