// C06: a bad endpoint never stalls ingestion; steady-state losses are all
// counted. The real route -> destination -> connection path runs under the
// controlled scheduler against a modelled endpoint whose behaviour is part of
// the scenario: refusing, slow to answer the connection attempt, healthy,
// accepting but never reading (writes block once the socket buffer is full),
// closing after j writes. Traffic is larger than every buffer in the path.
//
// Oracle: (a) every hand-off Route.Dispatch returns, in zero virtual time
// (virtual time only advances when no goroutine can run, so a hand-off that
// takes virtual time was waiting for a timer or for the endpoint) and within
// a constant number of scheduler steps, in every schedule within the bound;
// (b) endpoint healthy throughout: received + slow_conn == handed off;
// endpoint absent throughout (spool off): conn_down_no_spool == handed off.
package main

import (
	"bytes"
	"fmt"
	"io"
	stdlog "log"
	"strings"
	"time"

	"github.com/grafana/carbon-relay-ng/destination"
	"github.com/grafana/carbon-relay-ng/matcher"
	"github.com/grafana/carbon-relay-ng/route"
	log "github.com/sirupsen/logrus"

	"verif/mc/destharn"
	"verif/mc/harn"
	"verif/mc/kit"
	"verif/mc/vrt"
	"verif/mc/vrt/vos"
)

type behaviour struct {
	name  string
	setup func(n *destharn.Net)
}

var behaviours = []behaviour{
	{"refused", func(n *destharn.Net) { n.Up = false }},
	{"dial-hangs-then-refused", func(n *destharn.Net) { n.Up = false; n.DialDelay = 120 * time.Second }},
	{"healthy", func(n *destharn.Net) { n.Up = true }},
	{"never-reads", func(n *destharn.Net) { n.Up = true; n.Mode = destharn.ReadNever; n.SockBuf = 16 }},
	{"closes-after-1-write", func(n *destharn.Net) { n.Up = true; n.CloseAfterWrites = 1 }},
	{"closes-after-2-writes", func(n *destharn.Net) { n.Up = true; n.CloseAfterWrites = 2 }},
	{"closes-after-3-writes", func(n *destharn.Net) { n.Up = true; n.CloseAfterWrites = 3 }},
}

type params struct {
	beh     int
	nlines  int
	iobuf   int
	connbuf int
	early   bool // start handing off before the connection attempt has been answered
	late    bool // start handing off while a later reconnect attempt is in progress
	admin   bool // an admin thread changes the destination's address (a dial that hangs) while traffic flows
	readdr  bool // an admin thread moves the destination to another, healthy address while the connection to the old endpoint (which never reads) is stuck in a write
	remove  bool // an admin thread removes the destination from the route (Shutdown of a destination whose connection may be failing at that moment) while traffic flows
	backlog bool // spooling on, the endpoint is absent while the first half of the traffic is handed off (it goes to the spool), then comes back as one that accepts and never reads: the backlog is unspooled into a connection that does not drain while the second half is handed off
	spool   bool // spooling on (in-memory filesystem), lines enter the spool at the production pace of 500 us each
}

func (p params) String() string {
	return fmt.Sprintf("endpoint=%s lines=%d iobuf=%d connbuf=%d early=%v late=%v admin=%v spool=%v remove=%v readdr=%v%s", behaviours[p.beh].name, p.nlines, p.iobuf, p.connbuf, p.early, p.late, p.admin, p.spool, p.remove, p.readdr, map[bool]string{true: " backlog=true"}[p.backlog])
}

type exec struct {
	p        params
	net      *destharn.Net
	viol     string
	out      string
	maxSteps int
	handed   int
}

func (e *exec) Body() {
	e.net = &destharn.Net{}
	behaviours[e.p.beh].setup(e.net)
	vrt.SetEnv("net", e.net)
	spoolSleep := time.Duration(0)
	if e.p.spool {
		vrt.SetEnv("fs", vos.NewFS())
		spoolSleep = 500 * time.Microsecond
	}
	d, err := destination.New("r", matcher.Matcher{}, "10.1.1.1:2003", "/spool", e.p.spool, false, time.Second, 5*time.Second, e.p.connbuf, e.p.iobuf, 10, 1000, 1000, time.Second, spoolSleep, 0)
	if err != nil {
		panic(err)
	}
	rt, err := route.NewSendAllMatch("r", matcher.Matcher{}, []*destination.Destination{d})
	if err != nil {
		panic(err)
	}
	other := harn.NewCapture("other", matcher.Matcher{})
	if !e.p.early {
		vrt.Quiesce()
	}
	if e.p.late {
		// the first attempt (answered after 120 s) has failed, the reconnect ticker (5 s) has started the next one
		vrt.Sleep(126 * time.Second)
	}
	if e.p.admin {
		// "modDest r 0 addr=..." from the admin interface: the new address does not answer for 120 s
		e.net.DialDelay = 120 * time.Second
		vrt.GoNamed("admin", func() {
			rt.UpdateDestination(0, map[string]string{"addr": "10.1.1.1:2003"})
		})
	}
	if e.p.readdr {
		// "modDest r 0 addr=<healthy endpoint>" once the old connection's writer is stuck
		vrt.GoNamed("admin", func() {
			vrt.WaitUntil("two lines handed off", func() bool { return e.handed >= 2 })
			e.net.Mode = destharn.ReadAll // the new endpoint reads; the old connection's pending write stays blocked
			if err := rt.UpdateDestination(0, map[string]string{"addr": "10.1.1.2:2003"}); err != nil && e.viol == "" {
				e.viol = "UpdateDestination(addr) returned " + err.Error()
			}
		})
	}
	removed := !e.p.remove
	if e.p.remove {
		// "delDest r 0" from the admin interface
		vrt.GoNamed("admin", func() {
			if err := rt.DelDestination(0); err != nil && e.viol == "" {
				e.viol = "DelDestination(0) returned " + err.Error()
			}
			removed = true
		})
	}
	key0 := d.Key // an address change renames the destination (and its counters)
	c0 := counters(key0)
	var lines []string
	for i := 0; i < e.p.nlines; i++ {
		l := fmt.Sprintf("metric.number%d %d %d", i, i, 1000+i)
		lines = append(lines, l)
		if i == 2 || i == 4 {
			if vrt.Choose(2, "sleep across a flush tick") == 1 {
				vrt.Sleep(1100 * time.Millisecond)
			}
		}
		if e.p.backlog && i == e.p.nlines/2 {
			// the endpoint is back, but it only accepts: the reconnect (5 s ticker) succeeds and
			// the spooled backlog is written into a connection that nobody drains
			e.net.Up, e.net.Mode, e.net.SockBuf = true, destharn.ReadNever, 16
			vrt.Sleep(6 * time.Second)
			vrt.Quiesce()
		}
		t0, s0 := vrt.Elapsed(), vrt.Steps()
		rt.Dispatch([]byte(l))
		if dt := vrt.Elapsed() - t0; dt != 0 && e.viol == "" {
			e.viol = fmt.Sprintf("handing line %d to the route took %v of virtual time: the hand-off waited for a timer or for the endpoint", i, dt)
		}
		if ds := vrt.Steps() - s0; ds > e.maxSteps {
			e.maxSteps = ds
		}
		other.Dispatch([]byte(l)) // another route is served in the same pass
		e.handed++
	}
	vrt.Sleep(3500 * time.Millisecond)
	vrt.Quiesce()
	// whether the removal itself returns is not part of this property (it waits for a flush that an
	// endpoint which never reads can hold up for ever; and three callers of Conn.close() share a
	// two-slot channel): recorded in the outcome only
	adminReturned := removed
	c1 := counters(key0)
	slow, down := c1["slow_conn"]-c0["slow_conn"], c1["conn_down"]-c0["conn_down"]
	recv := e.net.AllRecv()
	got := 0
	for _, l := range lines {
		if bytes.Contains(recv, []byte(l+"\n")) {
			got++
		}
	}
	e.out = fmt.Sprintf("recv=%d slow=%d down=%d", got, slow, down)
	if e.p.remove {
		e.out += fmt.Sprintf(" delDest-returned=%v", adminReturned)
	}
	if e.viol != "" {
		return
	}
	if e.maxSteps > 150 {
		e.viol = fmt.Sprintf("a hand-off needed %d scheduler steps", e.maxSteps)
		return
	}
	if len(other.Lines) != e.p.nlines {
		e.viol = "the other route did not get every line"
		return
	}
	if e.p.admin || e.p.spool || e.p.remove || e.p.readdr {
		return // only the hand-off bound is judged while the address is being changed / with spooling (accounting: C07)
	}
	switch behaviours[e.p.beh].name {
	case "healthy":
		if int64(got)+slow+down != int64(e.p.nlines) || (down != 0 && !e.p.early) {
			e.viol = fmt.Sprintf("healthy endpoint: handed off %d, endpoint received %d, slow_conn counted %d, conn_down_no_spool %d: a line disappeared uncounted (stream %q)", e.p.nlines, got, slow, down, recv)
		}
	case "refused", "dial-hangs-then-refused":
		if down != int64(e.p.nlines) || slow != 0 || got != 0 {
			e.viol = fmt.Sprintf("endpoint down, spooling off: handed off %d, conn_down_no_spool counted %d (slow_conn %d)", e.p.nlines, down, slow)
		}
	}
}

func counters(key string) map[string]int64 {
	return map[string]int64{
		"slow_conn": harn.Count("dest=" + key + ".unit=Metric.action=drop.reason=slow_conn"),
		"conn_down": harn.Count("dest=" + key + ".unit=Metric.action=drop.reason=conn_down_no_spool"),
	}
}

func (e *exec) Check(r *vrt.Result) (string, string) {
	h := e.p.String()
	if len(r.Panics) > 0 {
		return e.out, "panic: " + r.Panics[0].Value + "\n" + h + "\n" + r.Panics[0].Stack
	}
	if r.StepLimit {
		return e.out, "livelock: step limit\n" + h
	}
	if !r.DriverDone {
		return "blocked", fmt.Sprintf("ingestion stalled: handing a line to the route never returned\n%s\nblocked: %v", h, r.Blocked)
	}
	if e.viol != "" {
		return e.out, e.viol + "\n" + h
	}
	return e.out, ""
}

func (e *exec) Counts() map[string]int64 {
	return map[string]int64{fmt.Sprintf("handoffs_needing_%02d_steps_or_less", (e.maxSteps/10+1)*10): 1}
}

func main() {
	rep := kit.New("C06", "model_checking")
	rep.Quiet()
	log.SetLevel(log.PanicLevel)
	log.SetOutput(io.Discard)
	stdlog.SetOutput(io.Discard) // nsqd logs through the standard logger
	bound := 2
	iobufs, connbufs := []int{8, 64}, []int{1, 2}
	if rep.Thorough() {
		bound = 3
		iobufs = []int{1, 8, 64}
	}
	var scns []*vrt.Scenario
	for b := range behaviours {
		for _, iobuf := range iobufs {
			for _, connbuf := range connbufs {
				for _, early := range []bool{false, true} {
					p := params{beh: b, nlines: 6, iobuf: iobuf, connbuf: connbuf, early: early}
					scns = append(scns, &vrt.Scenario{Name: p.String(), Cfg: vrt.Config{MaxSteps: 30000, Horizon: 10 * time.Minute}, Model: vrt.CostDelay, Bound: bound,
						New: func() vrt.Exec { return &exec{p: p} }})
					if behaviours[b].name == "healthy" && !early {
						q := p
						q.admin = true
						scns = append(scns, &vrt.Scenario{Name: q.String(), Cfg: vrt.Config{MaxSteps: 30000, Horizon: 20 * time.Minute}, Model: vrt.CostDelay, Bound: bound,
							New: func() vrt.Exec { return &exec{p: q} }})
					}
					if strings.HasPrefix(behaviours[b].name, "closes-after") && !early && iobuf == 8 {
						q := p
						q.spool = true
						scns = append(scns, &vrt.Scenario{Name: q.String(), Cfg: vrt.Config{MaxSteps: 60000, Horizon: 20 * time.Minute}, Model: vrt.CostDelay, Bound: bound,
							New: func() vrt.Exec { return &exec{p: q} }})
					}
					if behaviours[b].name == "refused" && !early && iobuf == 8 {
						q := p
						q.spool, q.backlog, q.nlines = true, true, 12
						// twelve lines and two connection generations: one deviation less than the short scenarios (100 000+ executions each otherwise)
						scns = append(scns, &vrt.Scenario{Name: q.String() + fmt.Sprintf(" (bound %d)", bound-1), Cfg: vrt.Config{MaxSteps: 60000, Horizon: 20 * time.Minute}, Model: vrt.CostDelay, Bound: bound - 1,
							New: func() vrt.Exec { return &exec{p: q} }})
					}
					if behaviours[b].name == "never-reads" && !early && iobuf == 8 && (connbuf == 1 || rep.Thorough()) {
						q := p
						q.readdr = true
						scns = append(scns, &vrt.Scenario{Name: q.String(), Cfg: vrt.Config{MaxSteps: 60000, Horizon: 20 * time.Minute}, Model: vrt.CostDelay, Bound: bound,
							New: func() vrt.Exec { return &exec{p: q} }})
					}
					if (strings.HasPrefix(behaviours[b].name, "closes-after") || behaviours[b].name == "never-reads") && !early && iobuf == 8 && (connbuf == 1 || rep.Thorough()) {
						q := p
						q.remove = true
						scns = append(scns, &vrt.Scenario{Name: q.String(), Cfg: vrt.Config{MaxSteps: 60000, Horizon: 20 * time.Minute}, Model: vrt.CostDelay, Bound: bound,
							New: func() vrt.Exec { return &exec{p: q} }})
					}
					if behaviours[b].name == "dial-hangs-then-refused" && !early {
						q := p
						q.late = true
						scns = append(scns, &vrt.Scenario{Name: q.String(), Cfg: vrt.Config{MaxSteps: 30000, Horizon: 20 * time.Minute}, Model: vrt.CostDelay, Bound: bound,
							New: func() vrt.Exec { return &exec{p: q} }})
					}
				}
			}
		}
	}
	rep.Assume = []string{
		"'returns within a bounded time' is decided as: returns in every schedule, in zero virtual time (maximal-progress virtual clock) and within a constant number of scheduler steps; wall-clock latency on a loaded host is outside the technique",
		"the TCP endpoint is a model: refuse / answer the dial after 120 s / accept and read everything / accept and never read (16-byte socket buffer) / close after j writes; with spooling also: absent, then back as one that accepts and never reads while a spooled backlog is waiting",
		fmt.Sprintf("delay bound %d; 6 lines against connbuf 1-2, iobuf 8-64 bytes", bound),
	}
	e1 := &kit.E1{Rep: rep, Scenarios: scns, Deadline: rep.Deadline(150*time.Second, 25*time.Minute)}
	cov := e1.Run()
	if cov != nil {
		cov["bound"] = bound
		cov["cost_model"] = "delay"
	}
	rep.Finish(cov)
}
