// C17: grafana.net route: retry until acknowledged, series order kept,
// shutdown drains. The real GrafanaNet route (instrumented) runs under the
// controlled scheduler; its HTTP transport is replaced by a scripted
// RoundTripper whose outcome per request is an exhaustively enumerated choice
// (2xx, 4xx, 5xx, timeout error, connection reset) with at most R failures per
// batch. A driver dispatches a small stream over 2-3 series, optionally sleeps
// across the flush timer, then calls Shutdown().
package main

import (
	"bytes"
	"errors"
	"fmt"
	"hash/fnv"
	"io"
	"io/ioutil"
	"math/rand"
	"net/http"
	"os"
	"path/filepath"
	"sort"
	"strings"
	"time"

	"github.com/golang/snappy"
	"github.com/grafana/carbon-relay-ng/matcher"
	"github.com/grafana/carbon-relay-ng/route"
	"github.com/grafana/carbon-relay-ng/util"
	"github.com/grafana/metrictank/schema/msg"
	log "github.com/sirupsen/logrus"

	"verif/mc/harn"
	"verif/mc/kit"
	"verif/mc/vrt"
)

type params struct {
	conc, bufSize, flushMaxNum int
	blocking                   bool
	stream                     []string // series name per metric, in dispatch order
	maxFail                    int
	dispatchers                int // 2: every series is dispatched by its own goroutine, statement-level interleaving inside Dispatch
}

func (p params) String() string {
	return fmt.Sprintf("concurrency=%d bufSize=%d flushMaxNum=%d blocking=%v stream=%v maxFail=%d dispatchers=%d", p.conc, p.bufSize, p.flushMaxNum, p.blocking, p.stream, p.maxFail, p.dispatchers)
}

type attempt struct {
	body    string // decoded: "name@time,name@time"
	raw     string
	outcome string
}

type transport struct {
	e        *exec
	attempts []attempt
	fails    map[string]int
}

var outcomes = []string{"200", "500", "timeout", "400", "reset"}

// nOutcomes: quick uses the first three (one per code path: success, error status, transport error)
var nOutcomes = 3

func (t *transport) RoundTrip(req *http.Request) (*http.Response, error) {
	body, _ := ioutil.ReadAll(req.Body)
	req.Body.Close()
	ok := func(payload string) (*http.Response, error) {
		return &http.Response{StatusCode: 200, Status: "200 OK", Header: http.Header{}, Body: ioutil.NopCloser(strings.NewReader(payload)), Request: req}, nil
	}
	if !strings.HasSuffix(req.URL.Path, "/metrics") {
		return ok("{}")
	}
	dec, err := snappy.NewReader(bytes.NewReader(body)), error(nil)
	raw, err := ioutil.ReadAll(dec)
	desc := ""
	if err != nil {
		desc = "undecodable: " + err.Error()
	} else {
		var m msg.MetricData
		if err := m.InitFromMsg(raw); err != nil {
			desc = "undecodable: " + err.Error()
		} else if err := m.DecodeMetricData(); err != nil {
			desc = "undecodable: " + err.Error()
		} else {
			var parts []string
			for _, md := range m.Metrics {
				parts = append(parts, fmt.Sprintf("%s@%d", md.Name, md.Time))
			}
			desc = strings.Join(parts, ",")
		}
	}
	o := 0
	if t.fails[desc] < t.e.p.maxFail {
		o = vrt.Choose(nOutcomes, "http outcome")
	}
	if o != 0 {
		t.fails[desc]++
	}
	t.attempts = append(t.attempts, attempt{body: desc, raw: string(body), outcome: outcomes[o]})
	switch outcomes[o] {
	case "200":
		return ok(fmt.Sprintf(`{"Invalid":0,"Published":%d}`, strings.Count(desc, "@")))
	case "400", "500":
		code := 400
		if outcomes[o] == "500" {
			code = 500
		}
		return &http.Response{StatusCode: code, Status: fmt.Sprint(code), Header: http.Header{}, Body: ioutil.NopCloser(strings.NewReader("nope")), Request: req}, nil
	case "timeout":
		return nil, errors.New("net/http: request canceled (Client.Timeout exceeded while awaiting headers)")
	}
	return nil, errors.New("read: connection reset by peer")
}

type exec struct {
	p      params
	tr     *transport
	viol   string
	out    string
	sent   []string // name@time in dispatch order
	drops  int64
	errs   int64
	sdDone bool
}

var tmpDir string

func (e *exec) Body() {
	rand.Seed(7) // the backoff jitter uses math/rand: owned, so that replays are identical
	cfg, err := route.NewGrafanaNetConfig("http://gnet.test/metrics", "key", filepath.Join(tmpDir, "schemas.conf"), filepath.Join(tmpDir, "aggregation.conf"))
	if err != nil {
		panic(err)
	}
	cfg.BufSize = e.p.bufSize
	cfg.FlushMaxNum = e.p.flushMaxNum
	cfg.FlushMaxWait = time.Second
	cfg.Concurrency = e.p.conc
	cfg.Blocking = e.p.blocking
	cfg.ErrBackoffMin = 100 * time.Millisecond
	r, err := route.NewGrafanaNet("g", matcher.Matcher{}, cfg)
	if err != nil {
		panic(err)
	}
	e.tr = &transport{e: e, fails: map[string]int{}}
	route.VerifC17SetTransport(r, e.tr)
	addr := util.AddrToPath(cfg.Addr)
	d0 := harn.Count("dest=" + addr + ".unit=Metric.action=drop.reason=queue_full")
	f0 := harn.Count("dest=" + addr + ".unit=Err.type=flush")
	if e.p.dispatchers <= 1 {
		for i, name := range e.p.stream {
			ts := 1000 + i
			e.sent = append(e.sent, fmt.Sprintf("%s@%d", name, ts))
			t0 := vrt.Elapsed()
			r.Dispatch([]byte(fmt.Sprintf("%s %d %d", name, i, ts)))
			if !e.p.blocking && vrt.Elapsed() != t0 && e.viol == "" {
				e.viol = fmt.Sprintf("non-blocking mode: dispatching metric %d took virtual time", i)
			}
			if i == len(e.p.stream)/2 {
				if vrt.Choose(2, "sleep across the flush timer") == 1 {
					vrt.Sleep(1100 * time.Millisecond)
				}
			}
		}
	} else {
		// one input connection per series: the points of a series are handed over in order by
		// one goroutine, different series concurrently
		bySeries := map[string][]int{}
		var order []string
		for i, name := range e.p.stream {
			if _, ok := bySeries[name]; !ok {
				order = append(order, name)
			}
			bySeries[name] = append(bySeries[name], i)
			e.sent = append(e.sent, fmt.Sprintf("%s@%d", name, 1000+i))
		}
		finished := 0
		for _, name := range order {
			name, idxs := name, bySeries[name]
			vrt.GoNamed("conn-"+name, func() {
				for _, i := range idxs {
					t0 := vrt.Elapsed()
					r.Dispatch([]byte(fmt.Sprintf("%s %d %d", name, i, 1000+i)))
					if !e.p.blocking && vrt.Elapsed() != t0 && e.viol == "" {
						e.viol = fmt.Sprintf("non-blocking mode: dispatching metric %d (series %s, one of several input connections) took virtual time: it waited for the queue although a full queue must drop", i, name)
					}
				}
				finished++
			})
		}
		vrt.WaitUntil("join", func() bool { return finished == len(order) })
	}
	r.Shutdown()
	e.sdDone = true
	e.drops = harn.Count("dest="+addr+".unit=Metric.action=drop.reason=queue_full") - d0
	e.errs = harn.Count("dest="+addr+".unit=Err.type=flush") - f0
	if n := route.VerifC17Buffered(r); n != 0 && e.viol == "" {
		e.viol = fmt.Sprintf("Shutdown returned with %d metric(s) still buffered", n)
	}
}

func (e *exec) Check(r *vrt.Result) (string, string) {
	h := e.p.String()
	if len(r.Panics) > 0 {
		return "panic", "panic: " + r.Panics[0].Value + "\n" + h + "\n" + r.Panics[0].Stack
	}
	if r.StepLimit {
		return "steplimit", "livelock: step limit\n" + h
	}
	if !r.DriverDone {
		what := "Shutdown() never returned"
		if len(e.sent) < len(e.p.stream) {
			what = "Dispatch never returned"
		}
		return "hang", fmt.Sprintf("hang: %s\n%s\nblocked: %v", what, h, r.Blocked)
	}
	acked := map[string]int{}
	var ackOrder []string
	fails := int64(0)
	// failed batches are re-sent identically until acknowledged, never skipped
	pending := map[string]bool{}
	for _, a := range e.tr.attempts {
		if strings.HasPrefix(a.body, "undecodable") {
			return "undecodable", "a POST body could not be decoded (snappy+msgp): " + a.body + "\n" + h
		}
		if a.outcome == "200" {
			delete(pending, a.raw)
			for _, m := range strings.Split(a.body, ",") {
				if m != "" {
					acked[m]++
					ackOrder = append(ackOrder, m)
				}
			}
		} else {
			fails++
			pending[a.raw] = true
		}
	}
	e.out = fmt.Sprintf("acked=%d/%d drops=%d fails=%d", len(acked), len(e.sent), e.drops, fails)
	if e.viol != "" {
		return e.out, e.viol + "\n" + h
	}
	if len(pending) > 0 {
		return e.out, fmt.Sprintf("a batch that failed was never re-sent identically and acknowledged (%d such batches)\n%s\nattempts: %v", len(pending), h, e.attemptsString())
	}
	missing := 0
	for _, m := range e.sent {
		if acked[m] == 0 {
			missing++
		}
	}
	if e.p.blocking && e.drops != 0 {
		return e.out, fmt.Sprintf("blocking mode dropped %d metric(s)\n%s", e.drops, h)
	}
	if int64(missing) != e.drops {
		return e.out, fmt.Sprintf("%d accepted metric(s) were never part of an acknowledged POST after Shutdown returned (dispatched %d, acknowledged %d distinct, counted as dropped %d)\n%s\nattempts: %v", int64(missing)-e.drops, len(e.sent), len(acked), e.drops, h, e.attemptsString())
	}
	if e.errs != fails {
		return e.out, fmt.Sprintf("flush error counter moved by %d for %d failed requests\n%s", e.errs, fails, h)
	}
	// per series, acknowledged order == dispatch order (first acknowledgement of each point)
	last := map[string]string{}
	seen := map[string]bool{}
	for _, m := range ackOrder {
		if seen[m] {
			continue
		}
		seen[m] = true
		name := m[:strings.Index(m, "@")]
		if prev, ok := last[name]; ok && prev > m {
			return e.out, fmt.Sprintf("series %s acknowledged out of order: %s after %s\n%s\nattempts: %v", name, m, prev, h, e.attemptsString())
		}
		last[name] = m
	}
	return e.out, ""
}

func (e *exec) attemptsString() string {
	var s []string
	for _, a := range e.tr.attempts {
		s = append(s, a.outcome+":"+a.body)
	}
	return strings.Join(s, " | ")
}

func shardOf(name string, n int) int {
	h := fnv.New32a()
	h.Write([]byte(name))
	return int(h.Sum32() % uint32(n))
}

func main() {
	rep := kit.New("C17", "model_checking")
	rep.Quiet()
	log.SetLevel(log.PanicLevel)
	log.SetOutput(io.Discard)
	tmpDir = filepath.Join("/verif/.work", fmt.Sprintf("c17-tmp-%d", os.Getpid()))
	if os.Getenv("VRT_WORKER") != "" {
		tmpDir = os.Getenv("C17_TMP")
	} else {
		os.MkdirAll(tmpDir, 0o755)
		os.Setenv("C17_TMP", tmpDir)
		ioutil.WriteFile(filepath.Join(tmpDir, "schemas.conf"), []byte("[default]\npattern = .*\nretentions = 10s:1d\n"), 0o644)
		ioutil.WriteFile(filepath.Join(tmpDir, "aggregation.conf"), []byte("[default]\npattern = .*\nxFilesFactor = 0.5\naggregationMethod = average\n"), 0o644)
		defer os.RemoveAll(tmpDir)
	}
	// series: two that share a shard under concurrency 2 and one that does not
	var same, other []string
	for i := 0; len(same) < 2 || len(other) < 1; i++ {
		n := fmt.Sprintf("s%d", i)
		if shardOf(n, 2) == 0 {
			same = append(same, n)
		} else {
			other = append(other, n)
		}
	}
	a, b, c := same[0], same[1], other[0]
	bound, maxFail := 1, 2
	streams := [][]string{{a, c, a}, {a, b, c, a}}
	if rep.Thorough() {
		bound, maxFail = 2, 2
		nOutcomes = len(outcomes)
		streams = append(streams, []string{a, b, a, c, b})
	}
	var scns []*vrt.Scenario
	for _, conc := range []int{1, 2} {
		for _, buf := range []int{2, 4} {
			for _, fmn := range []int{1, 2} {
				for _, blocking := range []bool{false, true} {
					for si, st := range streams {
						for _, mf := range []int{1, maxFail} {
							if mf == 2 && si > 0 && !rep.Thorough() {
								continue // quick: two failures per batch on the short stream only
							}
							if mf == 1 && maxFail == 1 {
								continue
							}
							p := params{conc: conc, bufSize: buf, flushMaxNum: fmn, blocking: blocking, stream: st, maxFail: mf}
							scns = append(scns, &vrt.Scenario{Name: p.String(), Cfg: vrt.Config{MaxSteps: 50000, Horizon: 30 * time.Minute}, Model: vrt.CostDelay, Bound: bound,
								New: func() vrt.Exec { return &exec{p: p} }})
						}
					}
				}
			}
		}
	}
	// concurrent input connections: statement-level interleaving inside GrafanaNet.Dispatch
	fmns, cstream := []int{1}, []string{a, c, a}
	if rep.Thorough() {
		fmns, cstream = []int{1, 2}, []string{a, c, a, c}
	}
	for _, buf := range []int{4} {
		for _, fmn := range fmns {
			for _, blocking := range []bool{false, true} {
				p := params{conc: 2, bufSize: buf, flushMaxNum: fmn, blocking: blocking, stream: cstream, maxFail: 1, dispatchers: 2}
				scns = append(scns, &vrt.Scenario{Name: p.String(), Cfg: vrt.Config{MaxSteps: 50000, Horizon: 30 * time.Minute, Groups: map[string]bool{"c17": true}}, Model: vrt.CostDelay, Bound: bound + 1,
					New: func() vrt.Exec { return &exec{p: p} }})
			}
		}
	}
	// two input connections whose series share a shard, a queue of 1-2 slots and a worker that is kept
	// busy by failing requests: the full-queue decision is taken by both at the last free slot
	for _, buf := range []int{1, 2} {
		for _, blocking := range []bool{false, true} {
			if blocking && !rep.Thorough() {
				continue
			}
			st := []string{a, b, a, b}
			if rep.Thorough() {
				st = []string{a, b, a, b, a, b}
			}
			p := params{conc: 1, bufSize: buf, flushMaxNum: 1, blocking: blocking, stream: st, maxFail: 1, dispatchers: 2}
			scns = append(scns, &vrt.Scenario{Name: p.String(), Cfg: vrt.Config{MaxSteps: 50000, Horizon: 30 * time.Minute, Groups: map[string]bool{"c17": true}}, Model: vrt.CostDelay, Bound: bound + 1,
				New: func() vrt.Exec { return &exec{p: p} }})
		}
	}
	sort.SliceStable(scns, func(i, j int) bool { return len(scns[i].Name) < len(scns[j].Name) })
	rep.Assume = []string{
		"the HTTP endpoint is a scripted RoundTripper: every request to /metrics gets an exhaustively chosen outcome (quick: 200, 500, timeout error; thorough also 400 and connection reset) with at most R failures per batch; config POSTs get 200; the client timeout is removed (timeouts are an outcome); backoff jitter uses a fixed math/rand seed",
		fmt.Sprintf("delay bound %d, R=1 and R=%d (quick: R=2 on the 3-metric stream only); flushMaxWait 1 s; concurrency 1-2, bufSize 2-4, flushMaxNum 1-2, blocking on/off", bound, maxFail),
	}
	e1 := &kit.E1{Rep: rep, Scenarios: scns, Deadline: rep.Deadline(150*time.Second, 30*time.Minute)}
	cov := e1.Run()
	if cov != nil {
		cov["bound"] = bound
		cov["cost_model"] = "delay"
	}
	if os.Getenv("VRT_WORKER") == "" {
		os.RemoveAll(tmpDir)
	}
	rep.Finish(cov)
}
