// C01: every accepted metric reaches exactly the matching routes and
// destinations. Engine E4: bounded-exhaustive enumeration of routing tables x
// metric names, run through the real Table.Dispatch / real routes / real
// destinations / real aggregators and compared, per dispatch, with the
// reference routing function ref.Table.Dispatch (written from the statement).
//
//	part a  table level: ordered blacklists of 0..2 filters x rewriter none|a>b
//	        x 13 aggregation set-ups x every ordered list of 0..3 capture routes
//	        (filters from the 6-element alphabet F) x 10 names
//	part b  route level: sendAllMatch / sendFirstMatch / consistentHashing routes
//	        built by the real constructors x 6 route filters x every ordered list
//	        of 1..3 real destinations with filters from F x 10 names
//	part c  end to end: 3 blacklists x 2 rewriters x 3 aggregations x every
//	        ordered pair of 5 real route shapes x 10 names
package main

import (
	"fmt"
	"io"
	"os"
	"sort"
	"strings"
	"time"

	"github.com/grafana/carbon-relay-ng/aggregator"
	"github.com/grafana/carbon-relay-ng/destination"
	"github.com/grafana/carbon-relay-ng/matcher"
	"github.com/grafana/carbon-relay-ng/rewriter"
	"github.com/grafana/carbon-relay-ng/route"
	"github.com/grafana/carbon-relay-ng/stats"
	"github.com/grafana/carbon-relay-ng/table"
	"github.com/grafana/carbon-relay-ng/validate"
	m20 "github.com/metrics20/go-metrics20/carbon20"
	log "github.com/sirupsen/logrus"

	"verif/mc/harn"
	"verif/mc/kit"
	"verif/mc/ref"
)

var rep *kit.Reporter

// F is the filter alphabet of DESIGN.md §4 C01.
var F = []ref.Filter{{}, {Prefix: "a"}, {NotPrefix: "a"}, {Sub: "b"}, {Regex: "^a"}, {NotRegex: "b$"}}

// names collide with every filter of F, before and after the rewrite a>b.
// G: filters that combine several options whose literals overlap (a substring that starts inside
// the prefix, a prefix and a longer notPrefix, ...): every option is evaluated on the whole name.
// Used for the route filter and the destination filters of part b2.
var G = []ref.Filter{{Prefix: "a", Sub: "ab"}, {Prefix: "a", NotSub: "ab"}, {Prefix: "a.", Sub: ".b"}, {Prefix: "a", NotPrefix: "ab"},
	{Sub: "a", NotSub: "b"}, {Prefix: "a", Regex: "b$"}, {NotPrefix: "b", NotRegex: "^a"}, {Sub: "b", Regex: "^a", NotRegex: "x"}}

var names = []string{"a", "b", "ab", "ba", "a.b", "b.a", "x", "x.a", "xb", "a.x"}

const (
	valTs       = " 1 1000" // value and timestamp of every line; the aggregator clock stands at 1000
	refused     = "127.0.0.1:1"
	maxReported = 25
)

type ctr interface{ Count() int64 }

var cIn, cInvalid, cBlack, cUnr ctr

// ---------------------------------------------------------------------------
// bookkeeping

var (
	evals      int64
	nontrivial int64
	tables     int64
	samples    []interface{}
	perPart    = map[string]*partStat{}
	deadline   time.Time
	cutShort   string
)

type partStat struct {
	Tables     int64 `json:"tables"`
	Dispatches int64 `json:"dispatches"`
	Nontrivial int64 `json:"nontrivial_tables"`
}

func stat(part string) *partStat {
	s := perPart[part]
	if s == nil {
		s = &partStat{}
		perPart[part] = s
	}
	return s
}

func stop() bool { return rep.Violations() >= maxReported }

// ---------------------------------------------------------------------------
// a live table: the real objects next to their reference description

type destObs struct {
	key    string // reference key (d0, d1, ...)
	d      *destination.Destination
	drops  ctr
	before int64
	delta  int64
}

type liveRoute struct {
	cap   *harn.Capture
	real  route.Route
	dests []*destObs
}

type aggObs struct {
	a      *aggregator.Aggregator
	in     ctr
	before int64
}

type live struct {
	part   string
	layout int // whitespace layout of the next dispatched line (0: single spaces, 1: tabs, 2: leading blank + run of blanks)
	t      *table.Table
	ref    ref.Table
	routes []liveRoute // parallel to ref.Routes
	aggs   []*aggObs   // parallel to ref.Aggs
	outs   map[string]bool
	keybuf []byte
}

func newLive(part string) *live {
	cfg, err := table.NewTableConfig("/tmp/verif-nospool", "1h", validate.LevelLegacy{Level: m20.MediumLegacy}, validate.LevelM20{Level: m20.MediumM20}, false)
	if err != nil {
		panic(err)
	}
	return &live{part: part, t: table.New(cfg), outs: map[string]bool{}}
}

func mk(f ref.Filter) matcher.Matcher {
	return harn.MustMatcher(f.Prefix, f.NotPrefix, f.Sub, f.NotSub, f.Regex, f.NotRegex)
}

func (l *live) addBlack(f ref.Filter) {
	m := mk(f)
	l.t.AddBlacklist(&m)
	l.ref.Blacklist = append(l.ref.Blacklist, f)
}

func (l *live) delLastBlack() {
	n := len(l.ref.Blacklist) - 1
	if err := l.t.DelBlacklist(n); err != nil {
		panic(err)
	}
	l.ref.Blacklist = l.ref.Blacklist[:n:n]
}

func (l *live) addRewriter(r ref.Rewriter) {
	rw, err := rewriter.New(r.Old, r.New, "", r.Max)
	if err != nil {
		panic(err)
	}
	l.t.AddRewriter(rw)
	l.ref.Rewriters = append(l.ref.Rewriters, r)
}

func (l *live) delLastRewriter() {
	n := len(l.ref.Rewriters) - 1
	if err := l.t.DelRewriter(n); err != nil {
		panic(err)
	}
	l.ref.Rewriters = l.ref.Rewriters[:n:n]
}

func (l *live) addAgg(a ref.Agg, cache bool) {
	out := make(chan []byte, 16)
	tick := make(chan time.Time)
	now := func() time.Time { return time.Unix(1000, 0) }
	ag, err := aggregator.NewMocked("sum", mk(a.Filter), "agg.out", cache, 10, 5, a.DropRaw, out, 64, now, tick)
	if err != nil {
		panic(err)
	}
	l.t.AddAggregator(ag)
	l.aggs = append(l.aggs, &aggObs{a: ag, in: stats.Counter("unit=Metric.direction=in.aggregator=" + ag.Key)})
	l.ref.Aggs = append(l.ref.Aggs, a)
}

// delLastAgg removes (and thereby shuts down) the last aggregator.
func (l *live) delLastAgg() {
	n := len(l.ref.Aggs) - 1
	if err := l.t.DelAggregator(n); err != nil {
		panic(err)
	}
	l.aggs = l.aggs[:n:n]
	l.ref.Aggs = l.ref.Aggs[:n:n]
}

func (l *live) addCapture(key string, f ref.Filter) {
	c := harn.NewCapture(key, mk(f))
	l.t.AddRoute(c)
	l.routes = append(l.routes, liveRoute{cap: c})
	l.ref.Routes = append(l.ref.Routes, ref.Route{Key: key, Type: ref.TypeCapture, Filter: f})
}

// addReal builds a real route with real destinations through the real
// constructors. Destination i has the reference key d<i> and the carbon
// instance d<i> on the refusing port, which gives every destination of the
// route its own counters.
func (l *live) addReal(spec ref.Route) {
	lr := liveRoute{}
	var ds []*destination.Destination
	for _, dspec := range spec.Dests {
		d, err := destination.New(spec.Key, mk(dspec.Filter), refused+":"+dspec.Key, "/tmp/verif-nospool", false, false, time.Second, time.Hour, 10, 1000, 10, 1000, 1000, time.Second, 0, 0)
		if err != nil {
			panic(err)
		}
		ds = append(ds, d)
		lr.dests = append(lr.dests, &destObs{key: dspec.Key, d: d, drops: stats.Counter("dest=" + d.Key + ".unit=Metric.action=drop.reason=conn_down_no_spool")})
	}
	var err error
	switch spec.Type {
	case ref.TypeAll:
		lr.real, err = route.NewSendAllMatch(spec.Key, mk(spec.Filter), ds)
	case ref.TypeFirst:
		lr.real, err = route.NewSendFirstMatch(spec.Key, mk(spec.Filter), ds)
	case ref.TypeHashing:
		lr.real, err = route.NewConsistentHashing(spec.Key, mk(spec.Filter), ds)
	default:
		panic(spec.Type)
	}
	if err != nil {
		panic(err)
	}
	l.t.AddRoute(lr.real)
	l.routes = append(l.routes, lr)
	l.ref.Routes = append(l.ref.Routes, spec)
}

// delLastRoute removes the last route (real routes and their destinations are
// shut down by Table.DelRoute).
func (l *live) delLastRoute() {
	n := len(l.ref.Routes) - 1
	if err := l.t.DelRoute(l.ref.Routes[n].Key); err != nil {
		panic(err)
	}
	l.routes = l.routes[:n:n]
	l.ref.Routes = l.ref.Routes[:n:n]
}

// beginTable / endTable bracket the dispatches of one configuration (coverage
// accounting only).
func (l *live) beginTable() {
	for k := range l.outs {
		delete(l.outs, k)
	}
}

func (l *live) endTable() {
	tables++
	s := stat(l.part)
	s.Tables++
	if len(l.outs) >= 2 {
		nontrivial++
		s.Nontrivial++
	}
}

// dispatch sends one metric through the real table and compares everything
// observable with the reference outcome.
func (l *live) dispatch(name string) {
	// the whitespace layout of the received line must not matter (the forwarded line is normalised)
	line := name + valTs
	switch l.layout {
	case 1:
		line = strings.Replace(line, " ", "\t", -1)
	case 2:
		line = " " + strings.Replace(line, " ", "  ", 1)
	}
	want := l.ref.Dispatch(name)

	in0, inv0, b0, u0 := cIn.Count(), cInvalid.Count(), cBlack.Count(), cUnr.Count()
	for i := range l.routes {
		r := &l.routes[i]
		if r.cap != nil {
			r.cap.Lines = r.cap.Lines[:0]
			r.cap.Raw = r.cap.Raw[:0]
		}
		for _, d := range r.dests {
			d.before = d.drops.Count()
		}
	}
	for _, a := range l.aggs {
		a.before = a.in.Count()
	}

	l.t.Dispatch([]byte(line))

	// exact barriers: every aggregator has processed what it was handed, every
	// destination's relay loop has processed what it was handed
	for _, a := range l.aggs {
		harn.AggRest(a.a)
	}
	for i := range l.routes {
		for _, d := range l.routes[i].dests {
			d.d.Flush()
			d.delta = d.drops.Count() - d.before
		}
	}

	evals++
	stat(l.part).Dispatches++
	if cInvalid.Count()-inv0 != 0 || cIn.Count()-in0 != 1 {
		rep.Infra = fmt.Sprintf("harness: line %q was not accepted by validation (in %+d invalid %+d)", line, cIn.Count()-in0, cInvalid.Count()-inv0)
		return
	}

	var bad []string
	kb := l.keybuf[:0]
	if d := cBlack.Count() - b0; d != int64(want.Blacklist) {
		bad = append(bad, fmt.Sprintf("blacklist counter %+d, expected %+d", d, want.Blacklist))
	}
	if d := cUnr.Count() - u0; d != int64(want.Unroutable) {
		bad = append(bad, fmt.Sprintf("unroutable counter %+d, expected %+d", d, want.Unroutable))
	}
	if want.Blacklisted {
		kb = append(kb, 'B')
	}
	if want.Consumed {
		kb = append(kb, 'C')
	}
	for i, a := range l.aggs {
		got := a.in.Count() - a.before
		exp := int64(0)
		if want.AggSeen[i] {
			exp = 1
			kb = append(kb, 'g', byte('0'+i))
		}
		if got != exp {
			bad = append(bad, fmt.Sprintf("aggregation %d %s took %d point(s), expected %d", i, l.ref.Aggs[i], got, exp))
		}
	}
	wantLine := want.Name + valTs
	for i := range l.routes {
		r := &l.routes[i]
		spec := &l.ref.Routes[i]
		kb = append(kb, '|')
		if r.cap != nil {
			exp := want.Deliveries[ref.Delivery{Route: spec.Key, Dest: ref.DestOfRoute}]
			kb = append(kb, byte('0'+exp))
			if len(r.cap.Lines) != exp {
				bad = append(bad, fmt.Sprintf("route %s handed the metric %d time(s), expected %d", spec, len(r.cap.Lines), exp))
			}
			for _, got := range r.cap.Lines {
				if got != wantLine {
					bad = append(bad, fmt.Sprintf("route %s was handed %q, expected %q", spec, got, wantLine))
				}
			}
			continue
		}
		if spec.Type == ref.TypeHashing {
			total := int64(0)
			for _, d := range r.dests {
				total += d.delta
			}
			exp := int64(want.HashRoutes[spec.Key])
			kb = append(kb, 'h', byte('0'+exp))
			if total > exp || (total < exp && !want.HashAtMost[spec.Key]) {
				bad = append(bad, fmt.Sprintf("consistentHashing route %s delivered to %d destination(s) in total %v, expected exactly %d", spec, total, deltas(r), exp))
			}
			continue
		}
		for _, d := range r.dests {
			exp := int64(want.Deliveries[ref.Delivery{Route: spec.Key, Dest: d.key}])
			kb = append(kb, byte('0'+exp))
			if d.delta != exp {
				bad = append(bad, fmt.Sprintf("route %s destination %s received the metric %d time(s), expected %d", spec, d.key, d.delta, exp))
			}
		}
	}
	l.keybuf = kb
	if !l.outs[string(kb)] {
		l.outs[string(kb)] = true
	}
	if len(bad) > 0 {
		tbl := l.ref.String()
		rep.Violation(fmt.Sprintf("part %s table %s name %s", l.part, tbl, name),
			fmt.Sprintf("part %s: table %s: metric %q: %s", l.part, tbl, line, strings.Join(bad, "; ")),
			map[string]interface{}{"part": l.part, "table": l.ref, "line": line, "expected": describe(want), "problems": bad})
	}
}

func deltas(r *liveRoute) []int64 {
	var out []int64
	for _, d := range r.dests {
		out = append(out, d.delta)
	}
	return out
}

func describe(o ref.Outcome) map[string]interface{} {
	var del []string
	for k, v := range o.Deliveries {
		del = append(del, fmt.Sprintf("%s/%s x%d", k.Route, k.Dest, v))
	}
	sort.Strings(del)
	return map[string]interface{}{"name_after_rewrite": o.Name, "blacklisted": o.Blacklisted, "consumed_by_drop_raw": o.Consumed, "aggregations_seen": o.AggSeen,
		"accepting_routes": o.Accepted, "deliveries": del, "hashing_routes": o.HashRoutes, "unroutable": o.Unroutable}
}

func (l *live) sample(extra string) {
	if len(samples) >= 14 {
		return
	}
	n := names[int(tables)%len(names)]
	samples = append(samples, map[string]interface{}{"part": l.part, "table": l.ref.String(), "name": n, "expected": describe(l.ref.Dispatch(n)), "note": extra})
}

// ---------------------------------------------------------------------------
// enumeration helpers

// lists returns every ordered list over {0..n-1} of length lo..hi, shortest first.
func lists(n, lo, hi int) [][]int {
	var out [][]int
	for k := lo; k <= hi; k++ {
		idx := make([]int, k)
		for {
			out = append(out, append([]int(nil), idx...))
			i := k - 1
			for i >= 0 {
				idx[i]++
				if idx[i] < n {
					break
				}
				idx[i] = 0
				i--
			}
			if i < 0 {
				break
			}
		}
	}
	return out
}

func commonPrefix(a, b []int) int {
	n := 0
	for n < len(a) && n < len(b) && a[n] == b[n] {
		n++
	}
	return n
}

type aggSetup []ref.Agg

// aggSetups: none; one aggregation (keep|drop) x (^a|b$); two aggregations
// with the two regexes in either order x (keep|drop)^2  = 1 + 4 + 8 = 13.
func aggSetups() []aggSetup {
	res := []ref.Filter{{Regex: "^a"}, {Regex: "b$"}}
	out := []aggSetup{nil}
	for _, drop := range []bool{false, true} {
		for _, re := range res {
			out = append(out, aggSetup{{Filter: re, DropRaw: drop}})
		}
	}
	for _, order := range [][2]int{{0, 1}, {1, 0}} {
		for _, d0 := range []bool{false, true} {
			for _, d1 := range []bool{false, true} {
				out = append(out, aggSetup{{Filter: res[order[0]], DropRaw: d0}, {Filter: res[order[1]], DropRaw: d1}})
			}
		}
	}
	return out
}

func (l *live) setAggs(s aggSetup, cache bool) {
	for len(l.ref.Aggs) > 0 {
		l.delLastAgg()
	}
	for _, a := range s {
		l.addAgg(a, cache)
	}
}

// rewriterSetups: none, a>b; the thorough tier adds the two orders of a>b and b>x.
func rewriterSetups(deep bool) [][]ref.Rewriter {
	ab := ref.Rewriter{Old: "a", New: "b", Max: -1}
	bx := ref.Rewriter{Old: "b", New: "x", Max: -1}
	out := [][]ref.Rewriter{nil, {ab}}
	if deep {
		out = append(out, []ref.Rewriter{ab, bx}, []ref.Rewriter{bx, ab})
	}
	return out
}

func (l *live) setRewriters(rws []ref.Rewriter) {
	for len(l.ref.Rewriters) > 0 {
		l.delLastRewriter()
	}
	for _, r := range rws {
		l.addRewriter(r)
	}
}

// setBlacklist / setCaptures move from the current list to the wanted one with
// the fewest Del*/Add* calls (common prefix kept).
func (l *live) setBlacklist(cur *[]int, want []int) {
	p := commonPrefix(*cur, want)
	for len(l.ref.Blacklist) > p {
		l.delLastBlack()
	}
	for _, f := range want[p:] {
		l.addBlack(F[f])
	}
	*cur = want
}

func (l *live) setCaptures(cur *[]int, want []int) {
	p := commonPrefix(*cur, want)
	for len(l.ref.Routes) > p {
		l.delLastRoute()
	}
	for i := p; i < len(want); i++ {
		l.addCapture(fmt.Sprintf("c%d", i), F[want[i]])
	}
	*cur = want
}

// ---------------------------------------------------------------------------
// part a: table level, capture routes

func partA(maxRoutes int, deep bool) (done bool) {
	l := newLive("a")
	blacklists := lists(len(F), 0, 2)
	routeLists := lists(len(F), 0, maxRoutes)
	setups := aggSetups()
	rwSetups := rewriterSetups(deep)
	var curB, curR []int
	total := len(setups) * len(rwSetups) * len(blacklists) * len(routeLists)
	sampleAt := map[int64]bool{0: true, int64(total) / 7: true, int64(total) / 3: true, int64(total) / 2: true, int64(total) - 1: true}
	n := int64(0)
	defer func() {
		l.setCaptures(&curR, nil)
		l.setBlacklist(&curB, nil)
		l.setRewriters(nil)
		l.setAggs(nil, false)
	}()
	for si, s := range setups {
		l.setAggs(s, true)
		for _, rw := range rwSetups {
			l.setRewriters(rw)
			for _, b := range blacklists {
				if time.Now().After(deadline) {
					cutShort = fmt.Sprintf("part a stopped by the internal deadline after %d of %d aggregation set-ups were covered completely", si, len(setups))
					return false
				}
				l.setBlacklist(&curB, b)
				for _, r := range routeLists {
					l.setCaptures(&curR, r)
					l.beginTable()
					for _, name := range names {
						l.dispatch(name)
					}
					if sampleAt[n] {
						l.sample(fmt.Sprintf("table %d of %d in part a", n+1, total))
					}
					n++
					l.endTable()
					if stop() || rep.Infra != "" {
						return false
					}
				}
			}
		}
	}
	return true
}

// ---------------------------------------------------------------------------
// part b: route level, real routes and destinations

func partB(part string, RF, F []ref.Filter, maxDests int) (done bool) {
	l := newLive(part)
	destLists := lists(len(F), 1, maxDests)
	types := []string{ref.TypeAll, ref.TypeFirst, ref.TypeHashing}
	total := len(types) * len(RF) * len(destLists)
	n := 0
	for _, typ := range types {
		for _, rf := range RF {
			for _, dl := range destLists {
				if time.Now().After(deadline) {
					cutShort = fmt.Sprintf("part %s stopped by the internal deadline after %d of %d routes", part, n, total)
					return false
				}
				spec := ref.Route{Key: "r0", Type: typ, Filter: rf}
				for i, f := range dl {
					spec.Dests = append(spec.Dests, ref.Dest{Key: fmt.Sprintf("d%d", i), Filter: F[f]})
				}
				l.addReal(spec)
				l.beginTable()
				chosen := map[string]string{}
				for pass := 0; pass < 2; pass++ {
					l.layout = pass // second pass: the same metrics arrive tab-separated
					for _, name := range names {
						l.dispatch(name)
						if typ != ref.TypeHashing {
							continue
						}
						// the same name must go to the same destination as long as the route is unchanged
						got := fmt.Sprint(deltas(&l.routes[0]))
						if prev, ok := chosen[name]; ok && prev != got {
							tbl := l.ref.String()
							rep.Violation(fmt.Sprintf("part b table %s name %s unstable", tbl, name),
								fmt.Sprintf("part b: table %s: metric %q went to destinations %s first and %s on the second dispatch through the unchanged consistentHashing route", tbl, name+valTs, prev, got),
								map[string]interface{}{"part": "b", "table": l.ref, "line": name + valTs})
						}
						chosen[name] = got
					}
					if typ != ref.TypeHashing {
						break
					}
				}
				if n == 0 || n == total/2 || n == total-1 || n == total/3 {
					l.sample(fmt.Sprintf("route %d of %d in part %s", n+1, total, part))
				}
				n++
				l.endTable()
				l.delLastRoute()
				if stop() || rep.Infra != "" {
					return false
				}
			}
		}
	}
	return true
}

// ---------------------------------------------------------------------------
// part c: end to end

func shapes() []ref.Route {
	d := func(fs ...ref.Filter) []ref.Dest {
		var out []ref.Dest
		for i, f := range fs {
			out = append(out, ref.Dest{Key: fmt.Sprintf("d%d", i), Filter: f})
		}
		return out
	}
	return []ref.Route{
		{Type: ref.TypeAll, Filter: ref.Filter{Prefix: "a"}, Dests: d(ref.Filter{}, ref.Filter{Sub: "b"})},
		{Type: ref.TypeFirst, Filter: ref.Filter{}, Dests: d(ref.Filter{Regex: "^a"}, ref.Filter{NotRegex: "b$"}, ref.Filter{})},
		{Type: ref.TypeHashing, Filter: ref.Filter{NotRegex: "b$"}, Dests: d(ref.Filter{}, ref.Filter{}, ref.Filter{})},
		{Type: ref.TypeFirst, Filter: ref.Filter{Sub: "b"}, Dests: d(ref.Filter{NotPrefix: "a"}, ref.Filter{Prefix: "a"})},
		{Type: ref.TypeAll, Filter: ref.Filter{}, Dests: d(ref.Filter{NotPrefix: "a"})},
	}
}

func partC() (done bool) {
	l := newLive("c")
	sh := shapes()
	blacklists := [][]ref.Filter{nil, {{Sub: "x"}}, {{Prefix: "b"}, {NotRegex: "b$"}}}
	setups := []aggSetup{nil, {{Filter: ref.Filter{Regex: "^a"}, DropRaw: true}}, {{Filter: ref.Filter{Regex: "b$"}, DropRaw: false}, {Filter: ref.Filter{Regex: "^b"}, DropRaw: true}}}
	total := len(setups) * 2 * len(blacklists) * len(sh) * len(sh)
	n := 0
	defer func() {
		l.setRewriters(nil)
		l.setAggs(nil, false)
	}()
	for _, s := range setups {
		l.setAggs(s, false)
		for _, rw := range rewriterSetups(false) {
			l.setRewriters(rw)
			for _, bl := range blacklists {
				for _, f := range bl {
					l.addBlack(f)
				}
				for i := range sh {
					for j := range sh {
						if time.Now().After(deadline) {
							cutShort = fmt.Sprintf("part c stopped by the internal deadline after %d of %d tables", n, total)
							return false
						}
						r0, r1 := sh[i], sh[j]
						r0.Key, r1.Key = "r0", "r1"
						l.addReal(r0)
						l.addReal(r1)
						l.beginTable()
						for _, name := range names {
							l.layout = 0
							l.dispatch(name)
							l.layout = 2 // leading blank and a run of blanks
							l.dispatch(name)
							l.layout = 0
						}
						if n == 7 || n == total/2 || n == total-3 {
							l.sample(fmt.Sprintf("table %d of %d in part c", n+1, total))
						}
						n++
						l.endTable()
						l.delLastRoute()
						l.delLastRoute()
						if stop() || rep.Infra != "" {
							return false
						}
					}
				}
				for len(l.ref.Blacklist) > 0 {
					l.delLastBlack()
				}
			}
		}
	}
	return true
}

// replay re-executes exactly one recorded dispatch (./check C01 --replay <file>)
// on a table rebuilt from the recorded description.
func replay(path string) {
	var r struct {
		Part  string    `json:"part"`
		Table ref.Table `json:"table"`
		Line  string    `json:"line"`
	}
	if err := kit.LoadReplay(path, &r); err != nil || len(strings.Fields(r.Line)) != 3 {
		fmt.Fprintf(rep.Out, "INFRA-ERROR property=C01 cannot load replay %s: %v\n", path, err)
		os.Exit(2)
	}
	l := newLive(r.Part)
	for _, f := range r.Table.Blacklist {
		l.addBlack(f)
	}
	for _, rw := range r.Table.Rewriters {
		l.addRewriter(rw)
	}
	for _, a := range r.Table.Aggs {
		l.addAgg(a, r.Part == "a")
	}
	for _, ro := range r.Table.Routes {
		if ro.Type == ref.TypeCapture {
			l.addCapture(ro.Key, ro.Filter)
		} else {
			l.addReal(ro)
		}
	}
	name := strings.Fields(r.Line)[0]
	fmt.Fprintf(rep.Out, "replay: table %s\nreplay: metric %q, expected %v\n", l.ref.String(), r.Line, describe(l.ref.Dispatch(name)))
	l.dispatch(name)
	for len(l.ref.Routes) > 0 {
		l.delLastRoute()
	}
	l.setAggs(nil, false)
	if rep.Infra != "" {
		fmt.Fprintf(rep.Out, "INFRA-ERROR property=C01 %s\n", rep.Infra)
		os.Exit(2)
	}
	if rep.Violations() > 0 {
		os.Exit(1)
	}
	fmt.Fprintf(rep.Out, "replay: observed exactly the expected outcome\nOK property=C01 replay\n")
	os.Exit(0)
}

func main() {
	rep = kit.New("C01", "exploration")
	log.SetLevel(log.PanicLevel)
	log.SetOutput(io.Discard)
	rep.Quiet() // Table.DelAggregator prints to stdout
	aggregator.InitMetrics()
	cIn = stats.Counter("unit=Metric.direction=in")
	cInvalid = stats.Counter("unit=Err.type=invalid")
	cBlack = stats.Counter("unit=Metric.direction=blacklist")
	cUnr = stats.Counter("unit=Metric.direction=unroutable")
	deadline = rep.Deadline(50*time.Second, 13*time.Minute)
	if rep.ReplayOnly != "" {
		replay(rep.ReplayOnly)
	}

	// quick: the space of DESIGN.md §4 C01 with <= 2 routes; thorough goes beyond the designed <= 3 routes
	maxRoutes, nRw := 2, 2
	if rep.Thorough() {
		maxRoutes, nRw = 4, 4
	}
	// cheapest and most local first: routes, then tables, then combinations
	doneB := partB("b", F, F, 3)
	doneB = doneB && !stop() && rep.Infra == "" && partB("b2", append([]ref.Filter{{}}, G...), G, 2)
	doneA := !stop() && rep.Infra == "" && partA(maxRoutes, rep.Thorough())
	doneC := !stop() && rep.Infra == "" && partC()

	rep.Assume = []string{
		"filter alphabet F = " + fmt.Sprint(F) + "; names " + strings.Join(names, " ") + "; every line is '<name> 1 1000' and passes validation (checked per dispatch: in +1, invalid +0)",
		fmt.Sprintf("part a: blacklists F^0..F^2 (ordered) x %d rewriter set-ups (none; a>b; thorough also [a>b,b>x] and [b>x,a>b]) x 13 aggregation set-ups (none; keep|drop x ^a|b$; both regexes in either order x keep|drop each) x ordered lists of 0..%d capture routes over F x 10 names, through the real Table.Dispatch on one long-lived table reconfigured with Add*/Del*", nRw, maxRoutes),
		"part b: {sendAllMatch, sendFirstMatch, consistentHashing} built by the real constructors x 6 route filters x ordered lists of 1..3 real destinations over F, on the refusing port 127.0.0.1:1 with spooling off; deliveries read from each destination's conn_down_no_spool counter after the exact barrier Destination.Flush; driven through Table.Dispatch",
		"part b2: the same with filters that combine options with overlapping literals, G = " + fmt.Sprint(G) + ": route filter from {none} + G x ordered lists of 1..2 destinations over G",
		"part c: 3 aggregation set-ups x 2 rewriters x 3 blacklists x every ordered pair of 5 real route shapes x 10 names",
		"aggregators: aggregator.NewMocked with a clock standing at 1000 and a tick channel that never fires; what an aggregator took is its numIn counter after harn.AggRest",
		"consistentHashing: exactly one destination per accepted metric and the same one on a repeated dispatch; which one is C15's subject. Where the destinations of a hashing route carry filters the statement is silent, only 'at most one' is demanded there",
		"a metric consumed by a drop-raw aggregation is expected at no route and not counted unroutable",
	}
	if cutShort != "" {
		rep.Assume = append(rep.Assume, cutShort)
	}
	rep.Finish(map[string]interface{}{
		"evaluations":         evals,
		"distinct_nontrivial": nontrivial,
		"tables":              tables,
		"per_part":            perPart,
		"rule":                "one evaluation = one metric dispatched through a real configured table and compared with the reference outcome (deliveries per route and destination, blacklist / unroutable counters, what each aggregation took). A table (configuration) is counted non-trivial when the reference demands at least two different outcomes among the 10 names, i.e. the configuration discriminates between the enumerated metrics",
		"samples":             samples,
		"exhaustive":          doneA && doneB && doneC,
	})
}
