// C02: only valid metrics are forwarded; every rejection is counted and
// reported. Engine E4 (bounded-exhaustive, free-running, uninstrumented).
//
// Every line of a token grammar (name tokens x value x timestamp x field count
// x separator style) is sent through the real Table.Dispatch of a long-lived
// real table per validation-level combination. The levels reach the table the
// way they do in production: written in a TOML document, decoded into
// cfg.Config (over cfg.NewConfig's defaults), converted by Config.TableConfig().
// Observed: a capture route, a real (mocked-clock) aggregator, the in/invalid
// counters and Table.Bad().Get(). Oracle: verif/mc/ref (ValJudgeLine), written
// from docs/validation.md, the example ini and the property statement.
package main

import (
	"bytes"
	"encoding/hex"
	"fmt"
	"io"
	"os"
	"runtime"
	"sort"
	"strings"
	"sync"
	"time"

	"github.com/BurntSushi/toml"
	"github.com/grafana/carbon-relay-ng/aggregator"
	"github.com/grafana/carbon-relay-ng/badmetrics"
	"github.com/grafana/carbon-relay-ng/cfg"
	"github.com/grafana/carbon-relay-ng/matcher"
	"github.com/grafana/carbon-relay-ng/rewriter"
	"github.com/grafana/carbon-relay-ng/stats"
	"github.com/grafana/carbon-relay-ng/table"
	log "github.com/sirupsen/logrus"

	"verif/mc/harn"
	"verif/mc/kit"
	"verif/mc/ref"
)

var rep *kit.Reporter

// ---------------------------------------------------------------------------
// the space

var tokens = []string{
	"a", ".", "..", ";", "=", "!", "_is_",
	"unit=B", "mtype=g", "unit_is_B", "mtype_is_g",
	"\x00", "\x80", "é",
	// compound tokens so that well-formed appendices and complete metrics2.0
	// names of both styles are reachable within four tokens
	";t=v", ".x=y", ".x_is_y", "Z9_-",
}

type nameT struct {
	b    []byte
	ntok int
}

// all distinct concatenations of 1..maxTok tokens, simplest first
func buildNames(maxTok int) []nameT {
	seen := map[string]bool{}
	var out []nameT
	level := []string{""}
	for n := 1; n <= maxTok; n++ {
		var next []string
		for _, p := range level {
			for _, t := range tokens {
				s := p + t
				next = append(next, s)
				if !seen[s] {
					seen[s] = true
					out = append(out, nameT{[]byte(s), n})
				}
			}
		}
		level = next
	}
	return out
}

var values = []string{"1", "1.5", "1e3", "0x1p-2", "+5", "NaN", "x", ""}
var timestamps = []string{"10", "1e3", "1.5", "-1", "x"}
var styles = []string{"single space", "double space", "tab", "leading space", "trailing space"}

type shape struct {
	n     int // number of fields written (a written empty value makes fewer real ones)
	style int
	val   string
	ts    string
	desc  string
}

func (s shape) line(name []byte) []byte {
	fields := [][]byte{name, []byte(s.val), []byte(s.ts), []byte("1")}[:s.n]
	sep := " "
	switch s.style {
	case 1:
		sep = "  "
	case 2:
		sep = "\t"
	}
	l := bytes.Join(fields, []byte(sep))
	if s.style == 3 {
		l = append([]byte(" "), l...)
	}
	if s.style == 4 {
		l = append(l, ' ')
	}
	return l
}

// all shapes, simplest first, without duplicates (same bytes around the name)
func buildShapes() []shape {
	var out []shape
	seen := map[string]bool{}
	add := func(s shape) {
		k := string(s.line([]byte{1}))
		if seen[k] {
			return
		}
		seen[k] = true
		s.desc = fmt.Sprintf("%q", strings.Replace(k, "\x01", "<name>", 1))
		out = append(out, s)
	}
	for st := range styles {
		for _, v := range values {
			for _, ts := range timestamps {
				add(shape{n: 3, style: st, val: v, ts: ts})
			}
		}
	}
	for st := range styles {
		for _, v := range values {
			add(shape{n: 2, style: st, val: v})
		}
	}
	for st := range styles {
		add(shape{n: 1, style: st})
	}
	for st := range styles {
		for _, v := range []string{"1", "x"} {
			for _, ts := range []string{"10", "x"} {
				add(shape{n: 4, style: st, val: v, ts: ts})
			}
		}
	}
	return out
}

// shapes used for the largest name class: a fully valid rest, a bad value, a missing field
func mainShapes(all []shape) []shape {
	var out []shape
	for _, s := range all {
		if s.style == 0 && ((s.n == 3 && s.ts == "10" && (s.val == "1" || s.val == "x")) || (s.n == 2 && s.val == "1")) {
			out = append(out, s)
		}
	}
	return out
}

// representative names for the evidence (see "probes")
var probeNames = []string{
	"a;t=v", "a.a;t=v", "a.a;t=v=v", "a.a;t=", "unit=B.mtype=g.x=y", ".unit=B.mtype=g.x=y", "unit=B.mtype=g.", "unit=B.mtype=g",
	"unit_is_B.mtype_is_g.x_is_y", "a.unit=B", "..a", ".", ".;t=v", "a!", "a\x00",
}

// lines without a name part
var fixedLines = []string{"", " ", "\t", "  ", "1 10", " 1 10", "1", ". 1 10", ".. 1 10", "a 1 10 ", "a\t1\t10", "a 1 10 1 1"}

// ---------------------------------------------------------------------------
// level combinations, as written in the configuration file

type combo struct {
	legacy, m20 string // as written; "" = option omitted
	lv          ref.ValLevels
	lvIdx       int
	full        bool

	t     *table.Table
	route *harn.Capture
	agg   *aggregator.Aggregator
	out   chan []byte
	tick  chan time.Time
	aggIn interface{ Count() int64 }

	gate     sync.Mutex
	gateHeld bool
	buf      []byte
}

func (c *combo) String() string {
	w := func(s string) string {
		if s == "" {
			return "(omitted)"
		}
		return s
	}
	return fmt.Sprintf("legacy=%s m20=%s", w(c.legacy), w(c.m20))
}

// what the documentation says a written level means (omitted = medium)
var legacyByName = map[string]ref.ValLegacy{"": ref.ValLegacyMedium, "none": ref.ValLegacyNone, "medium": ref.ValLegacyMedium, "strict": ref.ValLegacyStrict}
var m20ByName = map[string]ref.ValM20{"": ref.ValM20Medium, "none": ref.ValM20None, "medium": ref.ValM20Medium}

func lvIndex(lv ref.ValLevels) int { return int(lv.Legacy)*2 + int(lv.M20) }

func newCombo(legacy, m20 string, full bool) *combo {
	c := &combo{legacy: legacy, m20: m20, full: full}
	c.lv = ref.ValLevels{Legacy: legacyByName[legacy], M20: m20ByName[m20]}
	c.lvIdx = lvIndex(c.lv)
	return c
}

func (c *combo) toml() string {
	doc := "instance = \"default\"\nspool_dir = \"/tmp/verif-nospool\"\nbad_metrics_max_age = \"24h\"\n"
	if c.legacy != "" {
		doc += fmt.Sprintf("validation_level_legacy = %q\n", c.legacy)
	}
	if c.m20 != "" {
		doc += fmt.Sprintf("validation_level_m20 = %q\n", c.m20)
	}
	doc += "validate_order = false\n"
	return doc
}

var aggNow = time.Unix(5, 0)

func (c *combo) build(outCap int) {
	if c.t != nil {
		return
	}
	// exactly what cmd/carbon-relay-ng does
	config := cfg.NewConfig()
	if _, err := toml.Decode(c.toml(), &config); err != nil {
		rep.Infra = fmt.Sprintf("configuration %s does not decode: %v", c, err)
		rep.Finish(map[string]interface{}{})
	}
	tc, err := config.TableConfig()
	if err != nil {
		rep.Infra = fmt.Sprintf("TableConfig %s: %v", c, err)
		rep.Finish(map[string]interface{}{})
	}
	c.t = table.New(tc)
	c.route = harn.NewCapture("all", matcher.Matcher{})
	c.t.AddRoute(c.route)
	c.out = make(chan []byte, outCap)
	c.tick = make(chan time.Time)
	m := harn.MustMatcher("", "", "", "", "^(.*)$", "")
	a, err := aggregator.NewMocked("count", m, "$1", false, 1, 5, false, c.out, 2000, func() time.Time {
		// the aggregator's run loop parks here (first new bucket of a batch) while the harness holds the
		// gate: every later point of the batch stays in the aggregator's inbox until the harness has
		// overwritten the buffer it was dispatched from
		c.gate.Lock()
		c.gate.Unlock()
		return aggNow
	}, c.tick)
	if err != nil {
		panic(err)
	}
	c.agg = a
	c.t.AddAggregator(a)
	c.aggIn = stats.Counter("unit=Metric.direction=in.aggregator=" + a.Key)
}

// ---------------------------------------------------------------------------
// observation

var (
	cIn, cInvalid, cOOO, cBlack, cUnroutable interface{ Count() int64 }
)

type obs struct {
	dIn, dInvalid, dOther int64
	fwd                   []string
	panicked              interface{}
}

// rest releases the aggregator (see the gate in its clock) and waits until it is at rest.
func (c *combo) rest() {
	if c.gateHeld {
		c.gateHeld = false
		c.gate.Unlock()
	}
	harn.AggRest(c.agg)
}

func (c *combo) dispatch(line []byte) (o obs) {
	in0, inv0, oth0 := cIn.Count(), cInvalid.Count(), cOOO.Count()+cBlack.Count()+cUnroutable.Count()
	c.route.Lines = c.route.Lines[:0]
	c.route.Raw = c.route.Raw[:0]
	// like the plain-text input, hand over a buffer that is reused for the next line: it is
	// overwritten with the text of a line no validation level accepts as soon as Dispatch returns,
	// while the point may still be queued in the aggregator
	if !c.gateHeld {
		c.gate.Lock()
		c.gateHeld = true
	} else if c.agg.VerifInLen() > 1500 {
		c.rest()
		c.gate.Lock()
		c.gateHeld = true
	}
	if cap(c.buf) < len(line) {
		c.buf = make([]byte, len(line)+64)
	}
	buf := c.buf[:len(line)]
	copy(buf, line)
	func() {
		defer func() { o.panicked = recover() }()
		c.t.Dispatch(buf)
	}()
	for i := range buf {
		buf[i] = "\x00REJECTED!"[i%len("\x00REJECTED!")]
	}
	o.dIn, o.dInvalid = cIn.Count()-in0, cInvalid.Count()-inv0
	o.dOther = cOOO.Count() + cBlack.Count() + cUnroutable.Count() - oth0
	o.fwd = append([]string(nil), c.route.Lines...)
	return o
}

// exact barrier for the bad-metrics manager (a single goroutine): first its In
// channel is observed empty (the manager has taken every record handed over so
// far), then Get() makes a round trip that the same goroutine can only serve
// in a later loop iteration, i.e. after it stored the record it took last.
func badReport(b *badmetrics.BadMetrics) []badmetrics.Record {
	for b.VerifC02InLen() > 0 {
		runtime.Gosched()
	}
	return b.Get(24 * time.Hour) // sorted by Metric
}

func findRecord(recs []badmetrics.Record, key string) (badmetrics.Record, bool) {
	i := sort.Search(len(recs), func(i int) bool { return recs[i].Metric >= key })
	if i < len(recs) && recs[i].Metric == key {
		return recs[i], true
	}
	return badmetrics.Record{}, false
}

// ---------------------------------------------------------------------------
// bookkeeping

type replayT struct {
	Legacy  string `json:"validation_level_legacy"` // as written, "" = omitted
	M20     string `json:"validation_level_m20"`
	Line    string `json:"line_quoted"`
	LineHex string `json:"line_hex"`
}

var st struct {
	gateOrder                        int64 // lines through the tables with a catch-all blacklist (phase 4)
	evals                            int64
	claimedValid, claimedInvalid     int64
	openLines                        int64
	failures                         int64
	byReason                         map[string]int64
	samples                          []interface{}
	sampled                          map[string]bool
	openImplAgree, openImplDisagree  int64
	implDisagreeEx                   []string
	dispatchedName                   []bool
	singleStepped                    int64
	batches                          int64
	badRecordsChecked, aggOutChecked int64
}

const maxViolations = 30

func fail(kind string, c *combo, line []byte, what string) {
	st.failures++
	if rep.Violations() >= maxViolations {
		return
	}
	rep.Violation(fmt.Sprintf("%s %s line=%q", kind, c, line),
		fmt.Sprintf("[%s] line %q: %s", c, line, what),
		replayT{c.legacy, c.m20, fmt.Sprintf("%q", line), hex.EncodeToString(line)})
}

func sample(cat string, c *combo, line []byte, jl ref.ValLineVerdict, o obs) {
	if st.sampled[cat] || len(st.samples) >= 16 {
		return
	}
	st.sampled[cat] = true
	verdict := "open (readings of the documentation disagree)"
	if jl.Claimed {
		verdict = "valid"
		if !jl.Valid {
			verdict = "invalid: " + jl.Reason
		}
	}
	st.samples = append(st.samples, map[string]interface{}{
		"levels": c.String(), "line": fmt.Sprintf("%q", line), "oracle": verdict,
		"forwarded": len(o.fwd), "d_in": o.dIn, "d_invalid": o.dInvalid,
	})
}

// checkLine applies the per-line part of the oracle. It returns whether the
// line counts as rejected for the per-batch checks.
func checkLine(c *combo, line []byte, jl ref.ValLineVerdict, o obs) bool {
	st.evals++
	if o.panicked != nil {
		fail("panic", c, line, fmt.Sprintf("Table.Dispatch panicked: %v", o.panicked))
	}
	if o.dIn != 1 {
		fail("in-counter", c, line, fmt.Sprintf("unit=Metric.direction=in changed by %d, every received line must count exactly once", o.dIn))
	}
	if len(o.fwd) > 1 {
		fail("forwarded-twice", c, line, fmt.Sprintf("forwarded %d times to one route", len(o.fwd)))
	}
	forwarded := len(o.fwd) > 0
	rejected := !forwarded
	if jl.Claimed {
		rejected = !jl.Valid
		if jl.Valid {
			st.claimedValid++
			sample("valid", c, line, jl, o)
			if !forwarded {
				fail("dropped-valid", c, line, "valid at the configured levels but not forwarded to the route")
			}
		} else {
			st.claimedInvalid++
			st.byReason[jl.Reason]++
			sample("invalid: "+jl.Reason, c, line, jl, o)
			if forwarded {
				fail("forwarded-invalid", c, line, fmt.Sprintf("invalid (%s) but forwarded to the route as %q", jl.Reason, o.fwd[0]))
			}
		}
	} else {
		st.openLines++
		sample("open", c, line, jl, o)
	}
	want := int64(0)
	if rejected {
		want = 1
	}
	if o.dInvalid != want {
		fail("invalid-counter", c, line, fmt.Sprintf("unit=Err.type=invalid changed by %d, want %d (forwarded=%v)", o.dInvalid, want, forwarded))
	}
	if o.dOther != 0 {
		fail("other-counter", c, line, fmt.Sprintf("out_of_order+blacklist+unroutable changed by %d on a table with one catch-all route, no blacklist, no order validation", o.dOther))
	}
	if forwarded {
		got := ref.ValFields([]byte(o.fwd[0]))
		same := len(got) == len(jl.Fields)
		for i := 0; same && i < len(got); i++ {
			same = bytes.Equal(got[i], jl.Fields[i])
		}
		if !same {
			fail("route-content", c, line, fmt.Sprintf("forwarded as %q: not the fields of the line", o.fwd[0]))
		}
	}
	return rejected
}

func checkRecord(c *combo, recs []badmetrics.Record, key, text string, notBefore time.Time) {
	st.badRecordsChecked++
	r, ok := findRecord(recs, key)
	if !ok {
		// accept the unnormalised name as "its name" too
		if f := ref.ValFields([]byte(text)); len(f) == 3 {
			r, ok = findRecord(recs, string(f[0]))
		}
	}
	switch {
	case !ok:
		fail("bad-report-missing", c, []byte(text), fmt.Sprintf("rejected, but Table.Bad().Get() has no record under its name %q (%d records)", key, len(recs)))
	case r.LastMsg != text:
		fail("bad-report-text", c, []byte(text), fmt.Sprintf("rejected, but the record under %q carries %q instead of the rejected text", key, r.LastMsg))
	case r.LastErr == "":
		fail("bad-report-reason", c, []byte(text), fmt.Sprintf("record under %q has no reason", key))
	case r.LastSeen.Before(notBefore):
		fail("bad-report-stale", c, []byte(text), fmt.Sprintf("record under %q was stored before this line was dispatched", key))
	}
}

// drainAgg flushes the aggregator and returns name -> (number of output lines, all with count 1?)
func drainAgg(c *combo) (map[string]int, []string) {
	c.rest()
	c.tick <- time.Unix(1<<40, 0)
	c.rest()
	got := map[string]int{}
	var odd []string
	for len(c.out) > 0 {
		l := <-c.out
		// "<name> <count> <ts>" - names hold no space
		i := bytes.LastIndexByte(l, ' ')
		j := -1
		if i > 0 {
			j = bytes.LastIndexByte(l[:i], ' ')
		}
		if j < 0 {
			odd = append(odd, string(l))
			continue
		}
		if string(l[j+1:i]) != "1.000000" {
			odd = append(odd, string(l))
		}
		got[string(l[:j])]++
	}
	return got, odd
}

func sortedKeys(m map[string]int) []string {
	keys := make([]string, 0, len(m))
	for k := range m {
		keys = append(keys, k)
	}
	sort.Strings(keys)
	return keys
}

type item struct {
	line []byte
	jl   ref.ValLineVerdict
	note func(forwarded bool) // reporting hook, may be nil
}

// runBatch dispatches the items in order. The first `single` items are checked
// one by one with the full barriers; for the rest the aggregator and the
// bad-metrics report are read once at the end (the report keeps the last
// record per name, so the expectation is the last rejected text per name).
func runBatch(c *combo, items func(i int) (item, bool), single int) {
	st.batches++
	start := time.Now()
	aggWant := map[string]int{}
	aggLine := map[string][]byte{}
	badWant := map[string]string{}
	for i := 0; ; i++ {
		it, ok := items(i)
		if !ok {
			break
		}
		var agg0 int64
		if i < single {
			agg0 = c.aggIn.Count()
		}
		o := c.dispatch(it.line)
		rejected := checkLine(c, it.line, it.jl, o)
		if it.note != nil {
			it.note(len(o.fwd) > 0)
		}
		key := string(it.jl.Name)
		if rejected {
			badWant[key] = string(it.line)
		} else if len(it.jl.Fields) > 0 {
			aggWant[string(it.jl.Fields[0])]++
			aggLine[string(it.jl.Fields[0])] = it.line
		}
		if i < single {
			st.singleStepped++
			c.rest()
			d := c.aggIn.Count() - agg0
			if (d == 1) == rejected || d > 1 || d < 0 {
				fail("aggregator-step", c, it.line, fmt.Sprintf("aggregator took %d points for this line, rejected=%v", d, rejected))
			}
			if rejected {
				checkRecord(c, badReport(c.t.Bad()), key, string(it.line), start)
			}
		}
	}
	got, odd := drainAgg(c)
	for _, l := range odd {
		fail("aggregator-output", c, []byte(l), "aggregator emitted an unexpected line (every forwarded name is distinct within a batch, so each count must be 1)")
	}
	for _, n := range sortedKeys(aggWant) {
		st.aggOutChecked++
		if aggWant[n] != 1 {
			panic("harness: duplicate raw name within a batch: " + n)
		}
		if got[n] != 1 {
			fail("aggregator-missing", c, aggLine[n], fmt.Sprintf("line was to be forwarded to the aggregator, which emitted %d points for name %q", got[n], n))
		}
	}
	for _, n := range sortedKeys(got) {
		if aggWant[n] == 0 {
			fail("aggregator-extra", c, []byte(n), fmt.Sprintf("aggregator received a point for name %q although no line with that name was to be forwarded", n))
		}
	}
	if len(badWant) > 0 {
		recs := badReport(c.t.Bad())
		keys := make([]string, 0, len(badWant))
		for k := range badWant {
			keys = append(keys, k)
		}
		sort.Strings(keys)
		for _, k := range keys {
			checkRecord(c, recs, k, badWant[k], start)
		}
	}
}

// ---------------------------------------------------------------------------

// gateOrder: see phase 4 in main.
func gateOrder(c *combo, names []nameT, shapes []shape, verd [][6]ref.ValVerdict, orderOn bool, reconf bool) {
	config := cfg.NewConfig()
	doc := c.toml()
	if orderOn {
		doc = strings.Replace(doc, "validate_order = false", "validate_order = true", 1)
	}
	if _, err := toml.Decode(doc, &config); err != nil {
		panic(err)
	}
	tc, err := config.TableConfig()
	if err != nil {
		panic(err)
	}
	t := table.New(tc)
	if !orderOn && !reconf {
		all := matcher.Matcher{}
		t.AddBlacklist(&all)
	}
	route := harn.NewCapture("all", matcher.Matcher{})
	t.AddRoute(route)
	if reconf {
		// the table is changed at run time before the lines flow: one entry of every kind is added and
		// deleted again (admin commands / http api); the levels written in the file still apply
		t.AddRoute(harn.NewCapture("tmp", matcher.Matcher{}))
		bl := harn.MustMatcher("zz", "", "", "", "", "")
		t.AddBlacklist(&bl)
		rw, err := rewriter.New("zz", "zy", "", -1)
		if err != nil {
			panic(err)
		}
		t.AddRewriter(rw)
		ag, err := aggregator.NewMocked("count", harn.MustMatcher("", "", "", "", "^zz(.*)$", ""), "$1", false, 1, 5, false, make(chan []byte, 10), 10, func() time.Time { return aggNow }, make(chan time.Time))
		if err != nil {
			panic(err)
		}
		t.AddAggregator(ag)
		for _, e := range []error{t.DelAggregator(0), t.DelRewriter(0), t.DelBlacklist(0), t.DelRoute("tmp")} {
			if e != nil {
				panic("run-time delete failed: " + e.Error())
			}
		}
	}
	check := func(line []byte, jl ref.ValLineVerdict) {
		if reconf {
			in0, inv0, oth0 := cIn.Count(), cInvalid.Count(), cOOO.Count()+cBlack.Count()+cUnroutable.Count()
			n0 := len(route.Lines)
			var pan interface{}
			func() {
				defer func() { pan = recover() }()
				t.Dispatch(append([]byte(nil), line...))
			}()
			dIn, dInv, dOth := cIn.Count()-in0, cInvalid.Count()-inv0, cOOO.Count()+cBlack.Count()+cUnroutable.Count()-oth0
			fwd := int64(len(route.Lines) - n0)
			st.evals++
			st.gateOrder++
			switch {
			case pan != nil:
				fail("panic", c, line, fmt.Sprintf("Table.Dispatch panicked on a table changed at run time: %v", pan))
			case dIn != 1 || dOth != 0 || dInv+fwd != 1:
				fail("reconf-counters", c, line, fmt.Sprintf("table changed at run time (entries added and deleted again): in %+d invalid %+d forwarded %d other %+d; exactly one of invalid / forwarded must account for the line", dIn, dInv, fwd, dOth))
			case jl.Claimed && !jl.Valid && dInv != 1:
				fail("reconf-invalid-forwarded", c, line, fmt.Sprintf("invalid (%s) at the configured levels but forwarded after entries were added to and deleted from the table at run time", jl.Reason))
			case jl.Claimed && jl.Valid && dInv != 0:
				fail("reconf-valid-rejected", c, line, "valid at the configured levels but counted invalid after entries were added to and deleted from the table at run time: the levels of the configuration file no longer apply")
			}
			return
		}
		if orderOn {
			// order validation is a later, optional stage: a line that fails validation is counted invalid
			// (never out-of-order); a valid line is forwarded or, when its name was seen with this
			// timestamp before, counted out-of-order
			in0, inv0, ooo0, oth0 := cIn.Count(), cInvalid.Count(), cOOO.Count(), cBlack.Count()+cUnroutable.Count()
			n0 := len(route.Lines)
			var pan interface{}
			func() {
				defer func() { pan = recover() }()
				t.Dispatch(append([]byte(nil), line...))
			}()
			dIn, dInv, dOOO, dOth := cIn.Count()-in0, cInvalid.Count()-inv0, cOOO.Count()-ooo0, cBlack.Count()+cUnroutable.Count()-oth0
			fwd := int64(len(route.Lines) - n0)
			st.evals++
			st.gateOrder++
			switch {
			case pan != nil:
				fail("panic", c, line, fmt.Sprintf("Table.Dispatch panicked on a table with validate_order = true: %v", pan))
			case dIn != 1 || dOth != 0 || dInv+dOOO+fwd != 1:
				fail("order-counters", c, line, fmt.Sprintf("validate_order = true: in %+d invalid %+d out_of_order %+d forwarded %d other %+d; exactly one of invalid / out_of_order / forwarded must account for the line", dIn, dInv, dOOO, fwd, dOth))
			case jl.Claimed && !jl.Valid && dInv != 1:
				fail("invalid-counted-out-of-order", c, line, fmt.Sprintf("invalid (%s) but not counted invalid on a table with validate_order = true (out_of_order %+d, forwarded %d)", jl.Reason, dOOO, fwd))
			case jl.Claimed && jl.Valid && dInv != 0:
				fail("valid-counted-invalid", c, line, "valid at the configured levels but counted invalid on a table with validate_order = true")
			}
			return
		}
		in0, inv0, bl0, oth0 := cIn.Count(), cInvalid.Count(), cBlack.Count(), cOOO.Count()+cUnroutable.Count()
		n0 := len(route.Lines)
		var pan interface{}
		func() {
			defer func() { pan = recover() }()
			t.Dispatch(append([]byte(nil), line...))
		}()
		dIn, dInv, dBl, dOth := cIn.Count()-in0, cInvalid.Count()-inv0, cBlack.Count()-bl0, cOOO.Count()+cUnroutable.Count()-oth0
		st.evals++
		st.gateOrder++
		switch {
		case pan != nil:
			fail("panic", c, line, fmt.Sprintf("Table.Dispatch panicked on a table with a catch-all blacklist: %v", pan))
		case len(route.Lines) != n0:
			fail("blacklist-forwarded", c, line, "forwarded to a route although the blacklist matches every name")
		case dIn != 1 || dOth != 0 || dInv+dBl != 1:
			fail("gate-counters", c, line, fmt.Sprintf("table with a catch-all blacklist: in %+d invalid %+d blacklist %+d other %+d; exactly one of invalid/blacklist must count the line", dIn, dInv, dBl, dOth))
		case jl.Claimed && !jl.Valid && dInv != 1:
			fail("invalid-hidden-by-blacklist", c, line, fmt.Sprintf("invalid (%s) but counted as blacklisted instead of invalid: a rejected line must be counted and reported whatever the blacklist says", jl.Reason))
		case jl.Claimed && jl.Valid && dBl != 1:
			fail("valid-counted-invalid", c, line, "valid at the configured levels but counted invalid on a table with a catch-all blacklist")
		}
	}
	for _, sh := range shapes {
		for ni, n := range names {
			line := sh.line(n.b)
			jl := ref.ValJudgeLine(line, func(f []byte) ref.ValVerdict {
				if bytes.Equal(f, n.b) {
					return verd[ni][c.lvIdx]
				}
				return ref.ValJudgeName(f, c.lv)
			})
			check(line, jl)
		}
	}
	for _, l := range fixedLines {
		line := []byte(l)
		check(line, ref.ValJudgeLine(line, func(f []byte) ref.ValVerdict { return ref.ValJudgeName(f, c.lv) }))
	}
}

func main() {
	rep = kit.New("C02", "exploration")
	log.SetLevel(log.PanicLevel)
	log.SetOutput(io.Discard)
	rep.Quiet()
	aggregator.InitMetrics()
	cIn = stats.Counter("unit=Metric.direction=in")
	cInvalid = stats.Counter("unit=Err.type=invalid")
	cOOO = stats.Counter("unit=Err.type=out_of_order")
	cBlack = stats.Counter("unit=Metric.direction=blacklist")
	cUnroutable = stats.Counter("unit=Metric.direction=unroutable")
	st.byReason = map[string]int64{}
	st.sampled = map[string]bool{}

	if rep.ReplayOnly != "" {
		replay(rep.ReplayOnly)
		return
	}

	tokFull, tokMain := 2, 3
	if rep.Thorough() {
		tokFull, tokMain = 3, 4
	}
	deadline := rep.Deadline(50*time.Second, 13*time.Minute)

	names := buildNames(tokMain)
	nFull := 0
	for _, n := range names {
		if n.ntok <= tokFull {
			nFull++
		}
	}
	shapes := buildShapes()
	mshapes := mainShapes(shapes)
	st.dispatchedName = make([]bool, len(names))

	// the model's verdict for every name at every level pair (pure, parallel)
	verd := make([][6]ref.ValVerdict, len(names))
	{
		var wg sync.WaitGroup
		nw := runtime.NumCPU()
		for w := 0; w < nw; w++ {
			wg.Add(1)
			go func(w int) {
				defer wg.Done()
				for i := w; i < len(names); i += nw {
					for l := 0; l < 3; l++ {
						for m := 0; m < 2; m++ {
							lv := ref.ValLevels{Legacy: ref.ValLegacy(l), M20: ref.ValM20(m)}
							verd[i][lvIndex(lv)] = ref.ValJudgeName(names[i].b, lv)
						}
					}
				}
			}(w)
		}
		wg.Wait()
	}

	var combos []*combo
	for _, l := range []string{"none", "medium", "strict"} {
		for _, m := range []string{"none", "medium"} {
			combos = append(combos, newCombo(l, m, true))
		}
	}
	combos = append(combos, newCombo("", "", true)) // both options omitted: the defaults
	combos = append(combos, newCombo("", "none", false), newCombo("strict", "", false))
	for _, c := range combos {
		c.build(len(names) + 64)
	}

	exhaustive := true
	stopped := ""
	judge := func(c *combo, ni int, line []byte) ref.ValLineVerdict {
		return ref.ValJudgeLine(line, func(f []byte) ref.ValVerdict {
			if bytes.Equal(f, names[ni].b) {
				return verd[ni][c.lvIdx]
			}
			return ref.ValJudgeName(f, c.lv)
		})
	}
	// code verdict on the open class vs the implementation-like reading (reporting only)
	noteOpen := func(c *combo, ni int, forwarded bool) {
		v := verd[ni][c.lvIdx]
		if v.Claimed {
			return
		}
		if v.ImplLike == forwarded {
			st.openImplAgree++
		} else {
			st.openImplDisagree++
			if len(st.implDisagreeEx) < 8 {
				st.implDisagreeEx = append(st.implDisagreeEx, fmt.Sprintf("[%s] %q forwarded=%v", c, names[ni].b, forwarded))
			}
		}
	}

	// Phase 1: every shape x every level combination x the names up to tokFull tokens
	const single = 3
phases:
	for si, sh := range shapes {
		for _, c := range combos {
			if !c.full && !(sh.style == 0 && sh.n == 3 && sh.val == "1" && sh.ts == "10") {
				continue
			}
			if time.Now().After(deadline) {
				exhaustive = false
				stopped = fmt.Sprintf("deadline reached in phase 1 before shape %d/%d (%s) at %s; all earlier shapes are complete for every level combination", si+1, len(shapes), sh.desc, c)
				break phases
			}
			sh, c := sh, c
			isMain := si == 0
			runBatch(c, func(i int) (item, bool) {
				if i >= nFull {
					return item{}, false
				}
				line := sh.line(names[i].b)
				it := item{line: line, jl: judge(c, i, line)}
				if isMain {
					st.dispatchedName[i] = true
					it.note = func(f bool) { noteOpen(c, i, f) }
				}
				return it, true
			}, single)
		}
	}
	// Phase 2: the names with more tokens, main shapes only
	if exhaustive {
	phase2:
		for si, sh := range mshapes {
			for _, c := range combos {
				if time.Now().After(deadline) {
					exhaustive = false
					stopped = fmt.Sprintf("deadline reached in phase 2 (names of %d tokens) before main shape %d/%d at %s; phase 1 is complete", tokMain, si+1, len(mshapes), c)
					break phase2
				}
				sh, c := sh, c
				isMain := sh.n == 3 && sh.val == "1"
				runBatch(c, func(i int) (item, bool) {
					ni := nFull + i
					if ni >= len(names) {
						return item{}, false
					}
					line := sh.line(names[ni].b)
					it := item{line: line, jl: judge(c, ni, line)}
					if isMain {
						st.dispatchedName[ni] = true
						it.note = func(f bool) { noteOpen(c, ni, f) }
					}
					return it, true
				}, single)
			}
		}
	}
	// Phase 3: lines without a name part, one by one
	if exhaustive {
		for _, c := range combos {
			for _, l := range fixedLines {
				line := []byte(l)
				jl := ref.ValJudgeLine(line, func(f []byte) ref.ValVerdict { return ref.ValJudgeName(f, c.lv) })
				runBatch(c, func(i int) (item, bool) { return item{line: line, jl: jl}, i == 0 }, 1)
			}
		}
	}
	// Phase 4: validation comes before every other stage. A second table per level combination whose
	// blacklist matches every name: a rejected line is still counted invalid (not blacklisted) and
	// reported; a valid line is blacklisted, not counted invalid, and reaches no route. Main shapes x
	// the names up to tokFull tokens, plus the lines without a name part.
	if exhaustive {
		for _, c := range combos[:6] {
			gateOrder(c, names[:nFull], mshapes, verd, false, false)
			gateOrder(c, names[:nFull], mshapes, verd, true, false)
			gateOrder(c, names[:nFull], mshapes, verd, false, true)
		}
	}
	// Probes: what the relay does with representative names of the open
	// class and its neighbours (fully checked like every other line; the
	// outcome is recorded in the evidence so that the observations are measured)
	var probes []interface{}
	if exhaustive {
		for _, c := range combos[:6] {
			if c.lv.Legacy == ref.ValLegacyNone {
				continue
			}
			for _, p := range probeNames {
				line := []byte(p + " 1 10")
				jl := ref.ValJudgeLine(line, func(f []byte) ref.ValVerdict { return ref.ValJudgeName(f, c.lv) })
				fwd := false
				runBatch(c, func(i int) (item, bool) {
					return item{line: line, jl: jl, note: func(f bool) { fwd = f }}, i == 0
				}, 1)
				model := "open"
				if jl.Claimed {
					model = "valid"
					if !jl.Valid {
						model = "invalid: " + jl.Reason
					}
				}
				pr := map[string]interface{}{"levels": c.String(), "line": fmt.Sprintf("%q", line), "model": model, "relay_forwarded": fwd}
				if !fwd {
					if r, ok := findRecord(badReport(c.t.Bad()), string(jl.Name)); ok && r.LastMsg == string(line) {
						pr["relay_reason"] = r.LastErr
						pr["reported_under"] = r.Metric
					}
				}
				probes = append(probes, pr)
			}
		}
	}

	for _, c := range combos {
		c.agg.Shutdown()
	}

	// coverage
	distinct, levelSensitive, everOpen := 0, 0, 0
	openByDim := make([]int64, len(ref.ValDims))
	openEx := make([][]string, len(ref.ValDims))
	var openPairs, claimedPairs int64
	for ni := range names {
		if !st.dispatchedName[ni] {
			continue
		}
		distinct++
		sens, open := false, false
		var firstClaimed *ref.ValVerdict
		for l := 0; l < 6; l++ {
			v := verd[ni][l]
			if !v.Claimed {
				open = true
				openPairs++
				for d := range ref.ValDims {
					if v.Open&(1<<uint(d)) != 0 {
						openByDim[d]++
						if len(openEx[d]) < 6 {
							lv := ref.ValLevels{Legacy: ref.ValLegacy(l / 2), M20: ref.ValM20(l % 2)}
							openEx[d] = append(openEx[d], fmt.Sprintf("%q at legacy=%s m20=%s", names[ni].b, lv.Legacy, lv.M20))
						}
					}
				}
				continue
			}
			claimedPairs++
			if firstClaimed == nil {
				vv := v
				firstClaimed = &vv
			} else if firstClaimed.Valid != v.Valid {
				sens = true
			}
		}
		if sens {
			levelSensitive++
		}
		if open {
			everOpen++
		}
	}
	var openClasses []interface{}
	for d, name := range ref.ValDims {
		openClasses = append(openClasses, map[string]interface{}{"open_point": name, "name_level_pairs": openByDim[d], "examples": openEx[d]})
	}
	reasons := map[string]int64{}
	for k, v := range st.byReason {
		reasons[k] = v
	}
	rep.Assume = []string{
		fmt.Sprintf("name alphabet: concatenations of up to %d of the %d tokens %q with every line shape, up to %d tokens with the %d main shapes", tokFull, len(tokens), tokens, tokMain, len(mshapes)),
		fmt.Sprintf("line shapes: 1-4 fields, separator styles %q, value in %q, timestamp in %q (4-field lines: value in {1,x}, timestamp in {10,x}, extra field 1); %d distinct shapes; plus %d lines without a name", styles, values, timestamps, len(shapes), len(fixedLines)),
		"levels as written in a TOML document decoded over cfg.NewConfig() and converted by Config.TableConfig(): legacy in {none, medium, strict} x m20 in {none, medium}, both options omitted (documented default medium/medium), and one option omitted at a time (main shape only)",
		"the verdict is claimed only where every reading of the documentation agrees (5 open points, 48 readings, see coverage.open_points); on the remaining lines the check demands consistency only: forwarded to route and aggregator, xor counted invalid once and reported",
		"numeric = plain decimal notation accepted by strconv.ParseFloat; hexadecimal floats and NaN are left open; no-break space and other non-ASCII whitespace are outside the alphabet",
		"barriers: route capture is synchronous; aggregator: inbox observed empty + Snapshot round trip, then a tick that flushes everything; bad metrics: In observed empty + Get round trip. The first 3 lines of every batch are checked one by one, the others against the last rejected text per name at the end of the batch",
	}
	rep.Finish(map[string]interface{}{
		"evaluations":                   st.evals,
		"lines_with_catchall_blacklist": st.gateOrder,
		"distinct_nontrivial":           levelSensitive,
		"rule":                          "evaluation = one line through Table.Dispatch of the table configured from the TOML document, compared with the reference model (forwarded to route and aggregator, in/invalid counter deltas, bad-metrics record). distinct_nontrivial = distinct names whose claimed verdict differs between at least two of the six level combinations (the names that tell the levels apart); measured over the names dispatched",
		"samples":                       st.samples,
		"exhaustive":                    exhaustive,
		"stopped":                       stopped,
		"names":                         distinct,
		"names_every_shape":             nFull,
		"shapes":                        len(shapes),
		"level_combinations":            len(combos),
		"lines_claimed_valid":           st.claimedValid, "lines_claimed_invalid": st.claimedInvalid, "lines_open": st.openLines,
		"invalid_by_reason":         reasons,
		"name_level_pairs":          map[string]int64{"claimed": claimedPairs, "open": openPairs},
		"names_open_somewhere":      everOpen,
		"open_points":               openClasses,
		"batches":                   st.batches,
		"lines_checked_stepwise":    st.singleStepped,
		"bad_records_checked":       st.badRecordsChecked,
		"aggregator_points_checked": st.aggOutChecked,
		"oracle_failures":           st.failures,
		"probes":                    probes,
		"observations": []string{
			"grammar choice: which grammar applies is decided by a third-party detector that looks for '=' / '_is_' only up to the first '.' of the name as received; docs/validation.md says 'if the key contains = or _is_'. Both readings are in the model; names on which they differ are open (not claimed). A consequence both readings share: a tagged name without a dot in front of its first '=' ('a;t=v') is metrics2.0, so the tag-appendix grammar is only ever applied to names whose first node has no marker (coverage.probes shows what the relay does with each).",
			fmt.Sprintf("on the %d open (name, level combination) pairs dispatched in the main shape the relay agreed with the implementation-like reading (first node only, leading dot removed before validation, no '=' in tag values, three dot-separated nodes) %d times and disagreed %d times %v", st.openImplAgree+st.openImplDisagree, st.openImplAgree, st.openImplDisagree, st.implDisagreeEx),
			"one leading dot is removed before the name is validated and reported (third-party ValidatePacket), but the line is forwarded with the dot; the documentation does not mention it. Both readings are in the model ('..a' at strict, '.', '.;t=v' are open); rejected lines are looked up under the name without the dot, the name as received is accepted too.",
			"docs/validation.md says metrics2.0 medium needs 'at least two tags'; the ini comment says 'unit and mtype tag, presence of another tag'; both (and 'a third node') are readings of the model, so 'unit=B.mtype=g' and 'unit=B.mtype=g.' are open.",
			"docs/validation.md names the option 'legacy_metric_validation'; the option that is read is 'validation_level_legacy' (examples/carbon-relay-ng.ini).",
			"lines with a field count other than three are all reported under the empty name, so only the last of them is visible in the report (checked: the last one is there).",
		},
	})
}

func replay(path string) {
	var r replayT
	if err := kit.LoadReplay(path, &r); err != nil {
		rep.Infra = err.Error()
		rep.Finish(map[string]interface{}{})
	}
	line, err := hex.DecodeString(r.LineHex)
	if err != nil {
		rep.Infra = err.Error()
		rep.Finish(map[string]interface{}{})
	}
	c := newCombo(r.Legacy, r.M20, true)
	c.build(64)
	jl := ref.ValJudgeLine(line, func(f []byte) ref.ValVerdict { return ref.ValJudgeName(f, c.lv) })
	fmt.Fprintf(rep.Out, "replay: configuration\n%s", c.toml())
	fmt.Fprintf(rep.Out, "replay: line %q\nreplay: model: claimed=%v valid=%v reason=%q parsed name %q\n", line, jl.Claimed, jl.Valid, jl.Reason, jl.Name)
	agg0 := c.aggIn.Count()
	o := c.dispatch(line)
	c.rest()
	recs := badReport(c.t.Bad())
	fmt.Fprintf(rep.Out, "replay: observed: forwarded to route %q, aggregator points %d, d(in)=%d d(invalid)=%d, bad-metrics records %+v\n", o.fwd, c.aggIn.Count()-agg0, o.dIn, o.dInvalid, recs)
	runBatch(c, func(i int) (item, bool) { return item{line: line, jl: jl}, i == 0 }, 1)
	// a replay does not touch the evidence file
	if rep.Violations() > 0 {
		fmt.Fprintf(rep.Out, "FAIL property=C02 replay reproduces %d oracle failure(s)\n", rep.Violations())
		os.Exit(1)
	}
	fmt.Fprintf(rep.Out, "OK property=C02 replay: no oracle failure on this line\n")
	os.Exit(0)
}
