// C03: filters mean exactly the documented conjunction, evaluated on the
// metric name, at every place a filter is used. Engine E4: bounded-exhaustive
// enumeration of regex strings x names x option combinations against an
// independent reference (package ref), on the real matcher, and on the real
// table / routes / destinations / aggregators for the four use sites; plus all
// histories <= 5 of lookups/ticks/expiry for the aggregation match cache.
package main

import (
	"fmt"
	"io"
	"regexp"
	"runtime"
	"sort"
	"strings"
	"sync"
	"time"

	"github.com/grafana/carbon-relay-ng/aggregator"
	"github.com/grafana/carbon-relay-ng/destination"
	"github.com/grafana/carbon-relay-ng/matcher"
	"github.com/grafana/carbon-relay-ng/route"
	"github.com/grafana/carbon-relay-ng/table"
	"github.com/grafana/carbon-relay-ng/validate"
	m20 "github.com/metrics20/go-metrics20/carbon20"
	log "github.com/sirupsen/logrus"

	"verif/mc/harn"
	"verif/mc/kit"
	"verif/mc/ref"
)

var rep *kit.Reporter

type counters struct {
	mu          sync.Mutex
	evals       int64
	nontrivial  map[string]bool
	samples     []interface{}
	sampleEvery int64
}

var cnt = &counters{nontrivial: map[string]bool{}}

func (c *counters) add(n int64) {
	c.mu.Lock()
	c.evals += n
	c.mu.Unlock()
}

func (c *counters) nt(key string) {
	c.mu.Lock()
	if len(c.nontrivial) < 2000000 {
		c.nontrivial[key] = true
	}
	c.mu.Unlock()
}

func (c *counters) sample(s interface{}) {
	c.mu.Lock()
	if len(c.samples) < 12 {
		c.samples = append(c.samples, s)
	}
	c.mu.Unlock()
}

func names(maxLen int) [][]byte {
	alpha := []byte{'a', 'b', '.'}
	var out [][]byte
	var rec func(cur []byte)
	rec = func(cur []byte) {
		if len(cur) > 0 {
			out = append(out, append([]byte(nil), cur...))
		}
		if len(cur) == maxLen {
			return
		}
		for _, c := range alpha {
			rec(append(cur, c))
		}
	}
	rec(nil)
	sort.Slice(out, func(i, j int) bool {
		if len(out[i]) != len(out[j]) {
			return len(out[i]) < len(out[j])
		}
		return string(out[i]) < string(out[j])
	})
	return out
}

// ---------------------------------------------------------------------------
// Part A: the matcher itself

var tokens = []string{"a", "b", ".", `\.`, "^", "$", "|", "?", "*", "+", "(", ")", "(?i)", "(?i:"}

func regexes(maxTok int, onlyAnchored bool) []string {
	seen := map[string]bool{}
	var out []string
	var rec func(cur string, n int)
	rec = func(cur string, n int) {
		if n > 0 && !seen[cur] {
			seen[cur] = true
			if !onlyAnchored || strings.HasPrefix(cur, "^") {
				if _, err := regexp.Compile(cur); err == nil {
					out = append(out, cur)
				}
			}
		}
		if n == maxTok {
			return
		}
		for _, t := range tokens {
			rec(cur+t, n+1)
		}
	}
	rec("", 0)
	sort.Slice(out, func(i, j int) bool {
		if len(out[i]) != len(out[j]) {
			return len(out[i]) < len(out[j])
		}
		return out[i] < out[j]
	})
	return out
}

// regexesOnNames: every regex of rs as regex and as notRegex on every name of ns, against package regexp.
func regexesOnNames(part string, rs []string, ns [][]byte) {
	type bad struct {
		idx  int
		kind string
		re   string
		name string
		got  bool
	}
	var mu sync.Mutex
	var bads []bad
	var wg sync.WaitGroup
	nw := runtime.NumCPU()
	for w := 0; w < nw; w++ {
		wg.Add(1)
		go func(w int) {
			defer wg.Done()
			var local int64
			for i := w; i < len(rs); i += nw {
				r := rs[i]
				re := regexp.MustCompile(r)
				m1, err1 := matcher.New("", "", "", "", r, "")
				m2, err2 := matcher.New("", "", "", "", "", r)
				if err1 != nil || err2 != nil {
					mu.Lock()
					bads = append(bads, bad{i, "compile", r, fmt.Sprint(err1, err2), false})
					mu.Unlock()
					continue
				}
				sawT, sawF := false, false
				f1, f2 := false, false
				for _, n := range ns {
					want := re.Match(n)
					if want {
						sawT = true
					} else {
						sawF = true
					}
					local += 2
					if got := m1.Match(n); got != want && !f1 {
						f1 = true
						mu.Lock()
						bads = append(bads, bad{i, "regex", r, string(n), got})
						mu.Unlock()
					}
					if got := m2.Match(n); got != !want && !f2 {
						f2 = true
						mu.Lock()
						bads = append(bads, bad{i, "notRegex", r, string(n), got})
						mu.Unlock()
					}
				}
				if sawT && sawF {
					cnt.nt(part + ":" + r)
				}
			}
			cnt.add(local)
		}(w)
	}
	wg.Wait()
	sort.Slice(bads, func(i, j int) bool {
		if bads[i].idx != bads[j].idx {
			return bads[i].idx < bads[j].idx
		}
		return bads[i].kind < bads[j].kind
	})
	for i, b := range bads {
		if i >= 40 {
			break
		}
		f := ref.Filter{Regex: b.re}
		if b.kind == "notRegex" {
			f = ref.Filter{NotRegex: b.re}
		}
		rep.Violation(fmt.Sprintf("matcher %s=%s", b.kind, b.re),
			fmt.Sprintf("matcher.New(%s).Match(%q) = %v, documented conjunction says %v", f, b.name, b.got, !b.got),
			map[string]interface{}{"part": part, "filter": f, "name": b.name})
	}
	cnt.sample(map[string]interface{}{"part": part, "regexes": len(rs), "names": len(ns), "first": rs[:min(8, len(rs))], "last": rs[len(rs)-1]})

}

// partA8: names that are not valid UTF-8 (validation level none lets any byte through) and the
// regex atoms that can meet them: package regexp reads an invalid byte as U+FFFD, so a literal
// U+FFFD in the regex matches it, and no byte-wise shortcut may disagree.
func partA8(maxTok int) {
	saveT := tokens
	tokens = []string{"a", `\x{FFFD}`, "\uFFFD", ".", "^", "$", "?", "(?i)"}
	rs := regexes(maxTok, false)
	tokens = saveT
	alpha := [][]byte{{'a'}, {0xff}, []byte("\uFFFD"), {0xc3}}
	var ns [][]byte
	var rec func(cur []byte, n int)
	rec = func(cur []byte, n int) {
		if n > 0 {
			ns = append(ns, append([]byte(nil), cur...))
		}
		if n == 3 {
			return
		}
		for _, c := range alpha {
			rec(append(append([]byte(nil), cur...), c...), n+1)
		}
	}
	rec(nil, 0)
	regexesOnNames("A8", rs, ns)
}

func partA(maxTok int, anchoredExtra int) {
	ns := names(5)
	rs := regexes(maxTok, false)
	if anchoredExtra > maxTok {
		have := map[string]bool{}
		for _, r := range rs {
			have[r] = true
		}
		for _, r := range regexes(anchoredExtra, true) {
			if !have[r] {
				rs = append(rs, r)
			}
		}
	}
	regexesOnNames("A", rs, ns)

	// all presence combinations of the six options, three values each
	vals := [6][]string{{"", "a", "b."}, {"", "b", "a."}, {"", "a.", "bb"}, {"", "bb", ".a"}, {"", "^a", "b$"}, {"", "^b", `a\.*b`}}
	var local int64
	var idx [6]int
	for {
		f := ref.Filter{Prefix: vals[0][idx[0]], NotPrefix: vals[1][idx[1]], Sub: vals[2][idx[2]], NotSub: vals[3][idx[3]], Regex: vals[4][idx[4]], NotRegex: vals[5][idx[5]]}
		c, _ := f.Compile()
		m, err := matcher.New(f.Prefix, f.NotPrefix, f.Sub, f.NotSub, f.Regex, f.NotRegex)
		if err != nil {
			rep.Violation("matcher compile "+f.String(), err.Error(), f)
		} else {
			sawT, sawF := false, false
			for _, n := range ns {
				want := c.Match(n)
				local++
				if want {
					sawT = true
				} else {
					sawF = true
				}
				if got := m.Match(n); got != want {
					rep.Violation("matcher combo "+f.String(), fmt.Sprintf("matcher.New(%s).Match(%q) = %v, documented conjunction says %v", f, n, got, want),
						map[string]interface{}{"part": "A", "filter": f, "name": string(n)})
					break
				}
			}
			if sawT && sawF {
				cnt.nt("Acombo:" + f.String())
			}
		}
		k := 0
		for k < 6 {
			idx[k]++
			if idx[k] < len(vals[k]) {
				break
			}
			idx[k] = 0
			k++
		}
		if k == 6 {
			break
		}
	}
	cnt.add(local)
}

func min(a, b int) int {
	if a < b {
		return a
	}
	return b
}

// ---------------------------------------------------------------------------
// Part B: the four use sites, on real objects

var siteFilters = []ref.Filter{
	{},
	{Prefix: "a"},
	{NotPrefix: "a"},
	{Sub: "b"},
	{NotSub: "b"},
	{Regex: "^a"},
	{Regex: "b$"},
	{Regex: "^ab?c"},
	{Regex: "^a|b"},
	{NotRegex: "b$"},
	{NotRegex: `^a\.*b`},
	{NotRegex: "^b|c"},
	// these collide with the value ("1") and timestamp ("2") text of the line
	{Sub: "1"},
	{NotSub: "2"},
	{Regex: "2$"},
	{NotRegex: "[0-9]$"},
	{Sub: " "},
	{Prefix: "a", NotSub: "c", Regex: "b", NotRegex: "^b"},
}

var siteNames = []string{"a", "b", "ab", "a.b", "ac", "abc", "c", "b.c"}

func newTable() *table.Table {
	cfg, err := table.NewTableConfig("/tmp/verif-nospool", "1h", validate.LevelLegacy{Level: m20.MediumLegacy}, validate.LevelM20{Level: m20.MediumM20}, false)
	if err != nil {
		panic(err)
	}
	return table.New(cfg)
}

func mk(f ref.Filter) matcher.Matcher {
	m, err := matcher.New(f.Prefix, f.NotPrefix, f.Sub, f.NotSub, f.Regex, f.NotRegex)
	if err != nil {
		panic(err)
	}
	return m
}

const refused = "127.0.0.1:1"

func newDest(routeKey string, f ref.Filter) *destination.Destination {
	d, err := destination.New(routeKey, mk(f), refused, "/tmp/verif-nospool", false, false, time.Second, time.Hour, 10, 1000, 10, 1000, 1000, time.Second, 0, 0)
	if err != nil {
		panic(err)
	}
	return d
}

func destDrops(d *destination.Destination) int64 {
	return harn.Count("dest=" + d.Key + ".unit=Metric.action=drop.reason=conn_down_no_spool")
}

func siteViolation(site string, f ref.Filter, name, line, what string) {
	rep.Violation(fmt.Sprintf("site %s filter %s name %s", site, f, name),
		fmt.Sprintf("%s with filter {%s}: line %q: %s", site, f, line, what),
		map[string]interface{}{"part": "B", "site": site, "filter": f, "line": line})
}

func partB() {
	t := newTable()
	all := harn.NewCapture("all", matcher.Matcher{})
	rcount := 0
	for _, f := range siteFilters {
		c, _ := f.Compile()
		// 1. blacklist entry
		t.AddRoute(all)
		t.AddBlacklist(func() *matcher.Matcher { m := mk(f); return &m }())
		for _, n := range siteNames {
			line := n + " 1 2"
			want := c.Match([]byte(n))
			b0 := harn.Count("unit=Metric.direction=blacklist")
			l0 := len(all.Lines)
			t.Dispatch([]byte(line))
			black := harn.Count("unit=Metric.direction=blacklist")-b0 == 1
			fwd := len(all.Lines) > l0
			cnt.add(1)
			cnt.nt("B1:" + f.String() + fmt.Sprint(want))
			if black != want || fwd == want {
				siteViolation("blacklist", f, n, line, fmt.Sprintf("blacklisted=%v forwarded=%v, filter on the name says blacklisted=%v", black, fwd, want))
			}
		}
		t.DelBlacklist(0)
		t.DelRoute("all")

		// 2./3. real routes: filter on the route, and on the destination
		for _, typ := range []string{"sendAllMatch", "sendFirstMatch"} {
			for _, where := range []string{"route", "destination"} {
				rcount++
				key := fmt.Sprintf("r%d", rcount)
				rf, df := ref.Filter{}, ref.Filter{}
				if where == "route" {
					rf = f
				} else {
					df = f
				}
				d := newDest(key, df)
				var r route.Route
				if typ == "sendAllMatch" {
					r, _ = route.NewSendAllMatch(key, mk(rf), []*destination.Destination{d})
				} else {
					r, _ = route.NewSendFirstMatch(key, mk(rf), []*destination.Destination{d})
				}
				t.AddRoute(r)
				for _, n := range siteNames {
					line := n + " 1 2"
					want := c.Match([]byte(n))
					d0 := destDrops(d)
					u0 := harn.Count("unit=Metric.direction=unroutable")
					t.Dispatch([]byte(line))
					d.Flush()
					got := destDrops(d)-d0 == 1
					unr := harn.Count("unit=Metric.direction=unroutable")-u0 == 1
					cnt.add(1)
					cnt.nt("B2:" + typ + where + f.String() + fmt.Sprint(want))
					if got != want {
						siteViolation(typ+" "+where, f, n, line, fmt.Sprintf("delivered=%v, filter on the name says %v", got, want))
					}
					if where == "route" && unr == want {
						siteViolation(typ+" "+where, f, n, line, fmt.Sprintf("unroutable=%v although route match should be %v", unr, want))
					}
					// 5. aggregate routing: the same line shape arrives from an aggregator
					agg := n + " 1.000000 2"
					d0 = destDrops(d)
					t.DispatchAggregate([]byte(agg))
					d.Flush()
					got = destDrops(d)-d0 == 1
					cnt.add(1)
					if got != want {
						siteViolation("aggregate-routing "+typ+" "+where, f, n, agg, fmt.Sprintf("delivered=%v, filter on the name says %v", got, want))
					}
				}
				t.DelRoute(key)
			}
		}

		// 4. aggregation filter (an aggregation needs a regex: add a catch-all when the filter has none)
		af := f
		if af.Regex == "" {
			af.Regex = ".*"
		}
		ac, _ := af.Compile()
		for _, drop := range []bool{false, true} {
			out := make(chan []byte, 100)
			now := time.Unix(1000, 0)
			tick := make(chan time.Time)
			a, err := aggregator.NewMocked("count", mk(af), "out", false, 10, 5, drop, out, 100, func() time.Time { return now }, tick)
			if err != nil {
				panic(err)
			}
			t.AddAggregator(a)
			t.AddRoute(all)
			for _, n := range siteNames {
				line := n + " 1 1000"
				want := ac.Match([]byte(n))
				l0 := len(all.Lines)
				t.Dispatch([]byte(line))
				harn.AggRest(a)
				now = time.Unix(1020, 0)
				tick <- now
				harn.AggRest(a)
				now = time.Unix(1000, 0)
				got := false
				for len(out) > 0 {
					o := string(<-out)
					if strings.HasPrefix(o, "out 1.000000 ") {
						got = true
					}
				}
				raw := len(all.Lines) > l0
				cnt.add(1)
				cnt.nt("B4:" + af.String() + fmt.Sprint(want, drop))
				if got != want {
					siteViolation("aggregation", af, n, line, fmt.Sprintf("aggregated=%v, complete filter on the name says %v", got, want))
				}
				if drop && raw == want {
					siteViolation("aggregation dropRaw", af, n, line, fmt.Sprintf("raw metric forwarded=%v although the aggregation's complete filter match is %v", raw, want))
				}
				if !drop && !raw {
					siteViolation("aggregation", af, n, line, "raw metric not forwarded by a non-dropRaw aggregation")
				}
			}
			t.DelAggregator(0)
			t.DelRoute("all")
		}
	}
	partBUpdates(t)
	cnt.sample(map[string]interface{}{"part": "B", "filters": len(siteFilters), "names": siteNames, "sites": []string{"blacklist", "route", "destination", "aggregation", "aggregate-routing"}})
}

// partBUpdates: a filter changed at run time (modRoute / modDest: only the named options change, the
// others keep their value) must mean the merged filter. Every single-option update of every start
// filter, on a route and on a destination, judged on all names.
func partBUpdates(t *table.Table) {
	starts := []ref.Filter{
		{},
		{Sub: "b"},
		{NotSub: "c"},
		{Prefix: "a", NotPrefix: "ac", Sub: "b", NotSub: "c", Regex: "b", NotRegex: "^b"},
		{Prefix: "b", NotPrefix: "b.", Sub: "c", NotSub: "a", Regex: "c$", NotRegex: "^a"},
	}
	plain := []string{"", "a", "b", "c"}
	rex := []string{"", "^a", "b$", "c"}
	opts := []struct {
		name string
		vals []string
		set  func(f *ref.Filter, v string)
	}{
		{"prefix", plain, func(f *ref.Filter, v string) { f.Prefix = v }},
		{"notPrefix", plain, func(f *ref.Filter, v string) { f.NotPrefix = v }},
		{"sub", plain, func(f *ref.Filter, v string) { f.Sub = v }},
		{"notSub", plain, func(f *ref.Filter, v string) { f.NotSub = v }},
		{"regex", rex, func(f *ref.Filter, v string) { f.Regex = v }},
		{"notRegex", rex, func(f *ref.Filter, v string) { f.NotRegex = v }},
	}
	n := 0
	for _, st := range starts {
		for _, where := range []string{"route", "destination"} {
			for _, o := range opts {
				for _, v := range o.vals {
					n++
					key := fmt.Sprintf("u%d", n)
					rf, df := ref.Filter{}, ref.Filter{}
					if where == "route" {
						rf = st
					} else {
						df = st
					}
					d := newDest(key, df)
					r, _ := route.NewSendAllMatch(key, mk(rf), []*destination.Destination{d})
					t.AddRoute(r)
					var err error
					if where == "route" {
						err = t.UpdateRoute(key, map[string]string{o.name: v})
					} else {
						err = t.UpdateDestination(key, 0, map[string]string{o.name: v})
					}
					merged := st
					o.set(&merged, v)
					c, cerr := merged.Compile()
					if cerr != nil {
						panic(cerr)
					}
					what := fmt.Sprintf("{%s} updated with %s=%q", st, o.name, v)
					if err != nil {
						siteViolation("update "+where, merged, "-", what, "the update was refused: "+err.Error())
						t.DelRoute(key)
						continue
					}
					for _, nm := range siteNames {
						line := nm + " 1 2"
						want := c.Match([]byte(nm))
						d0 := destDrops(d)
						t.Dispatch([]byte(line))
						d.Flush()
						got := destDrops(d)-d0 == 1
						cnt.add(1)
						cnt.nt("B6:" + where + merged.String() + fmt.Sprint(want))
						if got != want {
							siteViolation("update "+where, merged, nm, line, fmt.Sprintf("after %s: delivered=%v, the merged filter {%s} on the name says %v", what, got, merged, want))
						}
					}
					t.DelRoute(key)
				}
			}
		}
	}
}

// ---------------------------------------------------------------------------
// Part C: aggregation match cache = no cache, over all histories

type cacheOp struct {
	kind string // "p" point, "t" tick, "x" expiry tick
	name string
}

func (o cacheOp) String() string {
	if o.kind == "p" {
		return "p(" + o.name + ")"
	}
	return o.kind
}

func runCacheHistory(h []cacheOp, cache bool) []string {
	out := make(chan []byte, 1000)
	now := time.Unix(100000, 0)
	tick := make(chan time.Time)
	m := mk(ref.Filter{Regex: `^k\.(.*)`, NotRegex: "z$", Sub: "."})
	a, err := aggregator.NewMocked("sum", m, "o.$1", cache, 10, 5, false, out, 100, func() time.Time { return now }, tick)
	if err != nil {
		panic(err)
	}
	var res []string
	drain := func(tag string) {
		var got []string
		for len(out) > 0 {
			got = append(got, string(<-out))
		}
		sort.Strings(got)
		res = append(res, tag+":"+strings.Join(got, ","))
	}
	for i, o := range h {
		switch o.kind {
		case "p":
			ts := uint32(now.Unix())
			a.AddMaybe([][]byte{[]byte(o.name), []byte("1"), []byte(fmt.Sprint(ts))}, float64(i+1), ts)
			harn.AggRest(a)
		case "t":
			now = now.Add(20 * time.Second)
			tick <- now
			harn.AggRest(a)
			drain("t")
		case "x":
			now = now.Add(510 * time.Second) // multiple of the interval: points stay bucket-aligned, cache entries (100*wait = 500s) expire
			tick <- now
			harn.AggRest(a)
			drain("x")
		}
	}
	now = now.Add(time.Hour)
	a.Shutdown()
	drain("end")
	return res
}

func partC(depth int) {
	alpha := []cacheOp{{"p", "k.a"}, {"p", "k.b"}, {"p", "x.a"}, {"p", "k.z"}, {"t", ""}, {"x", ""}}
	var hist [][]cacheOp
	var rec func(cur []cacheOp)
	rec = func(cur []cacheOp) {
		if len(cur) > 0 {
			hist = append(hist, append([]cacheOp(nil), cur...))
		}
		if len(cur) == depth {
			return
		}
		for _, o := range alpha {
			rec(append(cur, o))
		}
	}
	rec(nil)
	sort.SliceStable(hist, func(i, j int) bool { return len(hist[i]) < len(hist[j]) })
	refRe := regexp.MustCompile(`^k\.(.*)`)
	for _, h := range hist {
		with := runCacheHistory(h, true)
		without := runCacheHistory(h, false)
		cnt.add(2)
		// reference: sums per output key per flush
		var want []string
		acc := map[string]float64{}
		flush := func(tag string) {
			var got []string
			for k, v := range acc {
				got = append(got, fmt.Sprintf("%s %f", k, v))
			}
			sort.Strings(got)
			want = append(want, tag+":"+strings.Join(got, ","))
			acc = map[string]float64{}
		}
		for i, o := range h {
			switch o.kind {
			case "p":
				if refRe.MatchString(o.name) && !strings.HasSuffix(o.name, "z") && strings.Contains(o.name, ".") {
					acc["o."+refRe.FindStringSubmatch(o.name)[1]] += float64(i + 1)
				}
			default:
				flush(o.kind)
			}
		}
		flush("end")
		strip := func(in []string) []string {
			// drop the bucket timestamp (last field) of every emitted line
			var out []string
			for _, s := range in {
				tag := s[:strings.Index(s, ":")+1]
				var ls []string
				for _, l := range strings.Split(s[len(tag):], ",") {
					if l == "" {
						continue
					}
					f := strings.Fields(l)
					ls = append(ls, f[0]+" "+f[1])
				}
				out = append(out, tag+strings.Join(ls, ","))
			}
			return out
		}
		w, wo := strip(with), strip(without)
		hs := fmt.Sprint(h)
		if len(h) >= 2 {
			cnt.nt("C:" + hs)
		}
		if fmt.Sprint(w) != fmt.Sprint(wo) {
			rep.Violation("cache history "+hs, fmt.Sprintf("aggregation output differs with the match cache on (%v) and off (%v) for history %s", w, wo, hs), map[string]interface{}{"part": "C", "history": hs})
			continue
		}
		if fmt.Sprint(wo) != fmt.Sprint(want) {
			rep.Violation("agg filter history "+hs, fmt.Sprintf("aggregation output %v, reference (complete filter on the name) %v for history %s", wo, want, hs), map[string]interface{}{"part": "C", "history": hs})
		}
	}
	cnt.sample(map[string]interface{}{"part": "C", "histories": len(hist), "example": fmt.Sprint(hist[len(hist)-1])})
}

func main() {
	rep = kit.New("C03", "exploration")
	log.SetLevel(log.PanicLevel)
	log.SetOutput(io.Discard)
	// table.DelAggregator prints to stdout
	rep.Quiet()
	aggregator.InitMetrics()
	maxTok, anch, depth := 5, 6, 5
	if rep.Thorough() {
		maxTok, anch, depth = 6, 7, 6
	}
	partA(maxTok, anch)
	partA8(maxTok - 1)
	partB()
	partC(depth)
	rep.Assume = []string{
		"regex alphabet " + strings.Join(tokens, " ") + fmt.Sprintf(" up to %d tokens (up to %d for ^-anchored ones), names over {a,b,.} up to 5 bytes", maxTok, anch),
		fmt.Sprintf("part A8: regexes over {a, \\x{FFFD}, U+FFFD, ., ^, $, ?, (?i)} up to %d tokens x names of 1-3 elements of {a, 0xFF, U+FFFD, 0xC3} (names that are not valid UTF-8)", maxTok-1),
		"use sites observed through counters of real destinations pointed at a refusing loopback port (exact barrier: Destination.Flush) and through aggregator output with an injected clock",
	}
	rep.Finish(map[string]interface{}{
		"evaluations":         cnt.evals,
		"distinct_nontrivial": len(cnt.nontrivial),
		"rule":                "part A: every compiling regex string over the token alphabet x every name, as regex and as notRegex, plus all 3^6 option-value combinations; non-trivial = a filter that accepts some name and rejects another. part B: 18 filters x 8 names x 5 use sites on real objects; part C: every history of points/ticks/expiry up to the depth, cache on vs off vs reference",
		"samples":             cnt.samples,
		"exhaustive":          true,
	})
}
