// C13 (schedule half): several pickle connections served at the same time by the relay's one Pickle
// handler (the listener runs handler.Handle in one goroutine per connection). Every Read is a
// scheduling point and returns the next segment of its own stream; the handler itself is interleaved
// at statement granularity. Oracle: differential - each connection's datapoints, in order, are
// exactly what the same handler dispatches for that stream when it is served alone.
// Run by the C13 check as a sub-check (it shares the property id).
package main

import (
	"encoding/binary"
	"fmt"
	"io"
	"math"
	"strings"
	"time"

	"github.com/grafana/carbon-relay-ng/input"
	log "github.com/sirupsen/logrus"

	"verif/mc/kit"
	"verif/mc/vrt"
)

type point struct {
	name string
	ts   int32
	val  float64
}

// frame pickles a list of (name, (ts, value)) tuples with protocol 2 opcodes (no memo) and puts the
// 4-byte big-endian length in front, as carbon clients do.
func frame(pts []point) []byte {
	p := []byte{0x80, 0x02, ']', '('}
	for _, pt := range pts {
		p = append(p, 'X')
		p = binary.LittleEndian.AppendUint32(p, uint32(len(pt.name)))
		p = append(p, pt.name...)
		p = append(p, 'J')
		p = binary.LittleEndian.AppendUint32(p, uint32(pt.ts))
		p = append(p, 'G')
		p = binary.BigEndian.AppendUint64(p, math.Float64bits(pt.val))
		p = append(p, 0x86, 0x86)
	}
	p = append(p, 'e', '.')
	return append(binary.BigEndian.AppendUint32(nil, uint32(len(p))), p...)
}

type segReader struct{ segs [][]byte }

func (r *segReader) Read(p []byte) (int, error) {
	vrt.Yield()
	if len(r.segs) == 0 {
		return 0, io.EOF
	}
	n := copy(p, r.segs[0])
	if n == len(r.segs[0]) {
		r.segs = r.segs[1:]
	} else {
		r.segs[0] = r.segs[0][n:]
	}
	return n, nil
}

func split(b []byte, cuts []int) (out [][]byte) {
	prev := 0
	for _, c := range cuts {
		if c > prev && c < len(b) {
			out = append(out, append([]byte(nil), b[prev:c]...))
			prev = c
		}
	}
	return append(out, append([]byte(nil), b[prev:]...))
}

type capture struct{ lines []string }

func (c *capture) Dispatch(buf []byte) { c.lines = append(c.lines, string(buf)) }
func (c *capture) IncNumInvalid()      { c.lines = append(c.lines, "<invalid>") }

// streams: connection i sends frames whose names start with its letter; a long name makes the payload
// span several reads
func stream(letter string, frames int) []byte {
	var out []byte
	long := strings.Repeat(letter, 60)
	for f := 0; f < frames; f++ {
		out = append(out, frame([]point{
			{fmt.Sprintf("%s.f%d.a", letter, f), int32(1000 + f), 1.5},
			{fmt.Sprintf("%s.%s.f%d", letter, long, f), int32(2000 + f), float64(f)},
		})...)
	}
	return out
}

var cutSets = [][]int{{}, {4, 20}, {30, 70}}

type exec struct {
	nconn  int
	frames int
	cuts   []int
	alone  [][]string
	cap    *capture
	errs   []string
}

func (e *exec) Body() {
	letters := []string{"a", "b", "c"}
	e.cuts = make([]int, e.nconn)
	for i := range e.cuts {
		e.cuts[i] = vrt.Choose(len(cutSets), fmt.Sprintf("segmentation of connection %d", i))
	}
	// each stream alone, through a handler of its own
	e.alone = make([][]string, e.nconn)
	for i := 0; i < e.nconn; i++ {
		c := &capture{}
		input.NewPickle(c).Handle(&segReader{segs: split(stream(letters[i], e.frames), cutSets[e.cuts[i]])})
		e.alone[i] = c.lines
	}
	// all at once through one handler
	e.cap = &capture{}
	h := input.NewPickle(e.cap)
	e.errs = make([]string, e.nconn)
	for i := 0; i < e.nconn; i++ {
		i := i
		r := &segReader{segs: split(stream(letters[i], e.frames), cutSets[e.cuts[i]])}
		vrt.GoNamed(fmt.Sprintf("conn-%d", i), func() {
			if err := h.Handle(r); err != nil {
				e.errs[i] = err.Error()
			}
		})
	}
	vrt.Quiesce()
}

func (e *exec) Check(r *vrt.Result) (string, string) {
	h := fmt.Sprintf("%d pickle connections on one handler, %d frame(s) each, segmentations %v", e.nconn, e.frames, e.cuts)
	if len(r.Panics) > 0 {
		return "panic", "panic: " + r.Panics[0].Value + "\n" + h + "\n" + r.Panics[0].Stack
	}
	if r.StepLimit {
		return "steplimit", "livelock: step limit\n" + h
	}
	if !r.DriverDone {
		return "blocked", fmt.Sprintf("hang\n%s\nblocked: %v", h, r.Blocked)
	}
	letters := []string{"a", "b", "c"}
	outcome := fmt.Sprintf("%d lines", len(e.cap.lines))
	total := 0
	for i := 0; i < e.nconn; i++ {
		if len(e.alone[i]) != 2*e.frames {
			return outcome, fmt.Sprintf("harness: connection %d alone yields %d datapoints, expected %d: %q\n%s", i, len(e.alone[i]), 2*e.frames, e.alone[i], h)
		}
		var got []string
		for _, l := range e.cap.lines {
			if strings.HasPrefix(l, letters[i]+".") {
				got = append(got, l)
			}
		}
		total += len(got)
		if strings.Join(got, "\x00") != strings.Join(e.alone[i], "\x00") || e.errs[i] != "" {
			return outcome, fmt.Sprintf("pickle connection %d served next to %d other(s): dispatched %q (error %q), alone the same stream yields %q\n%s", i, e.nconn-1, got, e.errs[i], e.alone[i], h)
		}
	}
	if total != len(e.cap.lines) {
		return outcome, fmt.Sprintf("datapoints (or invalid counts) that belong to no connection's stream were dispatched: %q\n%s", e.cap.lines, h)
	}
	// the order in which the connections' datapoints interleave is the distinct outcome
	var order []string
	for _, l := range e.cap.lines {
		order = append(order, l[:1])
	}
	return strings.Join(order, ""), ""
}

func main() {
	rep := kit.New("C13", "model_checking")
	rep.Quiet()
	log.SetLevel(log.PanicLevel)
	log.SetOutput(io.Discard)
	bound := 2
	if rep.Thorough() {
		bound = 3
	}
	groups := map[string]bool{"c13": true}
	var scns []*vrt.Scenario
	add := func(nconn, frames, b int) {
		scns = append(scns, &vrt.Scenario{Name: fmt.Sprintf("%d connections x %d frames (bound %d)", nconn, frames, b),
			Cfg: vrt.Config{MaxSteps: 100000, Horizon: time.Hour, Groups: groups}, Model: vrt.CostDelay, Bound: b,
			New: func() vrt.Exec { return &exec{nconn: nconn, frames: frames} }})
	}
	add(2, 1, bound)
	if rep.Thorough() {
		add(2, 2, bound-1)
		add(3, 1, bound-1)
	}
	rep.Assume = []string{"frames are protocol-2 pickles built by the harness (the full CPython corpus is the sequential half); every Read is a scheduling point; statement-level interleaving inside the Pickle handler; the oracle is differential (each stream alone through a handler of its own)"}
	e1 := &kit.E1{Rep: rep, Scenarios: scns, Deadline: rep.Deadline(60*time.Second, 10*time.Minute), Shard: true}
	cov := e1.Run()
	if cov != nil {
		cov["bound"] = bound
	}
	rep.Finish(cov)
}
