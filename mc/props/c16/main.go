// C16: re-encoding a line for pickle, grafana.net or Kafka preserves the
// datapoint. Engine E4 (bounded-exhaustive, free-running, uninstrumented).
//
// Part A (pickle): every line of the 5 x 9 x 7 token space is turned into a
// carbon pickle frame (1) directly with destination.ParseDataPoint + Pickle and
// (2) by a real pickle-mode destination talking to a loopback listener; all
// frames are decoded by CPython's unpickler (py/unpickle.py, one batch
// subprocess) and compared with the meaning of the line's tokens.
//
// Part B (MetricData): every storage-schemas file of a small grammar is
// loaded by the route package's own loader and every name is converted by the
// real parseMetric; the record is compared with a reference (ref/schemas.go)
// written from the property statement.
package main

import (
	"bufio"
	"bytes"
	"encoding/binary"
	"encoding/hex"
	"encoding/json"
	"fmt"
	"io"
	"math"
	"net"
	"os"
	"os/exec"
	"path/filepath"
	"runtime"
	"runtime/debug"
	"sort"
	"strconv"
	"strings"
	"sync"
	"sync/atomic"
	"time"

	"github.com/grafana/carbon-relay-ng/destination"
	"github.com/grafana/carbon-relay-ng/matcher"
	"github.com/grafana/carbon-relay-ng/route"
	log "github.com/sirupsen/logrus"

	"verif/mc/harn"
	"verif/mc/kit"
	"verif/mc/ref"
)

var rep *kit.Reporter

// the line space (simplest first)
var nameToks = []string{"a.b", "x", "a.b;t=1", "a.b;z=1;a=2", "a.b;bad"}
var valToks = []string{"1", "1.50", "1e3", "0x1p-2", "+5", "-0", "007", "NaN", "1e400"}
var tsToks = []string{"0", "1", "4294967295", "4294967296", "1.5", "1e3", "-1"}

type lineCase struct {
	Name, Val, Ts string
}

func (l lineCase) Line() string { return l.Name + " " + l.Val + " " + l.Ts }

func allLines() []lineCase {
	var out []lineCase
	for _, n := range nameToks {
		for _, v := range valToks {
			for _, t := range tsToks {
				out = append(out, lineCase{n, v, t})
			}
		}
	}
	return out
}

var (
	evals      int64
	samplesMu  sync.Mutex
	samples    []interface{}
	extraCover = map[string]interface{}{}
)

func sample(s interface{}) {
	samplesMu.Lock()
	if len(samples) < 16 {
		samples = append(samples, s)
	}
	samplesMu.Unlock()
}

func sameFloat(a, b float64) bool {
	if math.IsNaN(a) || math.IsNaN(b) {
		return math.IsNaN(a) && math.IsNaN(b)
	}
	return math.Float64bits(a) == math.Float64bits(b)
}

// ---------------------------------------------------------------------------
// CPython batch

type pyNode struct {
	T   string          `json:"t"`
	V   json.RawMessage `json:"v"`
	NaN bool            `json:"nan"`
}

func (n *pyNode) kids() []*pyNode {
	var k []*pyNode
	json.Unmarshal(n.V, &k)
	return k
}

func (n *pyNode) str() string {
	var s string
	json.Unmarshal(n.V, &s)
	return s
}

// render shows a decoded object the way Python would, with the types visible.
func (n *pyNode) render() string {
	if n == nil {
		return "<nothing>"
	}
	switch n.T {
	case "list", "tuple":
		var parts []string
		for _, k := range n.kids() {
			parts = append(parts, k.render())
		}
		if n.T == "list" {
			return "[" + strings.Join(parts, ", ") + "]"
		}
		return "(" + strings.Join(parts, ", ") + ")"
	case "str":
		return strconv.Quote(n.str())
	case "int":
		return n.str()
	case "float":
		b, _ := hex.DecodeString(n.str())
		if len(b) == 8 {
			return "float(" + strconv.FormatFloat(math.Float64frombits(binary.BigEndian.Uint64(b)), 'g', -1, 64) + ")"
		}
		return "float(?)"
	}
	return n.T + "(" + n.str() + ")"
}

type pyRes struct {
	ID         string  `json:"id"`
	Error      string  `json:"error"`
	Prefix     int64   `json:"prefix"`
	PayloadLen int64   `json:"payload_len"`
	Consumed   int64   `json:"consumed"`
	Obj        *pyNode `json:"obj"`
	Bits       string  `json:"bits"`
	NaN        bool    `json:"nan"`
}

type pyReq struct{ kind, id, arg string }

var pyScript = filepath.Join(kit.Root, "py", "unpickle.py")

func havePython() (string, bool) {
	p, err := exec.LookPath("python3")
	if err != nil {
		return "", false
	}
	// a pyenv shim is a shell script that takes seconds to find the interpreter
	// on a loaded machine: go to the interpreter itself when it is there
	if i := strings.Index(p, "/shims/"); i >= 0 {
		root := p[:i]
		if v, err := os.ReadFile(root + "/version"); err == nil { // pyenv's global selection
			cand := root + "/versions/" + strings.Fields(string(v) + " -")[0] + "/bin/python3"
			if _, err := os.Stat(cand); err == nil {
				p = cand
			}
		}
	}
	if _, err := os.Stat(pyScript); err != nil {
		return "", false
	}
	return p, true
}

func runPython(py string, reqs []pyReq) (map[string]pyRes, error) {
	var in bytes.Buffer
	for _, r := range reqs {
		fmt.Fprintf(&in, "%s %s %s\n", r.kind, r.id, r.arg)
	}
	cmd := exec.Command(py, pyScript)
	cmd.Stdin = &in
	var errb bytes.Buffer
	cmd.Stderr = &errb
	out, err := cmd.Output()
	if err != nil {
		return nil, fmt.Errorf("python3 %s: %v: %s", pyScript, err, errb.String())
	}
	res := map[string]pyRes{}
	sc := bufio.NewScanner(bytes.NewReader(out))
	sc.Buffer(make([]byte, 1<<20), 1<<26)
	for sc.Scan() {
		var r pyRes
		if err := json.Unmarshal(sc.Bytes(), &r); err != nil {
			return nil, fmt.Errorf("python output %q: %v", sc.Text(), err)
		}
		res[r.ID] = r
	}
	if len(res) != len(reqs) {
		return nil, fmt.Errorf("python answered %d of %d requests", len(res), len(reqs))
	}
	return res, nil
}

// ---------------------------------------------------------------------------
// Part A: pickle

type frameCase struct {
	source string // "Pickle()" or "wire"
	lc     lineCase
	frame  []byte
}

// checkFrame: the oracle on one decoded frame.
func checkFrame(fc frameCase, r pyRes) {
	m := ref.C16Meaning(fc.lc.Name, fc.lc.Val, fc.lc.Ts)
	line := fc.lc.Line()
	sig := fmt.Sprintf("pickle %s line=%s", fc.source, line)
	replay := map[string]interface{}{"part": "pickle", "source": fc.source, "line": line, "frame_hex": hex.EncodeToString(fc.frame)}
	wantTxt := fmt.Sprintf("[(%q, (%d, float(%s)))]", m.NameToken, m.Time, strconv.FormatFloat(m.Value, 'g', -1, 64))
	if r.Error != "" {
		rep.Violation(sig, fmt.Sprintf("%s for line %q: CPython cannot decode the frame %x: %s (want %s)", fc.source, line, fc.frame, r.Error, wantTxt), replay)
		return
	}
	if r.Prefix != r.PayloadLen {
		rep.Violation(sig, fmt.Sprintf("%s for line %q: length prefix says %d bytes, the pickle payload has %d (frame %x)", fc.source, line, r.Prefix, r.PayloadLen, fc.frame), replay)
		return
	}
	if r.Consumed != r.PayloadLen {
		rep.Violation(sig, fmt.Sprintf("%s for line %q: the unpickler stops after %d of %d payload bytes (frame %x)", fc.source, line, r.Consumed, r.PayloadLen, fc.frame), replay)
		return
	}
	ok := false
	func() {
		o := r.Obj
		if o == nil || o.T != "list" {
			return
		}
		pts := o.kids()
		if len(pts) != 1 || pts[0].T != "tuple" {
			return
		}
		pt := pts[0].kids()
		if len(pt) != 2 || pt[0].T != "str" || pt[1].T != "tuple" {
			return
		}
		tv := pt[1].kids()
		if len(tv) != 2 || tv[0].T != "int" || tv[1].T != "float" {
			return
		}
		if pt[0].str() != m.NameToken {
			return
		}
		if tv[0].str() != strconv.FormatUint(m.Time, 10) {
			return
		}
		if math.IsNaN(m.Value) {
			ok = tv[1].NaN
			return
		}
		var want [8]byte
		binary.BigEndian.PutUint64(want[:], math.Float64bits(m.Value))
		ok = tv[1].str() == hex.EncodeToString(want[:]) && !tv[1].NaN
	}()
	if !ok {
		rep.Violation(sig, fmt.Sprintf("%s for line %q: CPython decodes %s, the line's tokens mean %s", fc.source, line, r.Obj.render(), wantTxt), replay)
	}
}

// partA1: ParseDataPoint + Pickle called directly.
func partA1(lines []lineCase) (frames []frameCase, emitted, refused int) {
	for _, lc := range lines {
		m := ref.C16Meaning(lc.Name, lc.Val, lc.Ts)
		line := lc.Line()
		must := m.ValueOK && m.TimeOK
		mustNot := !m.ValueOK || (!m.TimeOK && !m.TimeLenient)
		atomic.AddInt64(&evals, 1)
		dp, err := destination.ParseDataPoint([]byte(line))
		if err != nil {
			refused++
			if must {
				rep.Violation("pickle Pickle() refused line="+line, fmt.Sprintf("ParseDataPoint(%q) refuses a representable line: %v", line, err),
					map[string]interface{}{"part": "pickle", "source": "Pickle()", "line": line})
			}
			continue
		}
		if mustNot {
			rep.Violation("pickle Pickle() accepted line="+line, fmt.Sprintf("ParseDataPoint(%q) accepts a line that cannot be represented and yields %+v (a pickle-mode destination would emit it)", line, *dp),
				map[string]interface{}{"part": "pickle", "source": "Pickle()", "line": line})
			continue
		}
		emitted++
		frames = append(frames, frameCase{"Pickle()", lc, destination.Pickle(dp)})
	}
	return
}

// partA2: a real pickle-mode destination and a loopback listener. Exact
// barriers only: the hand-off to the destination is an unbuffered channel
// served by its relay loop, Destination.Flush is served by the same loop and
// then by the connection's single writer loop; a line is settled when the
// connection's "out" counter has moved (read after a Flush round trip; the
// writer loop moves it for every line it took, after bad_pickle for a dropped
// one). The byte stream is read to EOF after Destination.Shutdown, so nothing
// waits on a timer and nothing can be missed.
func partA2(lines []lineCase) (frames []frameCase, infra string) {
	ln, err := net.Listen("tcp", "127.0.0.1:0")
	if err != nil {
		return nil, "listen: " + err.Error()
	}
	var streams [][]byte
	var smu sync.Mutex
	var readers sync.WaitGroup
	acceptDone := make(chan struct{})
	go func() {
		defer close(acceptDone)
		for {
			c, err := ln.Accept()
			if err != nil {
				return
			}
			readers.Add(1)
			go func() {
				defer readers.Done()
				b, _ := io.ReadAll(c)
				c.Close()
				smu.Lock()
				streams = append(streams, b)
				smu.Unlock()
			}()
		}
	}()

	d, err := destination.New("c16", matcher.Matcher{}, ln.Addr().String(), "/tmp/verif-nospool", false, true,
		time.Hour, time.Hour, 1000, 1<<16, 10, 1000, 1000, time.Second, 0, 0)
	if err != nil {
		return nil, "destination.New: " + err.Error()
	}
	kOut := "dest=" + d.Key + ".unit=Metric.direction=out"
	kBad := "dest=" + d.Key + ".unit=Metric.action=drop.reason=bad_pickle"
	kDown := "dest=" + d.Key + ".unit=Metric.action=drop.reason=conn_down_no_spool"
	kSlow := "dest=" + d.Key + ".unit=Metric.action=drop.reason=slow_conn"
	// Conn.Write prints the parse error of every bad line to stderr
	realStderr := os.Stderr
	if dn, err := os.OpenFile(os.DevNull, os.O_WRONLY, 0); err == nil {
		os.Stderr = dn
		defer func() { os.Stderr = realStderr }()
	}
	d.Run()

	// settle: Flush round trips until the connection's writer loop has taken the line.
	settle := func(o0, b0 int64) (dOut, dBad int64) {
		for i := 0; i < 2000; i++ {
			d.Flush()
			dOut, dBad = harn.Count(kOut)-o0, harn.Count(kBad)-b0
			if dOut >= 1 { // "out" is the last counter the writer loop moves for a line (also for a dropped one)
				return
			}
			runtime.Gosched()
		}
		return
	}

	// wait for the connection: a probe handed over while there is none is counted
	// conn_down_no_spool by the relay loop before it serves the Flush.
	probe := lineCase{"verif.probe", "1", "1"}
	o0, b0 := harn.Count(kOut), harn.Count(kBad)
	giveUp := time.Now().Add(60 * time.Second) // infrastructure guard only (no connection at all)
	for {
		dn0 := harn.Count(kDown)
		d.In <- []byte(probe.Line())
		d.Flush()
		if harn.Count(kDown) == dn0 {
			break
		}
		if time.Now().After(giveUp) {
			return nil, "pickle destination never connected to the loopback listener"
		}
		runtime.Gosched()
	}
	if dOut, dBad := settle(o0, b0); dOut != 1 || dBad != 0 {
		return nil, fmt.Sprintf("probe line not written by the pickle connection (out %+d, bad_pickle %+d)", dOut, dBad)
	}
	expect := []lineCase{probe}

	for _, lc := range lines {
		m := ref.C16Meaning(lc.Name, lc.Val, lc.Ts)
		line := lc.Line()
		must := m.ValueOK && m.TimeOK
		mustNot := !m.ValueOK || (!m.TimeOK && !m.TimeLenient)
		o0, b0 := harn.Count(kOut), harn.Count(kBad)
		dn0, s0 := harn.Count(kDown), harn.Count(kSlow)
		d.In <- []byte(line)
		dOut, dBad := settle(o0, b0)
		atomic.AddInt64(&evals, 1)
		replay := map[string]interface{}{"part": "pickle", "source": "wire", "line": line}
		if lost := (harn.Count(kDown) - dn0) + (harn.Count(kSlow) - s0); lost != 0 {
			return nil, fmt.Sprintf("line %q dropped before the connection (conn_down/slow_conn %+d): the loopback connection broke", line, lost)
		}
		// Conn.HandleData moves "out" for every line its writer took, dropped or
		// not; bad_pickle tells the two apart.
		switch {
		case dOut != 1 || dBad < 0 || dBad > 1:
			rep.Violation("pickle wire counters line="+line, fmt.Sprintf("pickle destination: line %q moved out %+d and bad_pickle %+d after the flush barriers (want out +1, bad_pickle +0 or +1)", line, dOut, dBad), replay)
		case must && dBad != 0:
			rep.Violation("pickle wire refused line="+line, fmt.Sprintf("pickle destination drops the representable line %q as bad_pickle", line), replay)
		case mustNot && dBad != 1:
			rep.Violation("pickle wire accepted line="+line, fmt.Sprintf("pickle destination writes a frame for line %q, which cannot be represented, instead of counting it as %s", line, kBad), replay)
		}
		if dOut == 1 && dBad == 0 {
			expect = append(expect, lc)
		}
	}
	d.Shutdown()
	ln.Close()
	<-acceptDone
	readers.Wait()
	if len(streams) != 1 {
		return nil, fmt.Sprintf("pickle destination opened %d connections, expected exactly 1", len(streams))
	}
	stream := streams[0]
	// split the stream by the length prefixes
	var raw [][]byte
	off := 0
	for off < len(stream) {
		if len(stream)-off < 4 {
			rep.Violation("pickle wire stream misframed", fmt.Sprintf("pickle destination: %d stray bytes at offset %d of the byte stream (%d frames before)", len(stream)-off, off, len(raw)),
				map[string]interface{}{"part": "pickle", "source": "wire", "stream_hex": hex.EncodeToString(stream)})
			break
		}
		n := int(binary.BigEndian.Uint32(stream[off:]))
		if n > len(stream)-off-4 {
			which := "<none>"
			if len(raw) < len(expect) {
				which = expect[len(raw)].Line()
			}
			rep.Violation("pickle wire stream misframed", fmt.Sprintf("pickle destination: frame %d (line %q) announces %d payload bytes at offset %d but only %d bytes follow", len(raw), which, n, off, len(stream)-off-4),
				map[string]interface{}{"part": "pickle", "source": "wire", "line": which, "stream_hex": hex.EncodeToString(stream)})
			break
		}
		raw = append(raw, stream[off:off+4+n])
		off += 4 + n
	}
	if len(raw) != len(expect) {
		rep.Violation("pickle wire frame-count", fmt.Sprintf("pickle destination: %d frames on the wire for %d lines counted as written", len(raw), len(expect)),
			map[string]interface{}{"part": "pickle", "source": "wire", "stream_hex": hex.EncodeToString(stream)})
	}
	for i := 0; i < len(raw) && i < len(expect); i++ {
		frames = append(frames, frameCase{"wire", expect[i], raw[i]})
	}
	return frames, ""
}

func partA() {
	lines := allLines()
	f1, emitted, refused := partA1(lines)
	f2, infra := partA2(lines)
	if infra != "" {
		rep.Infra = infra
		return
	}
	cover := map[string]interface{}{"lines": len(lines), "direct_frames": emitted, "direct_refused": refused, "wire_frames": len(f2)}
	extraCover["pickle"] = cover
	py, ok := havePython()
	if !ok {
		cover["cpython"] = "SKIPPED: python3 (or " + pyScript + ") not found; frames were produced and counted but not decoded"
		return
	}
	all := append(append([]frameCase{}, f1...), f2...)
	var reqs []pyReq
	for i, fc := range all {
		reqs = append(reqs, pyReq{"P", "p" + strconv.Itoa(i), hex.EncodeToString(fc.frame)})
	}
	for i, v := range valToks {
		reqs = append(reqs, pyReq{"F", "f" + strconv.Itoa(i), v})
	}
	res, err := runPython(py, reqs)
	if err != nil {
		rep.Infra = err.Error()
		return
	}
	// the reference reading of the value tokens, cross-checked with CPython's
	for i, v := range valToks {
		m := ref.C16Meaning("a", v, "1")
		r := res["f"+strconv.Itoa(i)]
		if !m.ValueOK || r.Error != "" {
			continue
		}
		var want [8]byte
		binary.BigEndian.PutUint64(want[:], math.Float64bits(m.Value))
		if !(math.IsNaN(m.Value) && r.NaN) && r.Bits != hex.EncodeToString(want[:]) {
			rep.Infra = fmt.Sprintf("reference disagreement on value token %q: Go %x, CPython %s", v, want, r.Bits)
			return
		}
	}
	for i, fc := range all {
		atomic.AddInt64(&evals, 1)
		r := res["p"+strconv.Itoa(i)]
		checkFrame(fc, r)
		if i%41 == 3 && r.Obj != nil {
			sample(map[string]interface{}{"part": "pickle", "source": fc.source, "line": fc.lc.Line(), "frame_hex": hex.EncodeToString(fc.frame), "cpython": r.Obj.render()})
		}
	}
	cover["cpython"] = fmt.Sprintf("%d frames decoded by %s", len(all), py)
}

// ---------------------------------------------------------------------------
// Part B: MetricData and schema selection

// the five patterns of the design plus `=1$`, the only one that tells the sorted
// presentation a.b;a=2;z=1 from the line's own order a.b;z=1;a=2
var patToks = []string{`^a\.`, `b$`, `^a\.b$`, `;t=1$`, `^x$`, `=1$`}
var retToks = []string{"10:100", "10s:1d,1m:7d", "1m:30d"}
var prioToks []*int // absent, 0, 1, 2

const defaultRetention = "1s:1h" // an interval no other rule has: falling through to the default is always visible
var defaultPrio []*int           // absent, 1

func init() {
	prioToks = []*int{nil}
	for _, p := range []int{0, 1, 2} {
		p := p
		prioToks = append(prioToks, &p)
	}
	one := 1
	defaultPrio = []*int{nil, &one}
}

const nVariants = 6 * 4 * 3

func variant(v int) ref.SchemaRule {
	return ref.SchemaRule{Pattern: patToks[v/12], Priority: prioToks[(v/3)%4], Retentions: retToks[v%3]}
}

func pow(b, e int) int {
	r := 1
	for ; e > 0; e-- {
		r *= b
	}
	return r
}

// filesWith(k) = number of files with k non-default rules.
func filesWith(k int) int { return pow(nVariants, k) * (k + 1) * len(defaultPrio) }

// fileAt decodes a global index (simplest first: fewer rules, then default
// last and without priority, then rule variants in grammar order).
func fileAt(idx int) (rules []ref.SchemaRule, k int) {
	for k = 0; idx >= filesWith(k); k++ {
		idx -= filesWith(k)
	}
	dp := idx % len(defaultPrio)
	idx /= len(defaultPrio)
	pos := k - idx%(k+1) // 0th choice: default at the end
	idx /= k + 1
	vs := make([]int, k)
	for i := k - 1; i >= 0; i-- {
		vs[i] = idx % nVariants
		idx /= nVariants
	}
	j := 0
	for i := 0; i <= k; i++ {
		if i == pos {
			rules = append(rules, ref.SchemaRule{Section: "default", Pattern: ".*", Priority: defaultPrio[dp], Retentions: defaultRetention})
			continue
		}
		r := variant(vs[j])
		r.Section = "r" + strconv.Itoa(j)
		rules = append(rules, r)
		j++
	}
	return rules, k
}

func describe(rules []ref.SchemaRule) string {
	var parts []string
	for _, r := range rules {
		p := "-"
		if r.Priority != nil {
			p = strconv.Itoa(*r.Priority)
		}
		parts = append(parts, fmt.Sprintf("{%s prio=%s %s}", r.Pattern, p, r.Retentions))
	}
	return strings.Join(parts, " ")
}

type pending struct {
	idx    int
	sub    int
	sig    string
	what   string
	replay interface{}
}

type worker struct {
	path    string
	f       *os.File
	size    int
	found   map[string]pending
	hits    map[string]int64 // failing cases per signature
	evals   int64
	nontriv int64
}

func (w *worker) violation(idx, sub int, sig string, what func() string, replay func() interface{}) {
	if w.hits == nil {
		w.hits = map[string]int64{}
	}
	w.hits[sig]++
	if p, ok := w.found[sig]; ok && (p.idx < idx || (p.idx == idx && p.sub <= sub)) {
		return
	}
	w.found[sig] = pending{idx, sub, sig, what(), replay()}
}

// write replaces the worker's scratch storage-schemas file. The file keeps
// its size (blank lines, which storage-schemas ignores, pad shorter contents):
// truncating and re-allocating a file per case costs ~10x more system time.
func (w *worker) write(content string) error {
	if w.f == nil {
		f, err := os.OpenFile(w.path, os.O_CREATE|os.O_RDWR|os.O_TRUNC, 0o644)
		if err != nil {
			return err
		}
		w.f = f
	}
	b := []byte(content)
	for len(b) < w.size {
		b = append(b, '\n')
	}
	w.size = len(b)
	_, err := w.f.WriteAt(b, 0)
	return err
}

type mdView struct {
	Name     string   `json:"name"`
	Tags     []string `json:"tags"`
	Value    string   `json:"value"`
	Time     int64    `json:"time"`
	OrgId    int      `json:"org_id"`
	Interval int      `json:"interval"`
}

// checkRecord runs one line through the real parseMetric and the oracle.
func (w *worker) checkRecord(idx, sub int, rules []ref.SchemaRule, parse func(line string) (mdView, bool, error), lc lineCase, org int) {
	line := lc.Line()
	m := ref.C16Meaning(lc.Name, lc.Val, lc.Ts)
	valid := m.ValueOK && m.TimeOK && m.TagsOK
	mustErr := !m.ValueOK || !m.TagsOK || (!m.TimeOK && !m.TimeLenient)
	w.evals++
	replay := func() interface{} {
		return map[string]interface{}{"part": "record", "line": line, "org": org, "rules": rules, "file": ref.SchemasFile(rules)}
	}
	got, present, err := parse(line)
	if err != nil {
		if valid {
			w.violation(idx, sub, "record refused line="+line, func() string {
				return fmt.Sprintf("parseMetric(%q) refuses a representable line: %v (schemas %s)", line, err, describe(rules))
			}, replay)
		}
		return
	}
	if !present {
		w.violation(idx, sub, "record nil line="+line, func() string { return fmt.Sprintf("parseMetric(%q) returns neither a record nor an error", line) }, replay)
		return
	}
	if mustErr {
		w.violation(idx, sub, "record accepted line="+line, func() string {
			return fmt.Sprintf("parseMetric(%q) accepts a line that cannot be represented and builds %+v", line, got)
		}, replay)
		return
	}
	want := ref.C16RecordOf(m)
	if got.Name != want.Name {
		w.violation(idx, sub, "record field=Name name="+lc.Name, func() string {
			return fmt.Sprintf("parseMetric(%q): Name %q, want %q (text before the first ';')", line, got.Name, want.Name)
		}, replay)
	}
	if fmt.Sprintf("%q", got.Tags) != fmt.Sprintf("%q", want.Tags) {
		w.violation(idx, sub, "record field=Tags name="+lc.Name, func() string {
			return fmt.Sprintf("parseMetric(%q): Tags %q, want the line's tags sorted %q", line, got.Tags, want.Tags)
		}, replay)
	}
	gv, _ := strconv.ParseFloat(got.Value, 64)
	if !sameFloat(gv, want.Value) {
		w.violation(idx, sub, "record field=Value value="+lc.Val, func() string {
			return fmt.Sprintf("parseMetric(%q): Value %s, the token means %v", line, got.Value, want.Value)
		}, replay)
	}
	if got.Time != want.Time {
		w.violation(idx, sub, "record field=Time ts="+lc.Ts, func() string {
			return fmt.Sprintf("parseMetric(%q): Time %d, the token means %d", line, got.Time, want.Time)
		}, replay)
	}
	if got.OrgId != org {
		w.violation(idx, sub, fmt.Sprintf("record field=OrgId org=%d", org), func() string {
			return fmt.Sprintf("parseMetric(%q, org %d): OrgId %d", line, org, got.OrgId)
		}, replay)
	}
	presented := ref.PresentedName(lc.Name)
	sel := ref.SelectRule(rules, presented)
	wantInt := ref.FirstRetentionSeconds(rules[sel].Retentions)
	if got.Interval != wantInt {
		w.violation(idx, sub, fmt.Sprintf("interval name=%s rule=%s", lc.Name, rules[sel].Pattern), func() string {
			return fmt.Sprintf("parseMetric(%q) under schemas %s: Interval %d, want %d = first retention of rule [%s] pattern %s, the first rule (priority descending, then file order) that matches the series as Graphite presents it, %q",
				line, describe(rules), got.Interval, wantInt, rules[sel].Section, rules[sel].Pattern, presented)
		}, replay)
	}
}

// realParse loads the file through the route package and returns a parser.
func realParse(path string, org int) (func(line string) (mdView, bool, error), error) {
	schemas, err := route.VerifC16GetSchemas(path)
	if err != nil {
		return nil, err
	}
	return func(line string) (v mdView, present bool, err error) {
		defer func() {
			if r := recover(); r != nil {
				err = nil
				present = false
				v = mdView{Name: fmt.Sprintf("PANIC: %v", r)}
			}
		}()
		md, err := route.VerifC16ParseMetricWith([]byte(line), schemas, org)
		if err != nil {
			return mdView{}, false, err
		}
		if md == nil {
			return mdView{}, false, nil
		}
		return mdView{md.Name, append([]string{}, md.Tags...), strconv.FormatFloat(md.Value, 'g', -1, 64), md.Time, md.OrgId, md.Interval}, true, nil
	}, nil
}

func (w *worker) doFile(idx int, lines []lineCase, short []lineCase) {
	rules, k := fileAt(idx)
	content := ref.SchemasFile(rules)
	if err := w.write(content); err != nil {
		panic(err)
	}
	orgs := []int{1}
	use := short
	if k <= 1 {
		orgs = []int{1, 12345}
		use = lines
	}
	// non-trivial: the file tells the valid names apart
	seen := map[int]bool{}
	for _, n := range nameToks[:4] {
		seen[ref.FirstRetentionSeconds(rules[ref.SelectRule(rules, ref.PresentedName(n))].Retentions)] = true
	}
	if len(seen) > 1 {
		w.nontriv++
	}
	sub := 0
	for _, org := range orgs {
		parse, err := realParse(w.path, org)
		if err != nil {
			w.violation(idx, sub, "schemas-load "+describe(rules), func() string {
				return fmt.Sprintf("the storage-schemas file %s is refused: %v", describe(rules), err)
			}, func() interface{} { return map[string]interface{}{"part": "record", "rules": rules, "file": content} })
			return
		}
		for _, lc := range use {
			w.checkRecord(idx, sub, rules, parse, lc, org)
			sub++
		}
	}
	if idx == 0 || idx == 7 || idx == 1000 || idx == 20000 {
		parse, _ := realParse(w.path, 1)
		got := map[string]interface{}{}
		for _, n := range nameToks {
			v, _, err := parse(n + " 1.50 1")
			if err != nil {
				got[n] = "error: " + err.Error()
			} else {
				got[n] = v
			}
		}
		sample(map[string]interface{}{"part": "record", "file_index": idx, "schemas": describe(rules), "records": got})
	}
}

func partB(maxRules int, deadline time.Time) (exhaustive bool) {
	total := 0
	for k := 0; k <= maxRules; k++ {
		total += filesWith(k)
	}
	dir := filepath.Join(kit.Root, ".work", "c16-schemas", strconv.Itoa(os.Getpid()))
	if err := os.MkdirAll(dir, 0o755); err != nil {
		rep.Infra = err.Error()
		return false
	}
	defer func() {
		os.RemoveAll(dir)
		os.Remove(filepath.Dir(dir)) // only succeeds when no other run is using it
	}()
	lines := allLines()
	var short []lineCase
	for _, n := range nameToks {
		short = append(short, lineCase{n, "1.50", "1"})
	}
	const chunk = 128
	nChunks := (total + chunk - 1) / chunk
	var next int64
	done := make([]bool, nChunks)
	nw := runtime.NumCPU()
	if nw > 32 {
		nw = 32
	}
	ws := make([]*worker, nw)
	var wg sync.WaitGroup
	for i := range ws {
		ws[i] = &worker{path: filepath.Join(dir, fmt.Sprintf("w%d.conf", i)), found: map[string]pending{}}
		wg.Add(1)
		go func(w *worker) {
			defer wg.Done()
			for {
				c := int(atomic.AddInt64(&next, 1)) - 1
				if c >= nChunks || time.Now().After(deadline) {
					return
				}
				complete := true
				for idx := c * chunk; idx < (c+1)*chunk && idx < total; idx++ {
					if idx%16 == 0 && time.Now().After(deadline) {
						complete = false
						break
					}
					w.doFile(idx, lines, short)
				}
				done[c] = complete
			}
		}(ws[i])
	}
	wg.Wait()
	for _, w := range ws {
		if w.f != nil {
			w.f.Close()
		}
	}
	prefix := 0
	for prefix < nChunks && done[prefix] {
		prefix++
	}
	covered := prefix * chunk
	if covered > total {
		covered = total
	}
	var nontriv int64
	merged := map[string]pending{}
	hits := map[string]int64{}
	for _, w := range ws {
		for s, n := range w.hits {
			hits[s] += n
		}
		atomic.AddInt64(&evals, w.evals)
		nontriv += w.nontriv
		for s, p := range w.found {
			if q, ok := merged[s]; !ok || p.idx < q.idx || (p.idx == q.idx && p.sub < q.sub) {
				merged[s] = p
			}
		}
	}
	var ps []pending
	for _, p := range merged {
		ps = append(ps, p)
	}
	sort.Slice(ps, func(i, j int) bool {
		if ps[i].idx != ps[j].idx {
			return ps[i].idx < ps[j].idx
		}
		if ps[i].sub != ps[j].sub {
			return ps[i].sub < ps[j].sub
		}
		return ps[i].sig < ps[j].sig
	})
	for _, p := range ps {
		rep.Violation(p.sig, p.what, p.replay)
	}
	extraCover["schemas"] = map[string]interface{}{
		"max_rules": maxRules, "files_in_space": total, "files_completed_prefix": covered,
		"files_telling_names_apart":                   nontriv,
		"full_line_space_on_files_with_at_most_rules": 1,
		"failing_cases_per_signature":                 hits,
	}
	extraCover["distinct_nontrivial"] = nontriv
	return covered == total
}

// ---------------------------------------------------------------------------

func replayOne(path string) {
	var r struct {
		Part   string           `json:"part"`
		Source string           `json:"source"`
		Line   string           `json:"line"`
		Org    int              `json:"org"`
		Rules  []ref.SchemaRule `json:"rules"`
	}
	if err := kit.LoadReplay(path, &r); err != nil {
		fmt.Fprintln(rep.Out, "cannot load replay:", err)
		os.Exit(2)
	}
	f := strings.Fields(r.Line)
	if len(f) != 3 {
		fmt.Fprintln(rep.Out, "replay has no line")
		os.Exit(2)
	}
	lc := lineCase{f[0], f[1], f[2]}
	switch r.Part {
	case "record":
		dir := filepath.Join(kit.Root, ".work", "c16-schemas", strconv.Itoa(os.Getpid()))
		os.MkdirAll(dir, 0o755)
		w := &worker{path: filepath.Join(dir, "replay.conf"), found: map[string]pending{}}
		w.write(ref.SchemasFile(r.Rules))
		fmt.Fprintf(rep.Out, "storage-schemas file:\n%s", ref.SchemasFile(r.Rules))
		parse, err := realParse(w.path, r.Org)
		if err != nil {
			fmt.Fprintln(rep.Out, "getSchemas:", err)
		} else {
			v, _, err := parse(r.Line)
			fmt.Fprintf(rep.Out, "parseMetric(%q, org %d) = %+v, err %v\n", r.Line, r.Org, v, err)
			w.checkRecord(0, 0, r.Rules, parse, lc, r.Org)
		}
		w.f.Close()
		os.RemoveAll(dir)
		os.Remove(filepath.Dir(dir))
		for _, p := range w.found {
			rep.Violation(p.sig, p.what, p.replay)
		}
	case "pickle":
		fs, _, _ := partA1([]lineCase{lc})
		if r.Source == "wire" {
			var infra string
			fs, infra = partA2([]lineCase{lc})
			if infra != "" {
				fmt.Fprintln(rep.Out, "INFRA-ERROR", infra)
				os.Exit(2)
			}
			if len(fs) > 0 {
				fs = fs[1:] // the probe
			}
		}
		if py, ok := havePython(); ok && len(fs) > 0 {
			res, err := runPython(py, []pyReq{{"P", "p0", hex.EncodeToString(fs[0].frame)}})
			if err != nil {
				fmt.Fprintln(rep.Out, "INFRA-ERROR", err)
				os.Exit(2)
			}
			fmt.Fprintf(rep.Out, "line %q -> frame %x -> CPython %s %s\n", r.Line, fs[0].frame, res["p0"].Obj.render(), res["p0"].Error)
			checkFrame(fs[0], res["p0"])
		} else {
			fmt.Fprintf(rep.Out, "line %q -> %d frames\n", r.Line, len(fs))
		}
	}
	// a replay does not touch the evidence file
	if rep.Violations() > 0 {
		fmt.Fprintf(rep.Out, "FAIL property=C16 replay reproduces %d violation(s)\n", rep.Violations())
		os.Exit(1)
	}
	fmt.Fprintln(rep.Out, "OK property=C16 replay: no violation")
	os.Exit(0)
}

func main() {
	rep = kit.New("C16", "exploration")
	log.SetLevel(log.PanicLevel)
	log.SetOutput(io.Discard)
	rep.Quiet()
	// the live heap is a few MB while every case allocates (file, regexps, ini maps):
	// with the default GOGC the collector runs continuously
	debug.SetGCPercent(2000)
	if rep.ReplayOnly != "" {
		replayOne(rep.ReplayOnly)
		return
	}
	maxRules := 2
	if rep.Thorough() {
		maxRules = 3
	}
	deadline := rep.Deadline(45*time.Second, 13*time.Minute)
	t0 := time.Now()
	partA()
	tA := time.Since(t0)
	exhaustive := true
	if rep.Infra == "" {
		exhaustive = partB(maxRules, deadline)
	}
	extraCover["wall_split_s"] = map[string]float64{"pickle": tA.Seconds(), "schemas": (time.Since(t0) - tA).Seconds()}
	rep.Assume = []string{
		"line space: name in {" + strings.Join(nameToks, ", ") + "} x value in {" + strings.Join(valToks, ", ") + "} x timestamp in {" + strings.Join(tsToks, ", ") + "} = 315 lines, single spaces, no trailing newline",
		"a value token is representable iff it spells a float64 (the reference reading is cross-checked with CPython's float()/float.fromhex); a timestamp token is representable iff it is a plain digit string <= 4294967295; a non-digit spelling of an in-range integer (1e3) may be refused or taken as that integer; the pickle path carries the name token verbatim (tags are not interpreted there)",
		fmt.Sprintf("storage-schemas grammar: up to %d rules from patterns {%s} x priority {absent,0,1,2} x retentions {%s}, plus the default [.* %s] with priority {absent,1} at every position; an absent priority counts as 0", maxRules, strings.Join(patToks, " "), strings.Join(retToks, " | "), defaultRetention),
		"pickle destination observed over one loopback TCP connection; barriers: unbuffered hand-off to the relay loop, Destination.Flush round trips until the connection's out counter moved (bad_pickle tells a dropped line from a written one), stream read to EOF after Destination.Shutdown",
	}
	nontriv, _ := extraCover["distinct_nontrivial"].(int64)
	delete(extraCover, "distinct_nontrivial")
	cov := map[string]interface{}{
		"evaluations":         atomic.LoadInt64(&evals),
		"distinct_nontrivial": nontriv,
		"rule":                "distinct_nontrivial = storage-schemas files of the grammar under which the four valid names do not all get the same reference interval (rule selection matters); every file x 5 names (and the full 315-line space x 2 org ids on all files with <= 1 rule) goes through the real getSchemas + parseMetric; every line goes through ParseDataPoint+Pickle and through a real pickle destination, frames decoded by CPython",
		"samples":             samples,
		"exhaustive":          exhaustive,
	}
	for k, v := range extraCover {
		cov[k] = v
	}
	rep.Finish(cov)
}
