// C19: order validation accepts a point only if it is newer than everything
// accepted before for its name — for every interleaving of concurrent
// dispatchers. Engine E1 (controlled scheduler over the instrumented real
// table.Dispatch / validate.Ordered), oracle: linearizability of the
// accept/reject history w.r.t. a per-name max-register (porcupine).
package main

import (
	"fmt"
	"sort"
	"strings"
	"time"

	"github.com/anishathalye/porcupine"
	"github.com/grafana/carbon-relay-ng/matcher"
	"github.com/grafana/carbon-relay-ng/rewriter"
	"github.com/grafana/carbon-relay-ng/table"
	"github.com/grafana/carbon-relay-ng/validate"
	m20 "github.com/metrics20/go-metrics20/carbon20"

	"verif/mc/harn"
	"verif/mc/kit"
	"verif/mc/vrt"
)

type op struct {
	Name string
	Ts   uint64
}

func (o op) String() string { return fmt.Sprintf("%s@%d", o.Name, o.Ts) }

type rec struct {
	thread   int
	op       op
	id       int
	call     int64
	ret      int64
	accepted bool
}

// reconf: an admin operation applied by a third thread while the dispatchers run. Order validation is a
// property of the table, not of one table value: it must survive every reconfiguration.
var reconfs = []struct {
	name string
	do   func(t *table.Table) error
}{
	{"none", nil},
	{"delRoute(tmp)", func(t *table.Table) error { return t.DelRoute("tmp") }},
	{"delRoute(unknown)", func(t *table.Table) error { return t.DelRoute("nope") }},
	{"addRoute(tmp2)", func(t *table.Table) error {
		t.AddRoute(harn.NewCapture("tmp2", harn.MustMatcher("zz", "", "", "", "", "")))
		return nil
	}},
	{"addBlacklist", func(t *table.Table) error {
		m := harn.MustMatcher("zy", "", "", "", "", "")
		t.AddBlacklist(&m)
		return nil
	}},
	{"delBlacklist(0)", func(t *table.Table) error { return t.DelBlacklist(0) }},
	{"addRewriter", func(t *table.Table) error {
		rw, err := rewriter.New("zz", "zy", "", -1)
		if err != nil {
			return err
		}
		t.AddRewriter(rw)
		return nil
	}},
	{"delRewriter(0)", func(t *table.Table) error { return t.DelRewriter(0) }},
}

type exec struct {
	reconf  int
	scripts [][]op
	recs    []*rec
	clock   int64
	cap     *harn.Capture
	ooo     int64
	bad     map[string]string
	invalid int64
	in      int64
}

func norm(name string) string { return strings.TrimPrefix(name, ".") }

func (e *exec) Body() {
	validate.VerifResetGlobals()
	ooo0 := harn.Count("unit=Err.type=out_of_order")
	inv0 := harn.Count("unit=Err.type=invalid")
	in0 := harn.Count("unit=Metric.direction=in")
	cfg, err := table.NewTableConfig("/spool", "1h", validate.LevelLegacy{Level: m20.MediumLegacy}, validate.LevelM20{Level: m20.MediumM20}, true)
	if err != nil {
		panic(err)
	}
	t := table.New(cfg)
	e.cap = harn.NewCapture("cap", matcher.Matcher{})
	e.cap.Hook = func(buf []byte) {
		// the value field carries the op id
		var name string
		var id int
		var ts uint64
		fmt.Sscanf(string(buf), "%s %d %d", &name, &id, &ts)
		e.recs[id].accepted = true
	}
	t.AddRoute(e.cap)
	finished := 0
	want := len(e.scripts)
	if e.reconf > 0 {
		// entries the admin operations can remove; none of them touches the names of the scripts
		t.AddRoute(harn.NewCapture("tmp", harn.MustMatcher("zz", "", "", "", "", "")))
		bl := harn.MustMatcher("zx", "", "", "", "", "")
		t.AddBlacklist(&bl)
		rw, err := rewriter.New("zz", "zw", "", -1)
		if err != nil {
			panic(err)
		}
		t.AddRewriter(rw)
		want++
		vrt.GoNamed("admin", func() {
			if err := reconfs[e.reconf].do(t); err != nil {
				panic("admin operation failed: " + err.Error())
			}
			finished++
		})
	}
	id := 0
	for ti, sc := range e.scripts {
		var mine []*rec
		for _, o := range sc {
			r := &rec{thread: ti, op: o, id: id}
			id++
			e.recs = append(e.recs, r)
			mine = append(mine, r)
		}
		vrt.GoNamed(fmt.Sprintf("disp%d", ti), func() {
			// like a connection's reader, a dispatcher hands every line over in the same memory and
			// overwrites it as soon as the hand-off has returned
			buf := make([]byte, 0, 64)
			for _, r := range mine {
				e.clock++
				r.call = e.clock
				buf = append(buf[:0], fmt.Sprintf("%s %d %d", r.op.Name, r.id, r.op.Ts)...)
				t.Dispatch(buf)
				for i := range buf {
					buf[i] = '#'
				}
				e.clock++
				r.ret = e.clock
			}
			finished++
		})
	}
	vrt.WaitUntil("join", func() bool { return finished == want })
	vrt.Quiesce()
	e.bad = map[string]string{}
	for _, r := range t.Bad().Get(time.Hour) {
		e.bad[r.Metric] = r.LastErr + "|" + r.LastMsg
	}
	e.ooo = harn.Count("unit=Err.type=out_of_order") - ooo0
	e.invalid = harn.Count("unit=Err.type=invalid") - inv0
	e.in = harn.Count("unit=Metric.direction=in") - in0
}

type regIn struct {
	name string
	ts   uint64
}

var model = porcupine.Model{
	Partition: func(h []porcupine.Operation) [][]porcupine.Operation {
		m := map[string][]porcupine.Operation{}
		var keys []string
		for _, o := range h {
			k := o.Input.(regIn).name
			if _, ok := m[k]; !ok {
				keys = append(keys, k)
			}
			m[k] = append(m[k], o)
		}
		sort.Strings(keys)
		var out [][]porcupine.Operation
		for _, k := range keys {
			out = append(out, m[k])
		}
		return out
	},
	Init: func() interface{} { return uint64(0) },
	Step: func(state, input, output interface{}) (bool, interface{}) {
		s := state.(uint64)
		in := input.(regIn)
		acc := output.(bool)
		if in.ts > s {
			return acc, in.ts
		}
		return !acc, s
	},
	Equal: func(a, b interface{}) bool { return a.(uint64) == b.(uint64) },
}

func (e *exec) Check(r *vrt.Result) (string, string) {
	var sb strings.Builder
	for _, x := range e.recs {
		fmt.Fprintf(&sb, "%v:%v ", x.op, x.accepted)
	}
	outcome := sb.String()
	if len(r.Panics) > 0 {
		return outcome, "panic: " + r.Panics[0].Value + "\n" + r.Panics[0].Stack
	}
	if !r.DriverDone {
		return outcome, fmt.Sprintf("deadlock: driver did not finish\nblocked: %v", r.Blocked)
	}
	var hist []porcupine.Operation
	rejects := map[string]int{}
	nrej := int64(0)
	for _, x := range e.recs {
		hist = append(hist, porcupine.Operation{ClientId: x.thread, Input: regIn{norm(x.op.Name), x.op.Ts}, Call: x.call, Output: x.accepted, Return: x.ret})
		if !x.accepted {
			rejects[norm(x.op.Name)]++
			nrej++
		}
	}
	if !porcupine.CheckOperations(model, hist) {
		return outcome, "accept/reject history is not linearizable w.r.t. the per-name newest-timestamp register\nhistory: " + histString(e.recs)
	}
	// forwarded lines: exactly the accepted ones, each once
	if len(e.cap.Lines) != len(e.recs)-int(nrej) {
		return outcome, fmt.Sprintf("route received %d lines for %d accepted points", len(e.cap.Lines), len(e.recs)-int(nrej))
	}
	if e.ooo != nrej {
		return outcome, fmt.Sprintf("out_of_order counter moved by %d for %d rejected points\nhistory: %s", e.ooo, nrej, histString(e.recs))
	}
	if e.invalid != 0 || e.in != int64(len(e.recs)) {
		return outcome, fmt.Sprintf("counters: invalid moved by %d, in by %d for %d points", e.invalid, e.in, len(e.recs))
	}
	for name := range rejects {
		rec, ok := e.bad[name]
		if !ok || !strings.Contains(rec, "not newer") {
			return outcome, fmt.Sprintf("rejected point of %q missing from the bad-metrics report (have %v)", name, e.bad)
		}
	}
	return outcome, ""
}

func histString(rs []*rec) string {
	var sb strings.Builder
	for _, x := range rs {
		fmt.Fprintf(&sb, "[T%d %v call=%d ret=%d accepted=%v] ", x.thread, x.op, x.call, x.ret, x.accepted)
	}
	return sb.String()
}

func scripts(alpha []op, maxLen int) [][]op {
	var out [][]op
	var rec func(cur []op)
	rec = func(cur []op) {
		if len(cur) > 0 {
			out = append(out, append([]op(nil), cur...))
		}
		if len(cur) == maxLen {
			return
		}
		for _, o := range alpha {
			rec(append(cur, o))
		}
	}
	rec(nil)
	return out
}

func scriptName(ss [][]op) string {
	var parts []string
	for _, s := range ss {
		var p []string
		for _, o := range s {
			p = append(p, o.String())
		}
		parts = append(parts, strings.Join(p, ","))
	}
	return strings.Join(parts, " || ")
}

func main() {
	rep := kit.New("C19", "model_checking")
	small := []op{{"a", 1}, {"a", 2}, {".a", 2}, {"b", 1}}
	big := []op{{"a", 1}, {"a", 2}, {".a", 2}, {".a", 3}, {"b", 1}, {"a", 0}}
	alpha := small
	nthreads, maxLen, bound := 2, 2, 3
	model_ := vrt.CostDelay
	var scns []*vrt.Scenario
	add := func(ss [][]op, b int) {
		cp := ss
		scns = append(scns, &vrt.Scenario{
			Name:  fmt.Sprintf("%s (bound %d)", scriptName(cp), b),
			Cfg:   vrt.Config{Groups: map[string]bool{"c19": true}, Horizon: time.Hour},
			Model: model_,
			Bound: b,
			New:   func() vrt.Exec { return &exec{scripts: cp} },
		})
	}
	pairs := func(al []op, b int) {
		all := scripts(al, maxLen)
		for i := range all {
			for j := i; j < len(all); j++ {
				add([][]op{all[i], all[j]}, b)
			}
		}
	}
	// reconfiguration while points flow: two script pairs x every admin operation
	for ri := 1; ri < len(reconfs); ri++ {
		for _, ss := range [][][]op{{{{"a", 2}, {"a", 1}}, {{"a", 2}}}, {{{"a", 2}, {".a", 2}}, {{"a", 1}}}} {
			ri, cp := ri, ss
			scns = append(scns, &vrt.Scenario{
				Name:  fmt.Sprintf("%s || admin %s (bound 2)", scriptName(cp), reconfs[ri].name),
				Cfg:   vrt.Config{Groups: map[string]bool{"c19": true}, Horizon: time.Hour},
				Model: model_, Bound: 2,
				New: func() vrt.Exec { return &exec{scripts: cp, reconf: ri} },
			})
		}
	}
	// name identity: the watermark is per name. One dispatcher, every ordered pair of names that a
	// shortcut in the key computation could confuse (permutations of the same bytes, bytes that
	// occur twice, case, a trailing dot, a common prefix or suffix): n1@2 then n2@1, the second
	// point is the first of its name and must be accepted.
	ident := []string{"ab", "ba", "x", "xyy", "yxy", "a.b", "b.a", "A.b", "a.b.", "a.bb", "aa.b"}
	for _, n1 := range ident {
		for _, n2 := range ident {
			if n1 != n2 {
				add([][]op{{{n1, 2}, {n2, 1}, {n1, 2}, {n2, 1}}}, 0)
			}
		}
	}
	// timestamps around the 32-bit boundary (the relay keeps timestamps as uint32)
	for _, ss := range [][]op{{{"a", 4294967295}, {"a", 4294967295}}, {{"a", 4294967294}, {"a", 4294967295}}, {{"a", 100}, {"a", 4294967301}}} {
		add([][]op{ss}, 0)
	}
	if !rep.Thorough() {
		pairs(small, bound)
	} else {
		// thorough: the larger alphabet at bound 3, the small one at bound 4, three dispatchers at bound 3
		alpha = big
		pairs(big, 3)
		pairs(small, 4)
		bound = 4
		for i := range big {
			for j := i; j < len(big); j++ {
				for k := j; k < len(big); k++ {
					add([][]op{{big[i]}, {big[j]}, {big[k]}}, 3)
				}
			}
		}
	}
	_ = nthreads
	rep.Assume = []string{
		"every dispatcher hands its lines over in one reused buffer and overwrites it after each hand-off (as input.Plain does with the scanner's buffer)",
		"interleavings at statement granularity inside validate.Ordered (vrt.YieldG before every statement), at synchronisation operations elsewhere; sequential consistency",
		fmt.Sprintf("delay bound %d; scripts over alphabet %v, <=%d points per dispatcher", bound, alpha, maxLen),
		fmt.Sprintf("name identity: one dispatcher, n1@2 n2@1 n1@2 n2@1 for every ordered pair of distinct names of %v", ident),
	}
	e1 := &kit.E1{Rep: rep, Scenarios: scns, Deadline: rep.Deadline(150*time.Second, 20*time.Minute)}
	// a known finding is one script, not the oracle class: the signature names the scenario
	e1.SigOf = func(scn, msg string) string { return strings.SplitN(msg, "\n", 2)[0] + " | " + scn }
	cov := e1.Run()
	if cov != nil {
		cov["bound"] = bound
		cov["cost_model"] = "delay (every non-default scheduling choice costs 1; base order: running thread first, then ascending thread id)"
	}
	rep.Finish(cov)
}
