// C04: the forwarded line is the rewritten name + the value and timestamp
// tokens byte for byte, single-space separated, identical for every consumer;
// the caller's buffer is neither modified nor retained.
//
// Engine E4 (bounded-exhaustive, free-running, uninstrumented). The space
//
//	names x whitespace layouts x value spellings x timestamp spellings x rewriter lists (length 0..2)
//
// is enumerated completely, simplest first, through the real table with four
// consumers: two capture routes, one real aggregator (injected clock) and one
// real sendAllMatch route -> destination -> TCP connection to a loopback
// listener owned by the harness (bytes on the wire).
//
// Part D hands every line to Table.Dispatch in a caller-owned buffer which is
// compared with a pristine copy when Dispatch returns and then overwritten
// with 0xFF *while the aggregator still holds the metric in its inbox* (its
// run loop is parked inside the injected clock) and while the destination
// still holds the line in its queues; everything the consumers kept is
// compared (again) afterwards.
// Part P pushes the same lines as one stream through the real
// input.Plain.Handle behind a 1-byte-at-a-time reader (and a whole-stream
// reader), where bufio.Scanner really reuses its buffer.
//
// Exact barriers only: harn.AggRest, Destination.Flush + a sentinel line on
// the wire. No sleeps, no wall-clock oracles.
package main

import (
	"bufio"
	"bytes"
	"fmt"
	"io"
	"net"
	"os"
	"runtime"
	"sort"
	"strconv"
	"strings"
	"time"

	"github.com/grafana/carbon-relay-ng/aggregator"
	"github.com/grafana/carbon-relay-ng/destination"
	"github.com/grafana/carbon-relay-ng/input"
	"github.com/grafana/carbon-relay-ng/matcher"
	"github.com/grafana/carbon-relay-ng/rewriter"
	"github.com/grafana/carbon-relay-ng/route"
	"github.com/grafana/carbon-relay-ng/table"
	"github.com/grafana/carbon-relay-ng/validate"
	m20 "github.com/metrics20/go-metrics20/carbon20"
	log "github.com/sirupsen/logrus"

	"verif/mc/harn"
	"verif/mc/kit"
	"verif/mc/ref"
)

var rep *kit.Reporter

// ---------------------------------------------------------------------------
// the enumerated space

// 8 names that collide with the rewriters: one / several / no "a", a "b"
// somewhere / at the end (the not-clauses), an "a" followed / not followed by
// another byte (the /a(.)/ rule), overlapping candidates ("aa").
var names = []string{"a", "b", "ab", "aa", "a.a", "ba", "aab.ab", "c.d"}

type layout struct {
	id  string
	fmt func(n, v, t string) string
}

var layouts = []layout{
	{"n v t", func(n, v, t string) string { return n + " " + v + " " + t }},
	{"n  v t", func(n, v, t string) string { return n + "  " + v + " " + t }},
	{" n v t", func(n, v, t string) string { return " " + n + " " + v + " " + t }},
	{`n\tv t `, func(n, v, t string) string { return n + "\t" + v + " " + t + " " }},
}

// numeric spellings, used for the value and for the timestamp. The last one
// is a hex float whose mantissa digit collides with the literal rewriters.
var spellings = []string{"1", "1.50", "1e3", "0x1p-2", "+5", "-0", "007", "0xap-1"}

var baseRules = []ref.RewriteRule{
	{Old: "a", New: "b", Max: 1},
	{Old: "a", New: "b", Max: -1},
	{Old: "a", New: "b", Max: 0},
	{Old: "a", New: "", Max: -1},
	{Old: "/a(.)/", New: "${1}x", Max: -1},
	{Old: "/^/", New: "p.", Max: -1},
	// regex rules whose pattern is nothing but literals (with and without anchors, escapes, a group):
	// still regex rules: ${n} expands, anchors anchor
	{Old: "/a/", New: "${0}${0}", Max: -1},
	{Old: "/^a$/", New: "c", Max: -1},
	{Old: `/(\.)b/`, New: "$1$1", Max: -1},
}

var nots = []string{"", "b", "/b$/"}

func ruleAlphabet() []ref.RewriteRule {
	var out []ref.RewriteRule
	for _, not := range nots {
		for _, r := range baseRules {
			r.Not = not
			out = append(out, r)
		}
	}
	return out
}

// all rule lists of length 0..2, simplest first
func ruleLists() [][]ref.RewriteRule {
	al := ruleAlphabet()
	out := [][]ref.RewriteRule{{}}
	for _, r := range al {
		out = append(out, []ref.RewriteRule{r})
	}
	for _, r1 := range al {
		for _, r2 := range al {
			out = append(out, []ref.RewriteRule{r1, r2})
		}
	}
	return out
}

type lineCase struct {
	name, lay, v, t string
	line            string
}

// value/timestamp pairs: all of them, or (quick) every spelling at least twice
// in both positions.
func pairs(all bool) [][2]int {
	var out [][2]int
	n := len(spellings)
	for i := 0; i < n; i++ {
		for j := 0; j < n; j++ {
			if all || j == i || j == (i+3)%n {
				out = append(out, [2]int{i, j})
			}
		}
	}
	return out
}

func lineCases(all bool) []lineCase {
	var out []lineCase
	for _, p := range pairs(all) {
		for _, l := range layouts {
			for _, n := range names {
				v, t := spellings[p[0]], spellings[p[1]]
				out = append(out, lineCase{n, l.id, v, t, l.fmt(n, v, t)})
			}
		}
	}
	return out
}

// ---------------------------------------------------------------------------
// the environment: one table, one destination + listener, one aggregator

type env struct {
	t        *table.Table
	c1, c2   *harn.Capture
	d        *destination.Destination
	wire     chan string // complete lines received by the loopback endpoint
	sentinel int
	agg      *aggregator.Aggregator
	aggOut   chan []byte
	tick     chan time.Time
	now      time.Time
	armed    bool
	entered  chan struct{}
	release  chan struct{}
	deadline time.Time
}

const primerName = "~primer"
const aggInbox = 8192

func newEnv() *env {
	e := &env{wire: make(chan string, 1<<16), entered: make(chan struct{}), release: make(chan struct{})}
	cfg, err := table.NewTableConfig("/tmp/verif-nospool", "1h", validate.LevelLegacy{Level: m20.MediumLegacy}, validate.LevelM20{Level: m20.MediumM20}, false)
	if err != nil {
		panic(err)
	}
	e.t = table.New(cfg)
	e.c1 = harn.NewCapture("cap1", matcher.Matcher{})
	e.c2 = harn.NewCapture("cap2", matcher.Matcher{})

	// loopback endpoint
	ln, err := net.Listen("tcp", "127.0.0.1:0")
	if err != nil {
		panic(err)
	}
	go func() {
		c, err := ln.Accept()
		if err != nil {
			return
		}
		r := bufio.NewReaderSize(c, 1<<16)
		for {
			l, err := r.ReadString('\n')
			if err != nil {
				close(e.wire)
				return
			}
			e.wire <- l[:len(l)-1]
		}
	}()
	// connBufSize 20000 lines: a batch (<= 2048 lines + sentinel) can never be dropped as "slow conn"
	d, err := destination.New("c04", matcher.Matcher{}, ln.Addr().String(), "/tmp/verif-nospool", false, false, 2*time.Millisecond, time.Hour, 20000, 1<<16, 10, 1000, 1000, time.Second, 0, 0)
	if err != nil {
		panic(err)
	}
	e.d = d
	r, err := route.NewSendAllMatch("c04", matcher.Matcher{}, []*destination.Destination{d})
	if err != nil {
		panic(err)
	}
	// wait until the destination's relay loop owns a connection: a probe that is not
	// counted as dropped has been queued on the connection (Flush is served by the relay
	// loop after the probe was taken from the unbuffered In channel).
	t0 := time.Now()
	dropKey := "dest=" + d.Key + ".unit=Metric.action=drop.reason=conn_down_no_spool"
	for {
		c0 := harn.Count(dropKey)
		d.In <- []byte("~probe 0 0")
		d.Flush()
		if harn.Count(dropKey) == c0 {
			break
		}
		if time.Since(t0) > 2*time.Minute {
			rep.Infra = "destination never came online"
			rep.Finish(map[string]interface{}{})
		}
		runtime.Gosched()
	}
	e.syncWire() // discards the probe

	// aggregator: key shows the name it was handed; clock injected; now() doubles as a
	// gate that parks the single-threaded run loop while it creates the primer's bucket.
	e.aggOut = make(chan []byte, aggInbox)
	e.tick = make(chan time.Time)
	e.now = time.Unix(0, 0)
	nowFn := func() time.Time {
		if e.armed {
			e.armed = false
			e.entered <- struct{}{}
			<-e.release
		}
		return e.now
	}
	a, err := aggregator.NewMocked("sum", harn.MustMatcher("", "", "", "", "(.*)", ""), "agg.$1", false, 1, 0, false, e.aggOut, aggInbox, nowFn, e.tick)
	if err != nil {
		panic(err)
	}
	e.agg = a
	e.t.AddAggregator(a)
	e.t.AddRoute(e.c1)
	e.t.AddRoute(r)
	e.t.AddRoute(e.c2)
	return e
}

// syncWire pushes a sentinel line through the destination and returns every
// line that reached the endpoint before it (one FIFO path: destination relay
// loop -> connection queue -> buffered writer -> TCP stream). The connection's
// writer goroutine may serve a flush request before it has drained its queue,
// so the explicit Flush only speeds things up; the connection's own flush
// ticker (2 ms) pushes out the rest. The harness blocks on the endpoint's line
// channel: what is observed (the byte stream up to the sentinel) does not
// depend on timing.
func (e *env) syncWire() []string {
	e.sentinel++
	s := fmt.Sprintf("~sentinel.%d 0 0", e.sentinel)
	e.d.In <- []byte(s)
	e.d.Flush()
	var got []string
	hang := time.NewTimer(5 * time.Minute) // hang protection only (a broken connection), never reached on a passing run
	defer hang.Stop()
	for {
		select {
		case l, ok := <-e.wire:
			if !ok {
				rep.Infra = "loopback connection closed"
				rep.Finish(map[string]interface{}{})
			}
			if l == s {
				return got
			}
			got = append(got, l)
		case <-hang.C:
			rep.Infra = "sentinel line never arrived on the wire"
			rep.Finish(map[string]interface{}{})
		}
	}
}

// park makes the aggregator's run loop stop inside now() while it files a
// primer point; everything handed to the aggregator until unpark() stays in
// its inbox.
func (e *env) park() {
	e.armed = true
	e.agg.AddMaybe([][]byte{[]byte(primerName), []byte("1"), []byte("9")}, 1, 9)
	<-e.entered
}

func (e *env) unpark() {
	e.release <- struct{}{}
	harn.AggRest(e.agg)
}

// flushAgg makes the aggregator emit everything it holds and returns it
// (without the primer), sorted.
func (e *env) flushAgg() (out []string, primerSeen bool) {
	e.now = time.Unix(5000, 0)
	e.tick <- e.now
	harn.AggRest(e.agg)
	e.now = time.Unix(0, 0)
	for len(e.aggOut) > 0 {
		s := string(<-e.aggOut)
		if s == "agg."+primerName+" 1.000000 9" {
			primerSeen = true
			continue
		}
		out = append(out, s)
	}
	sort.Strings(out)
	return
}

func (e *env) setRules(rules []ref.RewriteRule) {
	for e.t.DelRewriter(0) == nil {
	}
	for _, r := range rules {
		rw, err := rewriter.New(r.Old, r.New, r.Not, r.Max)
		if err != nil {
			panic(fmt.Sprintf("rewriter.New(%v): %v", r, err))
		}
		e.t.AddRewriter(rw)
	}
	if got := len(e.t.Snapshot().Rewriters); got != len(rules) {
		panic("rewriters not installed")
	}
}

func (e *env) resetCaptures() {
	e.c1.Lines, e.c1.Raw = nil, nil
	e.c2.Lines, e.c2.Raw = nil, nil
}

// ---------------------------------------------------------------------------
// oracle

type expect struct {
	name    string // rewritten name
	line    string // what every route / the wire must see
	agg     string // what the aggregator must emit for this single point
	aggOpt  bool   // the timestamp truncates to 0: the aggregator never keeps such a point (it is older than any clock), so its output is optional
	aggVal  float64
	aggTs   uint32
	changed bool
}

func expected(rules []ref.RewriteRule, c lineCase) expect {
	n := ref.Rewrite(rules, c.name)
	v, err1 := strconv.ParseFloat(c.v, 64)
	tf, err2 := strconv.ParseFloat(c.t, 64)
	if err1 != nil || err2 != nil {
		panic("spelling is not a number: " + c.v + " " + c.t)
	}
	ts := uint32(tf)
	return expect{
		name:    n,
		line:    n + " " + c.v + " " + c.t,
		agg:     fmt.Sprintf("agg.%s %f %d", n, v, ts),
		aggOpt:  ts == 0,
		aggVal:  v,
		aggTs:   ts,
		changed: n != c.name,
	}
}

// ---------------------------------------------------------------------------
// bookkeeping

var (
	evals       int64
	nontrivial  = map[string]bool{}
	samples     []interface{}
	retainedD   int64 // part D cases in which the aggregator verifiably held the metric while the buffer was overwritten
	retainedP   int64
	violations  int
	streamBytes int
)

const maxViolations = 12

type replayCase struct {
	Part   string            `json:"part"`
	Rules  []ref.RewriteRule `json:"rules"`
	Line   string            `json:"line,omitempty"`
	Reader string            `json:"reader,omitempty"`
	Where  string            `json:"consumer"`
	Got    string            `json:"got"`
	Want   string            `json:"want"`
}

func violation(part, where string, rules []ref.RewriteRule, line, reader, got, want, msg string) {
	violations++
	sig := fmt.Sprintf("%s %s rules=%s line=%q", part, where, ref.RulesString(rules), line)
	if reader != "" {
		sig += " reader=" + reader
	}
	what := fmt.Sprintf("%s, rewriters %s, line %q: %s: %s (got %q, want %q)", part, ref.RulesString(rules), line, where, msg, got, want)
	rep.Violation(sig, what, replayCase{part, rules, line, reader, where, got, want})
}

func sample(s interface{}) {
	if len(samples) < 14 {
		samples = append(samples, s)
	}
}

// ---------------------------------------------------------------------------
// Part D: Table.Dispatch on a caller-owned buffer

const guard = 8

func (e *env) runDirect(rules []ref.RewriteRule, cases []lineCase, verbose bool) {
	e.setRules(rules)
	e.resetCaptures()
	rs := ref.RulesString(rules)
	cb := make([]byte, 64) // the caller's buffer, reused for every line like a reader would
	wants := make([]expect, 0, len(cases))
	in0 := harn.Count("unit=Metric.direction=in")
	for ci, c := range cases {
		if violations >= maxViolations {
			cases = cases[:ci]
			break
		}
		w := expected(rules, c)
		wants = append(wants, w)
		n := len(c.line)
		if 2*guard+n > len(cb) {
			panic("line too long for the caller buffer")
		}
		region := cb[:guard+n+guard]
		for i := range region {
			region[i] = 0xA5
		}
		copy(region[guard:], c.line)
		pristine := append([]byte(nil), region...)

		e.park()
		e.t.Dispatch(region[guard : guard+n]) // capacity reaches into the trailing guard
		held := e.agg.VerifInLen()
		if !bytes.Equal(region, pristine) {
			violation("direct", "caller buffer", rules, c.line, "", string(region), string(pristine), "Dispatch modified the caller's buffer (or the bytes behind it)")
		}
		for i := range cb {
			cb[i] = 0xFF
		}
		if held == 1 {
			retainedD++
		}
		e.unpark()
		outs, primer := e.flushAgg()
		if !primer {
			violation("direct", "aggregator", rules, c.line, "", strings.Join(outs, "|"), "", "harness primer point was not emitted")
		}

		// capture routes: exactly one line each, the expected bytes
		for _, cap := range []*harn.Capture{e.c1, e.c2} {
			evals++
			if len(cap.Lines) != ci+1 {
				violation("direct", "route "+cap.K, rules, c.line, "", fmt.Sprint(len(cap.Lines)-ci), "1", "number of lines delivered for one accepted metric")
				// resynchronise so that later cases are judged on their own
				for len(cap.Lines) < ci+1 {
					cap.Lines = append(cap.Lines, "")
					cap.Raw = append(cap.Raw, nil)
				}
				cap.Lines, cap.Raw = cap.Lines[:ci+1], cap.Raw[:ci+1]
				continue
			}
			if cap.Lines[ci] != w.line {
				violation("direct", "route "+cap.K, rules, c.line, "", cap.Lines[ci], w.line, "delivered line differs from rewritten name + value token + timestamp token")
			} else if string(cap.Raw[ci]) != w.line {
				violation("direct", "route "+cap.K, rules, c.line, "", string(cap.Raw[ci]), w.line, "the delivered slice changed when the caller overwrote its buffer (aliased)")
			}
		}
		// aggregator: the name it was handed, the parsed value and timestamp
		evals++
		switch {
		case len(outs) == 1 && outs[0] == w.agg:
		case len(outs) == 0 && w.aggOpt:
		default:
			violation("direct", "aggregator", rules, c.line, "", strings.Join(outs, "|"), w.agg, "aggregation output does not show the rewritten name with the value/timestamp received (the metric was in the aggregator's inbox while the caller overwrote its buffer)")
		}
		if verbose {
			fmt.Fprintf(rep.Out, "line %q rules %s\n  want %q\n  cap1 %q\n  cap2 %q\n  agg  %q (want %q)\n", c.line, rs, w.line, e.c1.Lines[ci], e.c2.Lines[ci], outs, w.agg)
		}
		if w.changed {
			nontrivial[rs+"|"+c.name] = true
		}
	}
	// counters: every line was accepted
	if d := harn.Count("unit=Metric.direction=in") - in0; d != int64(len(cases)) {
		violation("direct", "counter direction=in", rules, "", "", fmt.Sprint(d), fmt.Sprint(len(cases)), "lines counted in")
	}
	// the wire, after every caller buffer has been overwritten
	got := e.syncWire()
	e.compareWire("direct", "", rules, cases, wants, got, verbose)
	// what the capture routes retained: never altered later
	for _, cap := range []*harn.Capture{e.c1, e.c2} {
		for i := range cases {
			evals++
			if i < len(cap.Raw) && cap.Lines[i] == wants[i].line && string(cap.Raw[i]) != wants[i].line {
				violation("direct", "route "+cap.K+" (retained)", rules, cases[i].line, "", string(cap.Raw[i]), wants[i].line, "a delivered slice was altered after delivery")
			}
		}
	}
}

func (e *env) compareWire(part, reader string, rules []ref.RewriteRule, cases []lineCase, wants []expect, got []string, verbose bool) {
	if verbose {
		fmt.Fprintf(rep.Out, "  wire %q\n", got)
	}
	for i := range cases {
		evals++
		if i >= len(got) {
			violation(part, "wire", rules, cases[i].line, reader, "", wants[i].line, fmt.Sprintf("only %d of %d lines reached the endpoint", len(got), len(cases)))
			return
		}
		if got[i] != wants[i].line {
			violation(part, "wire", rules, cases[i].line, reader, got[i], wants[i].line, "bytes received by the TCP endpoint differ from rewritten name + value token + timestamp token")
			if len(got) != len(cases) {
				return // framing lost, later lines cannot be attributed
			}
		}
	}
	if len(got) > len(cases) {
		violation(part, "wire", rules, "", reader, got[len(cases)], "", fmt.Sprintf("%d lines reached the endpoint for %d metrics", len(got), len(cases)))
	}
}

// ---------------------------------------------------------------------------
// Part P: the same lines as a stream through input.Plain.Handle

type chunkReader struct {
	data []byte
	n    int // bytes per Read; 0 = as many as fit
}

func (r *chunkReader) Read(p []byte) (int, error) {
	if len(r.data) == 0 {
		return 0, io.EOF
	}
	n := len(p)
	if r.n > 0 && r.n < n {
		n = r.n
	}
	if n > len(r.data) {
		n = len(r.data)
	}
	copy(p, r.data[:n])
	r.data = r.data[n:]
	return n, nil
}

// spy is what the input plugin dispatches to: the real table, observed.
type spy struct {
	e        *env
	rules    []ref.RewriteRule
	reader   string
	seen     []string
	modified int
}

func (s *spy) Dispatch(buf []byte) {
	pristine := string(buf)
	s.seen = append(s.seen, pristine)
	s.e.t.Dispatch(buf)
	if string(buf) != pristine {
		s.modified++
		if s.modified <= 2 {
			violation("plain", "caller buffer", s.rules, pristine, s.reader, string(buf), pristine, "Dispatch modified the scanner's buffer")
		}
	}
	// the hand-off has returned: the reader may do what it likes with its buffer
	for i := range buf {
		buf[i] = 0xFF
	}
}
func (s *spy) IncNumInvalid() { s.e.t.IncNumInvalid() }

func (e *env) runPlain(rules []ref.RewriteRule, cases []lineCase, chunk int) {
	if violations >= maxViolations {
		return
	}
	e.setRules(rules)
	e.resetCaptures()
	reader := "1-byte"
	if chunk == 0 {
		reader = "whole-stream"
	}
	var stream []byte
	wants := make([]expect, len(cases))
	for i, c := range cases {
		wants[i] = expected(rules, c)
		stream = append(stream, c.line...)
		if i != len(cases)-1 { // the last line ends at EOF without a newline
			stream = append(stream, '\n')
		}
	}
	sp := &spy{e: e, rules: rules, reader: reader}
	streamBytes = len(stream)
	e.park()
	err := input.NewPlain(sp).Handle(&chunkReader{data: stream, n: chunk})
	held := e.agg.VerifInLen()
	if held == len(cases) {
		retainedP += int64(held)
	}
	e.unpark()
	outs, _ := e.flushAgg()
	if err != nil {
		violation("plain", "Handle", rules, "", reader, err.Error(), "", "Plain.Handle returned an error")
	}
	// the plugin handed over exactly the lines of the stream
	evals += int64(len(cases))
	if len(sp.seen) != len(cases) {
		violation("plain", "Handle", rules, "", reader, fmt.Sprint(len(sp.seen)), fmt.Sprint(len(cases)), "number of lines dispatched")
		return
	}
	for i, c := range cases {
		if sp.seen[i] != c.line {
			violation("plain", "Handle", rules, c.line, reader, sp.seen[i], c.line, "line handed to Dispatch (a previous hand-off wrote behind its buffer?)")
			return
		}
	}
	// capture routes
	for _, cap := range []*harn.Capture{e.c1, e.c2} {
		if len(cap.Lines) != len(cases) {
			violation("plain", "route "+cap.K, rules, "", reader, fmt.Sprint(len(cap.Lines)), fmt.Sprint(len(cases)), "number of lines delivered")
			continue
		}
		bad := 0
		for i, c := range cases {
			evals++
			if string(cap.Raw[i]) != wants[i].line || cap.Lines[i] != wants[i].line {
				if bad++; bad <= 2 {
					violation("plain", "route "+cap.K, rules, c.line, reader, cap.Lines[i]+" / later "+string(cap.Raw[i]), wants[i].line, "delivered line (at delivery / after the scanner reused its buffer)")
				}
			}
		}
	}
	// aggregator: all points were in its inbox while the scanner went on; sums per (rewritten name, ts)
	type k struct {
		name string
		ts   uint32
	}
	sums := map[k]float64{}
	for _, w := range wants {
		sums[k{w.name, w.aggTs}] += w.aggVal // all values are small dyadic rationals: the sum is exact in any order
	}
	must, may := map[string]bool{}, map[string]bool{}
	for kk, v := range sums {
		s := fmt.Sprintf("agg.%s %f %d", kk.name, v, kk.ts)
		if kk.ts == 0 {
			may[s] = true
		} else {
			must[s] = true
		}
	}
	evals += int64(len(must))
	seen := map[string]bool{}
	bad := 0
	for _, o := range outs {
		if (!must[o] && !may[o]) || seen[o] {
			if bad++; bad <= 2 {
				violation("plain", "aggregator", rules, "", reader, o, "", "aggregation output that no (rewritten name, timestamp, sum of values) of the stream explains: the queued metric changed while the scanner reused its buffer")
			}
		}
		seen[o] = true
	}
	var missing []string
	for s := range must {
		if !seen[s] {
			missing = append(missing, s)
		}
	}
	sort.Strings(missing)
	if len(missing) > 0 {
		violation("plain", "aggregator", rules, "", reader, "", missing[0], fmt.Sprintf("%d expected aggregation outputs missing", len(missing)))
	}
	// the wire
	got := e.syncWire()
	e.compareWire("plain", reader, rules, cases, wants, got, false)
}

// ---------------------------------------------------------------------------

func replay(e *env, path string) {
	var rc replayCase
	if err := kit.LoadReplay(path, &rc); err != nil {
		fmt.Fprintln(os.Stderr, err)
		os.Exit(2)
	}
	fmt.Fprintf(rep.Out, "replaying %s: part %s consumer %s\n", path, rc.Part, rc.Where)
	f := strings.Fields(rc.Line)
	if len(f) != 3 {
		fmt.Fprintln(rep.Out, "replay has no single line; re-running the whole stream of the configuration")
		all := lineCases(true)
		e.runPlain(rc.Rules, all, 1)
		e.runPlain(rc.Rules, all, 0)
	} else {
		c := lineCase{name: f[0], v: f[1], t: f[2], line: rc.Line}
		e.runDirect(rc.Rules, []lineCase{c}, true)
	}
	// a replay does not touch the evidence file
	if rep.Violations() > 0 {
		fmt.Fprintf(rep.Out, "FAIL property=C04 replay reproduces %d violation(s)\n", rep.Violations())
		os.Exit(1)
	}
	fmt.Fprintln(rep.Out, "OK property=C04 replay: no violation on this tree")
	os.Exit(0)
}

func main() {
	rep = kit.New("C04", "exploration")
	log.SetLevel(log.PanicLevel)
	log.SetOutput(io.Discard)
	rep.Quiet()
	aggregator.InitMetrics()

	e := newEnv()
	e.deadline = rep.Deadline(50*time.Second, 13*time.Minute)
	if rep.ReplayOnly != "" {
		replay(e, rep.ReplayOnly)
		return
	}

	// C04_ONLY=direct|plain restricts the run to one part (diagnosis of mutants only; the
	// evidence then says exhaustive=false)
	only := os.Getenv("C04_ONLY")
	lists := ruleLists()
	directCases := lineCases(rep.Thorough())
	streamCases := directCases // quick: 512 lines, ~6 KB; thorough: 2048 lines, ~23 KB; the scanner's buffer is 4 KB
	done := 0
	exhaustive := true
	for _, rules := range lists {
		if time.Now().After(e.deadline) {
			exhaustive = false
			break
		}
		if violations >= maxViolations {
			break
		}
		if only == "" || only == "direct" {
			e.runDirect(rules, directCases, false)
		}
		if only == "" || only == "plain" {
			e.runPlain(rules, streamCases, 1)
			e.runPlain(rules, streamCases, 0)
		}
		done++
		if done == 1 || done == 2 || done == 20 || done == len(lists) {
			c := directCases[(done*7)%len(directCases)]
			w := expected(rules, c)
			sample(map[string]interface{}{"rules": ref.RulesString(rules), "line": c.line, "delivered": w.line, "aggregated": w.agg})
		}
	}
	// thorough: order and chaining one level deeper - every rule list of length 3, on all
	// names x layouts with two spelling pairs (direct part only; streams this short do not
	// make the scanner reuse its buffer)
	lists3, done3 := 0, 0
	if rep.Thorough() && only != "plain" {
		var short []lineCase
		for _, sp := range []string{"1", "0xap-1"} {
			for _, l := range layouts {
				for _, n := range names {
					short = append(short, lineCase{n, l.id, sp, sp, l.fmt(n, sp, sp)})
				}
			}
		}
		al := ruleAlphabet()
		lists3 = len(al) * len(al) * len(al)
	outer:
		for _, r1 := range al {
			for _, r2 := range al {
				for _, r3 := range al {
					if time.Now().After(e.deadline) {
						exhaustive = false
						break outer
					}
					if violations >= maxViolations {
						break outer
					}
					e.runDirect([]ref.RewriteRule{r1, r2, r3}, short, false)
					done3++
				}
			}
		}
	}
	slow := harn.Count("dest=" + e.d.Key + ".unit=Metric.action=drop.reason=slow_conn")
	if slow != 0 {
		rep.Infra = fmt.Sprintf("destination dropped %d lines as slow_conn: harness queue sizing is wrong", slow)
	}
	e.t.DelRoute("c04")

	rep.Assume = []string{
		fmt.Sprintf("names %v; layouts n v t | n  v t |  n v t | n\\tv t ; value and timestamp spellings %v; rewriter alphabet %s; lists of length 0..2 (thorough additionally: all lists of length 3 on names x layouts x the spellings 1 and 0xap-1, direct part)", names, spellings, ref.RulesString(ruleAlphabet())),
		"a not-clause is evaluated on the name as it stands when the rule is reached (rules are 'processed in series'); max=0 replaces nothing (docs/rewriting.md: 'maximum number of matched items to be replaced'; statement: 'the first max occurrences'; code: bytes.Replace n=0 - all three agree); max=-1 replaces all (statement, docs/config.md, code agree; only the comment 'replace first occurrence' above the first max=-1 example in docs/rewriting.md says otherwise and is taken to be a slip of the documentation)",
		"aggregator observed with fun=sum, regex (.*), format agg.$1, interval 1, wait 0, injected clock; a timestamp token that truncates to 0 can never be aggregated (older than any clock), its output is optional",
		"exact barriers: aggregator inbox empty + Snapshot round trip; a sentinel line sent through the destination after each batch, the harness blocks until it has arrived at the endpoint (FIFO path, so everything before it is the batch)",
		fmt.Sprintf("direct part: value x timestamp spelling pairs = %d of %d (thorough: all)", len(pairs(rep.Thorough())), len(spellings)*len(spellings)),
	}
	sample(map[string]interface{}{"part": "plain", "stream_lines": len(streamCases), "stream_bytes": streamBytes, "readers": []string{"1-byte", "whole-stream"}, "scanner_buffer": 4096})
	rep.Finish(map[string]interface{}{
		"evaluations":                           evals,
		"distinct_nontrivial":                   len(nontrivial),
		"rule":                                  "one evaluation = one consumer observation (capture route / aggregator output / wire line / retained slice) compared with the reference; non-trivial = distinct (rewriter list, name) for which the reference rewriter changes the name, i.e. some rule fires",
		"samples":                               samples,
		"exhaustive":                            exhaustive && violations == 0 && only == "",
		"rewriter_lists_done":                   done,
		"rewriter_lists":                        len(lists),
		"rewriter_lists_len3_done":              done3,
		"rewriter_lists_len3":                   lists3,
		"direct_cases_per_list":                 len(directCases),
		"stream_lines_per_list":                 len(streamCases),
		"retained_while_overwritten_direct":     retainedD,
		"retained_while_reader_continued_plain": retainedP,
	})
}
