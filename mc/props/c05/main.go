// C05: a healthy carbon connection carries the lines in order, once, unbroken.
//
// Part 1 (explicit-state): every sequence of Write(p)/Flush operations up to a
// depth on the real destination.Writer for buffer sizes 1..8 over a sink that
// accepts everything: sink ++ pending buffer == concatenation of the inputs
// after every operation.
// Part 2 (schedules): the real path route -> Destination.relay -> Conn.In ->
// HandleData -> Writer -> modelled TCP endpoint under the controlled
// scheduler: all schedules within the deviation bound, for a grid of line
// lengths, iobuf and connbuf sizes, plain and pickle mode, with the driver
// choosing to sleep across a flush tick or not between hand-offs.
package main

import (
	"bytes"
	"encoding/binary"
	"fmt"
	"io"
	"os"
	"strings"
	"time"

	"github.com/grafana/carbon-relay-ng/destination"
	"github.com/grafana/carbon-relay-ng/matcher"
	"github.com/grafana/carbon-relay-ng/route"
	log "github.com/sirupsen/logrus"

	"verif/mc/destharn"
	"verif/mc/harn"
	"verif/mc/kit"
	"verif/mc/vrt"
)

// ---------------------------------------------------------------------------
// part 1: the buffered writer

type sink struct{ b []byte }

func (s *sink) Write(p []byte) (int, error) { s.b = append(s.b, p...); return len(p), nil }

type writerExec struct {
	depth   int
	sizes   []int
	viol    string
	cases   int64
	states  map[string]bool
	ntrans  int64
	example string
}

func (e *writerExec) Body() {
	lens := []int{1, 2, 3, 5, 9, 20}
	e.states = map[string]bool{}
	for _, size := range e.sizes {
		// every operation sequence: op k < len(lens) = Write(lens[k] bytes), op len(lens) = Flush
		nops := len(lens) + 1
		seq := make([]int, 0, e.depth)
		var rec func()
		rec = func() {
			if e.viol != "" {
				return
			}
			if len(seq) > 0 {
				// run the sequence from scratch on a fresh writer
				s := &sink{}
				w := destination.NewWriter(s, size, "c05w")
				var want []byte
				ctr := byte(0)
				for step, op := range seq {
					if op == len(lens) {
						if err := w.Flush(); err != nil {
							e.viol = fmt.Sprintf("writer size %d ops %v: Flush error %v", size, seq[:step+1], err)
							return
						}
						if w.Buffered() != 0 {
							e.viol = fmt.Sprintf("writer size %d ops %v: %d bytes still buffered after Flush", size, seq[:step+1], w.Buffered())
							return
						}
					} else {
						p := make([]byte, lens[op])
						for i := range p {
							ctr++
							p[i] = 'a' + ctr%26
						}
						want = append(want, p...)
						n, err := w.Write(p)
						if err != nil || n != len(p) {
							e.viol = fmt.Sprintf("writer size %d ops %v: Write returned (%d, %v) for %d bytes", size, seq[:step+1], n, err, len(p))
							return
						}
					}
					e.ntrans++
					if len(s.b) > len(want) || !bytes.Equal(s.b, want[:len(s.b)]) || len(s.b)+w.Buffered() != len(want) {
						e.viol = fmt.Sprintf("writer size %d ops %v: sink has %q with %d bytes pending, inputs so far %q", size, seq[:step+1], s.b, w.Buffered(), want)
						return
					}
					e.states[fmt.Sprintf("%d/%d", size, w.Buffered())] = true
				}
				if err := w.Flush(); err != nil || !bytes.Equal(s.b, want) {
					e.viol = fmt.Sprintf("writer size %d ops %v + final Flush: sink %q, inputs %q (err %v)", size, seq, s.b, want, err)
					return
				}
				e.cases++
				if e.cases%20000 == 0 {
					for k := 0; k < 16; k++ {
						vrt.Yield() // long enumeration inside one execution: tell the watchdog we are alive
					}
				}
				e.example = fmt.Sprintf("size %d ops %v", size, seq)
			}
			if len(seq) == e.depth {
				return
			}
			for op := 0; op < nops; op++ {
				seq = append(seq, op)
				rec()
				seq = seq[:len(seq)-1]
			}
		}
		rec()
	}
}

func (e *writerExec) Check(r *vrt.Result) (string, string) {
	if len(r.Panics) > 0 {
		return "panic", "panic: " + r.Panics[0].Value + "\n" + r.Panics[0].Stack
	}
	return "writer", e.viol
}

func (e *writerExec) Counts() map[string]int64 {
	return map[string]int64{"writer_sequences": e.cases, "writer_operations": e.ntrans, "writer_states": int64(len(e.states))}
}

// ---------------------------------------------------------------------------
// part 2: the real path under the scheduler

type params struct {
	lines   []string
	iobuf   int
	connbuf int
	pickle  bool
	flush   bool // an operator flushes the route by hand (Route.Flush) at any moment of the traffic
	// second: the first connection's peer closes after one write; the destination reconnects (30 s) and
	// the second half of the lines goes to the second, healthy connection
	second bool
}

func (p params) String() string {
	var ls []string
	for _, l := range p.lines {
		ls = append(ls, fmt.Sprint(len(l)))
	}
	return fmt.Sprintf("lines(len)=%s iobuf=%d connbuf=%d pickle=%v manualflush=%v%s", strings.Join(ls, ","), p.iobuf, p.connbuf, p.pickle, p.flush, map[bool]string{true: " second-connection"}[p.second])
}

type pathExec struct {
	p      params
	net    *destharn.Net
	viol   string
	out    string
	sleeps []int
}

const destAddr = "10.1.1.1:2003"

func (e *pathExec) Body() {
	e.net = &destharn.Net{Up: true, Mode: destharn.ReadAll}
	if e.p.second {
		e.net.CloseFirstAfterWrites = 1
	}
	vrt.SetEnv("net", e.net)
	d, err := destination.New("r", matcher.Matcher{}, destAddr, "/nospool", false, e.p.pickle, time.Second, 30*time.Second, e.p.connbuf, e.p.iobuf, 10, 1000, 1000, time.Second, 0, 0)
	if err != nil {
		panic(err)
	}
	rt, err := route.NewSendAllMatch("r", matcher.Matcher{}, []*destination.Destination{d})
	if err != nil {
		panic(err)
	}
	vrt.Quiesce() // the connection is up
	key := d.Key
	c0 := counters(key)
	flushed := !e.p.flush
	if e.p.flush {
		vrt.GoNamed("manual-flush", func() {
			if err := rt.Flush(); err != nil && e.viol == "" {
				e.viol = "Route.Flush on a healthy connection returned " + err.Error()
			}
			flushed = true
		})
	}
	for i, l := range e.p.lines {
		if i > 0 {
			s := vrt.Choose(2, "sleep across a flush tick")
			e.sleeps = append(e.sleeps, s)
			if s == 1 {
				vrt.Sleep(1100 * time.Millisecond)
			}
		}
		if e.p.second && i == len(e.p.lines)/2 {
			vrt.Sleep(65 * time.Second) // two reconnect ticks (30 s): the first may still find the dead connection in place
			vrt.Quiesce()
		}
		rt.Dispatch([]byte(l))
	}
	vrt.WaitUntil("manual flush returned", func() bool { return flushed })
	vrt.Sleep(2500 * time.Millisecond) // at least two more flush ticks
	vrt.Quiesce()
	c1 := counters(key)
	if e.viol != "" {
		return
	}
	if e.p.second {
		e.judgeSecond()
		return
	}
	slow := c1["slow_conn"] - c0["slow_conn"]
	down := c1["conn_down"] - c0["conn_down"]
	outN := c1["out"] - c0["out"]
	recv := e.net.AllRecv()
	// what may legitimately be on the wire: the handed-off lines, in order, minus exactly `slow` of them
	// a line that passed validation but has no pickle representation (non-integer timestamp) must not
	// reach the stream in any form: it is counted as bad_pickle (or as slow_conn if it never got that far)
	var units [][]byte
	unrepresentable := 0
	for _, l := range e.p.lines {
		if e.p.pickle {
			dp, err := destination.ParseDataPoint([]byte(l))
			if err != nil {
				unrepresentable++
				continue
			}
			units = append(units, destination.Pickle(dp))
		} else {
			units = append(units, []byte(l+"\n"))
		}
	}
	bad := c1["bad_pickle"] - c0["bad_pickle"]
	got := 0
	rest := recv
	for _, u := range units {
		if bytes.HasPrefix(rest, u) {
			rest = rest[len(u):]
			got++
		}
	}
	e.out = fmt.Sprintf("recv=%d/%d slow=%d sleeps=%v", got, len(units), slow, e.sleeps)
	if len(e.net.Conns) != 1 {
		e.viol = fmt.Sprintf("expected exactly one connection to the healthy endpoint, saw %d", len(e.net.Conns))
		return
	}
	if len(rest) != 0 {
		e.viol = fmt.Sprintf("the endpoint's byte stream is not the handed-off lines in order, each once and whole: received %q, handed off %q", recv, e.p.lines)
		return
	}
	if e.p.pickle {
		// independent framing check: 4-byte big-endian length prefixes cover the stream exactly
		for b := recv; len(b) > 0; {
			if len(b) < 4 || int(binary.BigEndian.Uint32(b)) > len(b)-4 {
				e.viol = fmt.Sprintf("pickle stream framing broken: %x", recv)
				return
			}
			b = b[4+binary.BigEndian.Uint32(b):]
		}
	}
	if down != 0 {
		e.viol = fmt.Sprintf("conn_down_no_spool moved by %d although the endpoint was healthy throughout", down)
		return
	}
	if bad < 0 || bad > int64(unrepresentable) {
		e.viol = fmt.Sprintf("bad_pickle counted %d lines, %d of the handed-off lines have no pickle representation", bad, unrepresentable)
		return
	}
	if int64(len(units)-got)+int64(unrepresentable)-bad != slow {
		e.viol = fmt.Sprintf("%d of %d lines are missing from the stream (and %d unrepresentable ones were not counted as bad_pickle) but slow_conn counted %d: received %q", len(units)-got, len(units), int64(unrepresentable)-bad, slow, recv)
		return
	}
	if outN != int64(got)+bad {
		e.viol = fmt.Sprintf("direction=out counted %d lines, the endpoint received %d (bad_pickle %d)", outN, got, bad)
	}
}

// judgeSecond: the stream of every connection consists of whole handed-off lines in hand-off order, and no
// line reaches the endpoint twice (no spool: nothing is replayed); in particular the healthy second
// connection starts clean, whatever the first one left behind in its buffers.
func (e *pathExec) judgeSecond() {
	idx := map[string]int{}
	for i, l := range e.p.lines {
		idx[l] = i
	}
	seen := map[int]int{}
	e.out = fmt.Sprintf("connections=%d", len(e.net.Conns))
	for ci, c := range e.net.Conns {
		recv := string(c.Recv)
		if len(recv) > 0 && recv[len(recv)-1] != '\n' {
			if !c.PeerClosed {
				e.viol = fmt.Sprintf("connection %d (healthy): the stream ends in the middle of a line: %q", ci+1, c.Recv)
				return
			}
			// the peer closed this connection: what it got of the line being written then does not count
			recv = recv[:strings.LastIndexByte(recv, '\n')+1]
		}
		last := -1
		for _, l := range strings.Split(strings.TrimSuffix(recv, "\n"), "\n") {
			if len(recv) == 0 {
				break
			}
			i, ok := idx[l]
			switch {
			case !ok:
				e.viol = fmt.Sprintf("connection %d received %q, which is no handed-off line (stream %q, handed off %q)", ci+1, l, c.Recv, e.p.lines)
			case i <= last:
				e.viol = fmt.Sprintf("connection %d received %q out of hand-off order or twice (stream %q)", ci+1, l, c.Recv)
			case seen[i] > 0:
				e.viol = fmt.Sprintf("line %q reached the endpoint on connection %d and again on connection %d (spooling is off, nothing is replayed)", l, seen[i], ci+1)
			}
			if e.viol != "" {
				return
			}
			last, seen[i] = i, ci+1
		}
		e.out += fmt.Sprintf(" c%d=%d", ci+1, last)
	}
	if len(e.net.Conns) != 2 {
		e.viol = fmt.Sprintf("expected two connections (the first one closed by the peer), saw %d", len(e.net.Conns))
	}
}

func counters(key string) map[string]int64 {
	return map[string]int64{
		"slow_conn":  harn.Count("dest=" + key + ".unit=Metric.action=drop.reason=slow_conn"),
		"conn_down":  harn.Count("dest=" + key + ".unit=Metric.action=drop.reason=conn_down_no_spool"),
		"out":        harn.Count("dest=" + key + ".unit=Metric.direction=out"),
		"bad_pickle": harn.Count("dest=" + key + ".unit=Metric.action=drop.reason=bad_pickle"),
	}
}

func (e *pathExec) Check(r *vrt.Result) (string, string) {
	h := e.p.String()
	if len(r.Panics) > 0 {
		return e.out, "panic: " + r.Panics[0].Value + "\n" + h + "\n" + r.Panics[0].Stack
	}
	if r.StepLimit {
		return e.out, "livelock: step limit\n" + h
	}
	if !r.DriverDone {
		return "hang", fmt.Sprintf("hang: handing a line to the route never returned\n%s\nblocked: %v", h, r.Blocked)
	}
	if e.viol != "" {
		return e.out, e.viol + "\n" + h
	}
	return e.out, ""
}

func main() {
	rep := kit.New("C05", "model_checking")
	rep.Quiet()
	log.SetLevel(log.PanicLevel)
	log.SetOutput(io.Discard)
	if dn, err := os.OpenFile(os.DevNull, os.O_WRONLY, 0); err == nil {
		os.Stderr = dn // Conn.Write prints every unpicklable line to stderr
	}
	bound, wdepth := 2, 6
	if rep.Thorough() {
		bound, wdepth = 3, 7
	}
	l5, l12 := "a 1 2", "bb.cc 10 300"
	l40 := "dddddddd.eeeeeeee.ffffffff.gg 123.5 4000"
	l5b := "h 3 4"
	// lengths that fill the 8 and 16 byte buffers exactly, with and without the newline
	l8, l7, l16 := "ab.c 1 2", "a.b 1 2", "abcd.efgh 12 345"
	// l12f passes validation (timestamps are parsed as floats there) but cannot be pickled
	l12f := "bb.cc 10 300.5"
	lineSets := [][]string{{l5, l12, l40}, {l40, l5, l12, l5b}, {l8, l7, l16, l5}, {l5, l12f, l12, l5b}}
	if rep.Thorough() {
		lineSets = append(lineSets, []string{l12, l40, l40[:38] + "99", l5})
	}
	var scns []*vrt.Scenario
	// one scenario per buffer size: they run in separate worker processes (every NewWriter registers
	// metrics that the metrics library never releases)
	for _, size := range []int{1, 2, 3, 4, 8} {
		size := size
		scns = append(scns, &vrt.Scenario{Name: fmt.Sprintf("writer size=%d", size), Cfg: vrt.Config{}, Model: vrt.CostDelay, Bound: 0,
			New: func() vrt.Exec { return &writerExec{depth: wdepth, sizes: []int{size}} }})
	}
	for _, ls := range lineSets {
		for _, iobuf := range []int{1, 8, 16, 64} {
			for _, connbuf := range []int{1, 2} {
				for _, pickle := range []bool{false, true} {
					p := params{lines: ls, iobuf: iobuf, connbuf: connbuf, pickle: pickle}
					scns = append(scns, &vrt.Scenario{Name: "path " + p.String(), Cfg: vrt.Config{MaxSteps: 20000, Horizon: time.Minute}, Model: vrt.CostDelay, Bound: bound,
						New: func() vrt.Exec { return &pathExec{p: p} }})
					if !pickle && connbuf == 2 && (iobuf == 8 || iobuf == 64) {
						q := p
						q.flush = true
						// statement-level interleaving inside the buffered writer: whoever flushes must not run
						// into a Write that is in progress on the connection's own goroutine
						scns = append(scns, &vrt.Scenario{Name: "path " + q.String(), Cfg: vrt.Config{MaxSteps: 20000, Horizon: time.Minute, Groups: map[string]bool{"c05": true}}, Model: vrt.CostDelay, Bound: bound,
							New: func() vrt.Exec { return &pathExec{p: q} }})
					}
				}
			}
		}
	}
	// a second connection: whatever the first one (closed by its peer after one write) left in its buffers,
	// the healthy second connection carries whole handed-off lines in order and nothing reaches the endpoint twice
	for _, iobuf := range []int{1, 8, 16, 64} {
		for _, connbuf := range []int{1, 2} {
			p := params{lines: []string{"a.b 1 1", "metric.long.name 12345 1000", "c 2 2", "metric.other.name 54321 2000", "d 3 3"}, iobuf: iobuf, connbuf: connbuf, second: true}
			scns = append(scns, &vrt.Scenario{Name: "path " + p.String(), Cfg: vrt.Config{MaxSteps: 30000, Horizon: 5 * time.Minute}, Model: vrt.CostDelay, Bound: bound - 1,
				New: func() vrt.Exec { return &pathExec{p: p} }})
		}
	}
	rep.Assume = []string{
		"second-connection scenarios: the first connection's peer closes after one write, the destination reconnects at one of the next two 30 s ticks, the rest of the lines goes to the second connection (delay bound one less)",
		"the TCP endpoint is a model (accepts at once, consumes every byte, never closes); virtual time with maximal progress: a runnable goroutine is never starved across a timer deadline",
		fmt.Sprintf("delay bound %d; flush period 1 s; the driver chooses (exhaustively) whether to sleep across a flush tick between hand-offs", bound),
	}
	e1 := &kit.E1{Rep: rep, Scenarios: scns, Deadline: rep.Deadline(150*time.Second, 25*time.Minute)}
	cov := e1.Run()
	if cov != nil {
		cov["bound"] = bound
		cov["cost_model"] = "delay"
	}
	rep.Finish(cov)
}
