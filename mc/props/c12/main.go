// C12: input framing is independent of how the network chops the stream.
//
// Engine E4 over environment answers: a scripted io.Reader / net.Conn returns
// exactly what the enumeration says (which bytes, together with which error,
// (0, nil) reads), the real handlers of the tree run on it, and a capture
// dispatcher (input.Dispatcher) records every Dispatch call, copying the
// argument at call time. The oracle is ref.Lines (written from the property
// statement) applied to the bytes the script offers.
//
// Handlers: "plain" = input.Plain.Handle(reader); "tcp" = the Listener's
// HandleConn (real handleConn) on a real input.TimeoutConn wrapped around the
// scripted conn, as acceptTcpConn does; "udp" = the Listener's HandleData
// (real handleData) on a datagram that sits, as in consumeUdp, in a reused
// 65535-byte buffer; "amqp" = the real Amqp.Start/start/consumeAMQP fed by a
// mock connector (overlay accessor VerifC12NewAMQP, same shape as the pinned
// amqp_test.go).
//
// One violation is reported per (handler, kind of first difference), with the
// simplest failing case in the signature; the number of failing cases of that
// kind is in the evidence. Lines at or beyond the limits (64 KiB tcp/udp,
// 4 KiB amqp, measured on the wire including the CR) are observations only.
// ./check C12 --replay <file> re-runs one recorded case and prints the Read
// answers, the Dispatch calls and the reference.
package main

import (
	"bytes"
	"encoding/json"
	"fmt"
	"io"
	"net"
	"os"
	"runtime"
	"sort"
	"strings"
	"sync"
	"sync/atomic"
	"time"

	"github.com/grafana/carbon-relay-ng/input"
	log "github.com/sirupsen/logrus"

	"verif/mc/kit"
	"verif/mc/ref"
)

var rep *kit.Reporter

const (
	tcpLimit  = 64 * 1024 // "64 KiB on TCP/UDP"
	amqpLimit = 4 * 1024  // "4 KiB on AMQP"
	udpMax    = 65535     // consumeUdp's buffer
)

// ---------------------------------------------------------------------------
// the environment: a scripted reader

type timeoutError struct{}

func (timeoutError) Error() string   { return "i/o timeout (scripted)" }
func (timeoutError) Timeout() bool   { return true }
func (timeoutError) Temporary() bool { return true }

var errTimeout net.Error = timeoutError{}

// one answer of the environment to a Read call: stream[lo:hi] together with err.
// (If the caller's buffer is smaller than the answer, the rest of the answer is
// returned by the following Read calls and err accompanies the last piece.)
type step struct {
	lo, hi int
	err    error
}

type script struct {
	stream []byte
	steps  []step
	i, off int
	sticky error
	reads  int
	// delivered: high-water mark of the stream bytes handed to the reader. A timeout does not end
	// the stream for the environment: a reader that comes back after one is served the rest (the
	// sender was only silent), and is then judged on everything it was given.
	delivered int
	afterEnd  int
}

func (s *script) Read(p []byte) (int, error) {
	s.reads++
	if len(p) == 0 {
		return 0, nil
	}
	if s.sticky != nil {
		if s.afterEnd++; s.afterEnd > 1000 {
			panic("the handler keeps reading a connection that has ended (1000 reads after the end of the stream)")
		}
		return 0, s.sticky
	}
	if s.i >= len(s.steps) {
		s.sticky = io.EOF
		return 0, io.EOF
	}
	st := s.steps[s.i]
	n := copy(p, s.stream[st.lo+s.off:st.hi])
	s.off += n
	if st.lo+s.off > s.delivered {
		s.delivered = st.lo + s.off
	}
	if st.lo+s.off == st.hi {
		s.i++
		s.off = 0
		if st.err != nil {
			if st.err == io.EOF {
				s.sticky = st.err
			}
			return n, st.err
		}
	}
	return n, nil
}

const (
	mBase = iota
	mEOFWithLast
	mZeroReads
	mTimeoutWith
	mTimeoutAfter
)

var modeNames = []string{"base", "eof-with-last", "zero-reads", "timeout-with", "timeout-after"}

// build installs the answers for (stream, cuts, mode, k) and returns the number
// of stream bytes the environment offers before the connection ends.
//
//	base           chunk, chunk, ..., then (0, io.EOF)
//	eof-with-last  the last chunk is returned together with io.EOF
//	zero-reads     a (0, nil) read before every chunk and before the final EOF
//	timeout-with   chunk k is returned together with a timeout net.Error; nothing after it
//	timeout-after  chunks 0..k, then (0, timeout)
func (s *script) build(stream []byte, cuts []int, mode, k int) (offered int) {
	s.stream = stream
	s.steps = s.steps[:0]
	s.i, s.off, s.sticky, s.reads, s.delivered, s.afterEnd = 0, 0, nil, 0, 0, 0
	lo, nch := 0, 0
	defer func() {
		if (mode == mTimeoutWith || mode == mTimeoutAfter) && offered < len(stream) {
			// only a reader that reads on after the timeout gets here
			s.steps = append(s.steps, step{offered, len(stream), nil})
		}
	}()
	emit := func(hi int) bool {
		if mode == mZeroReads {
			s.steps = append(s.steps, step{lo, lo, nil})
		}
		st := step{lo, hi, nil}
		if mode == mEOFWithLast && hi == len(stream) {
			st.err = io.EOF
		}
		if mode == mTimeoutWith && nch == k {
			st.err = errTimeout
		}
		s.steps = append(s.steps, st)
		offered = hi
		if mode == mTimeoutAfter && nch == k {
			s.steps = append(s.steps, step{hi, hi, errTimeout})
			return true
		}
		if st.err != nil {
			return true
		}
		nch++
		lo = hi
		return false
	}
	for _, c := range cuts {
		if emit(c) {
			return
		}
	}
	if len(stream) > 0 {
		if emit(len(stream)) {
			return
		}
	} else if mode == mTimeoutWith || mode == mTimeoutAfter {
		s.steps = append(s.steps, step{0, 0, errTimeout})
	}
	if mode == mZeroReads {
		s.steps = append(s.steps, step{lo, lo, nil})
	}
	return
}

// scriptConn is the net.Conn the real TimeoutConn is wrapped around.
type scriptConn struct {
	s         *script
	deadlines int
}

func (c *scriptConn) Read(p []byte) (int, error)       { return c.s.Read(p) }
func (c *scriptConn) Write(p []byte) (int, error)      { return len(p), nil }
func (c *scriptConn) Close() error                     { return nil }
func (c *scriptConn) LocalAddr() net.Addr              { return nil }
func (c *scriptConn) RemoteAddr() net.Addr             { return nil }
func (c *scriptConn) SetDeadline(time.Time) error      { return nil }
func (c *scriptConn) SetReadDeadline(time.Time) error  { c.deadlines++; return nil }
func (c *scriptConn) SetWriteDeadline(time.Time) error { return nil }

// ---------------------------------------------------------------------------
// the observer: a capture dispatcher

var sentinelLine = []byte("\x00C12 end of case")

type capture struct {
	flat     []byte // copies made at call time
	ends     []int
	raws     [][]byte // the slices as handed over
	invalid  int
	sentinel chan struct{} // amqp only: signalled when the sentinel line is dispatched
}

func (c *capture) reset() {
	c.flat, c.ends, c.raws, c.invalid = c.flat[:0], c.ends[:0], c.raws[:0], 0
}

func (c *capture) Dispatch(buf []byte) {
	if c.sentinel != nil && bytes.Equal(buf, sentinelLine) {
		c.sentinel <- struct{}{}
		return
	}
	c.flat = append(c.flat, buf...)
	c.ends = append(c.ends, len(c.flat))
	c.raws = append(c.raws, buf)
}

func (c *capture) IncNumInvalid() { c.invalid++ }

func (c *capture) n() int { return len(c.ends) }

func (c *capture) line(i int) []byte {
	lo := 0
	if i > 0 {
		lo = c.ends[i-1]
	}
	return c.flat[lo:c.ends[i]]
}

// reused reports whether some slice handed to Dispatch no longer holds what it
// held at call time (observation only).
func (c *capture) reused() bool {
	for i, r := range c.raws {
		if !bytes.Equal(r, c.line(i)) {
			return true
		}
	}
	return false
}

func (c *capture) lines() [][]byte {
	out := make([][]byte, c.n())
	for i := range out {
		out[i] = append([]byte(nil), c.line(i)...)
	}
	return out
}

// ---------------------------------------------------------------------------
// case descriptions (also the replay format)

type streamSpec struct {
	Raw  *string `json:"raw,omitempty"` // literal stream
	Pre  string  `json:"pre,omitempty"` // or: pre + longLine(len) + term + post
	Len  int     `json:"len,omitempty"`
	Term string  `json:"term,omitempty"`
	Post string  `json:"post,omitempty"`
}

func rawSpec(b []byte) streamSpec { s := string(b); return streamSpec{Raw: &s} }

const fill = "abcdefghijklmnopqrstuvw" // period 23, coprime with every buffer size

func longLine(n int) []byte {
	b := make([]byte, n)
	for i := range b {
		b[i] = fill[i%len(fill)]
	}
	return b
}

func (s streamSpec) bytes() []byte {
	if s.Raw != nil {
		return []byte(*s.Raw)
	}
	b := append([]byte(s.Pre), longLine(s.Len)...)
	b = append(b, s.Term...)
	return append(b, s.Post...)
}

func (s streamSpec) String() string {
	if s.Raw != nil {
		return fmt.Sprintf("%q", *s.Raw)
	}
	return fmt.Sprintf("%q+line(%d)+%q+%q", s.Pre, s.Len, s.Term, s.Post)
}

type caseSpec struct {
	Handler string       `json:"handler"`
	Streams []streamSpec `json:"streams"` // one stream; for udp/amqp one or two datagrams/bodies
	Cuts    []int        `json:"cuts,omitempty"`
	Mode    string       `json:"mode,omitempty"`
	K       int          `json:"k,omitempty"`
}

func (c caseSpec) String() string {
	var ss []string
	for _, s := range c.Streams {
		ss = append(ss, s.String())
	}
	out := c.Handler + " " + strings.Join(ss, " then ")
	if c.Handler == "plain" || c.Handler == "tcp" {
		out += fmt.Sprintf(" cuts=%v mode=%s", c.Cuts, c.Mode)
		if c.Mode == "timeout-with" || c.Mode == "timeout-after" {
			out += fmt.Sprintf(" k=%d", c.K)
		}
	}
	return out
}

func modeIndex(name string) int {
	for i, n := range modeNames {
		if n == name {
			return i
		}
	}
	return mBase
}

// ---------------------------------------------------------------------------
// oracle

type wantInfo struct {
	lines     [][]byte
	firstOver int   // index of the first line whose wire length is >= the limit, -1 if none
	unterms   []int // indices of the lines that are the final unterminated line of their stream/datagram/body
}

func (w *wantInfo) isUnterminated(i int) bool {
	for _, u := range w.unterms {
		if u == i {
			return true
		}
	}
	return false
}

func mkWant(offered []byte, limit int) *wantInfo {
	w := &wantInfo{lines: ref.Lines(offered), firstOver: -1}
	if len(offered) > 0 && offered[len(offered)-1] != '\n' {
		w.unterms = []int{len(w.lines) - 1}
	}
	for i, l := range ref.RawLineLens(offered) {
		if l >= limit {
			w.firstOver = i
			break
		}
	}
	return w
}

func abbrev(b []byte) string {
	if len(b) <= 24 {
		return fmt.Sprintf("%q", b)
	}
	return fmt.Sprintf("%q..(%d bytes)..%q", b[:8], len(b), b[len(b)-8:])
}

func abbrevAll(ls [][]byte) string {
	var out []string
	for i, l := range ls {
		if i == 8 {
			out = append(out, fmt.Sprintf("...(%d lines)", len(ls)))
			break
		}
		out = append(out, abbrev(l))
	}
	return "[" + strings.Join(out, ", ") + "]"
}

// classify names the first difference between what was dispatched and the reference.
func classify(got, want [][]byte, wi *wantInfo) string {
	i := 0
	for i < len(got) && i < len(want) && bytes.Equal(got[i], want[i]) {
		i++
	}
	where := "terminated-line"
	if wi.isUnterminated(i) {
		where = "final-unterminated-line"
	}
	switch {
	case i == len(want):
		return "extra-line@end"
	case i == len(got):
		return "missing-line@" + where
	case bytes.Equal(got[i], append(append([]byte(nil), want[i]...), '\r')):
		return "cr-kept@" + where
	case bytes.HasPrefix(want[i], got[i]):
		return "fragment@" + where
	case bytes.HasPrefix(got[i], want[i]):
		return "merged@" + where
	}
	for j := i + 1; j < len(want); j++ {
		if bytes.Equal(got[i], want[j]) {
			return "missing-line@" + where
		}
	}
	return "altered@" + where
}

// ---------------------------------------------------------------------------
// bookkeeping

type order struct {
	rank int // simplest-first rank of the job
	seq  int64
}

func (a order) less(b order) bool {
	if a.rank != b.rank {
		return a.rank < b.rank
	}
	return a.seq < b.seq
}

type failure struct {
	ord  order
	key  string // handler + class
	what string
	cs   caseSpec
}

type sample struct {
	ord order
	v   map[string]interface{}
}

type stats struct {
	evals      int64
	perHandler map[string]int64
	nontrivial int64
	fails      map[string]*failure
	failCount  map[string]int64
	obs        map[string]map[string]int64
	reuse      map[string]int64
	reuseCase  map[string]*failure // first case per handler in which buffer reuse was seen
	samples    []sample
	jobsDone   map[string]int
	jobTime    map[string]time.Duration
	jobEvals   map[string]int64
}

func newStats() *stats {
	return &stats{perHandler: map[string]int64{}, fails: map[string]*failure{}, failCount: map[string]int64{}, obs: map[string]map[string]int64{}, reuse: map[string]int64{}, reuseCase: map[string]*failure{}, jobsDone: map[string]int{}, jobTime: map[string]time.Duration{}, jobEvals: map[string]int64{}}
}

func (s *stats) merge(o *stats) {
	s.evals += o.evals
	s.nontrivial += o.nontrivial
	for k, v := range o.perHandler {
		s.perHandler[k] += v
	}
	for k, v := range o.failCount {
		s.failCount[k] += v
	}
	for k, f := range o.fails {
		if cur, ok := s.fails[k]; !ok || f.ord.less(cur.ord) {
			s.fails[k] = f
		}
	}
	for k, m := range o.obs {
		if s.obs[k] == nil {
			s.obs[k] = map[string]int64{}
		}
		for kk, v := range m {
			s.obs[k][kk] += v
		}
	}
	for k, v := range o.reuse {
		s.reuse[k] += v
	}
	for k, f := range o.reuseCase {
		if cur, ok := s.reuseCase[k]; !ok || f.ord.less(cur.ord) {
			s.reuseCase[k] = f
		}
	}
	s.samples = append(s.samples, o.samples...)
	for k, v := range o.jobsDone {
		s.jobsDone[k] += v
	}
	for k, v := range o.jobTime {
		s.jobTime[k] += v
	}
	for k, v := range o.jobEvals {
		s.jobEvals[k] += v
	}
}

// ---------------------------------------------------------------------------
// worker: the real objects under test + one case evaluation

type worker struct {
	cap    *capture
	plain  *input.Plain
	lst    *input.Listener
	sc     script
	conn   scriptConn
	udpBuf []byte
	st     *stats
	rank   int
	seq    int64
	trace  bool
	slot   int // liveness watchdog slot

	offeredForObs []byte // the offered bytes of the current single-stream case (for over-limit observations)
}

func newWorker() *worker {
	w := &worker{cap: &capture{}, st: newStats(), udpBuf: make([]byte, udpMax)}
	w.plain = input.NewPlain(w.cap)
	// never started: only its HandleConn / HandleData hooks (the real handleConn / handleData) are driven
	w.lst = input.NewListener("127.0.0.1:0", time.Second, w.plain)
	w.conn.s = &w.sc
	return w
}

func (w *worker) fail(h, class string, what func() string, mk func() caseSpec) {
	key := h + " " + class
	w.st.failCount[key]++
	ord := order{w.rank, w.seq}
	if cur, ok := w.st.fails[key]; ok && !ord.less(cur.ord) {
		return
	}
	w.st.fails[key] = &failure{ord: ord, key: key, what: what(), cs: mk()}
}

func (w *worker) observe(key, outcome string) {
	m := w.st.obs[key]
	if m == nil {
		m = map[string]int64{}
		w.st.obs[key] = m
	}
	m[outcome]++
}

// runReader runs one scripted stream through the plain or the tcp path.
// It returns the handler's error (plain only) and a recovered panic, if any.
func (w *worker) runReader(h string) (herr error, pan interface{}) {
	defer func() { pan = recover() }()
	w.cap.reset()
	switch h {
	case "plain":
		herr = w.plain.Handle(&w.sc)
	case "tcp":
		// what acceptTcpConn does with an accepted connection
		w.lst.HandleConn(w.lst, input.NewTimeoutConn(&w.conn, time.Second))
	}
	return
}

func (w *worker) runDatagrams(ds [][]byte) (pan interface{}) {
	defer func() { pan = recover() }()
	w.cap.reset()
	for _, d := range ds {
		n := copy(w.udpBuf, d) // consumeUdp reads every packet into the same buffer
		w.lst.HandleData(w.lst, w.udpBuf[:n], &net.UDPAddr{IP: net.IPv4(127, 0, 0, 1), Port: 9})
	}
	return
}

// judge compares the capture with the reference and books the case.
func (w *worker) judge(h string, want *wantInfo, herr error, pan interface{}, limit int, mk func() caseSpec) {
	w.seq++
	w.st.evals++
	w.st.perHandler[h]++
	if pan != nil {
		w.fail(h, "panic", func() string { return fmt.Sprintf("%s: handler panicked: %v", mk(), pan) }, mk)
		return
	}
	c := w.cap
	must := len(want.lines)
	if want.firstOver >= 0 {
		must = want.firstOver
	}
	ok := c.n() >= must
	if want.firstOver < 0 && c.n() != must {
		ok = false
	}
	for i := 0; ok && i < must; i++ {
		if !bytes.Equal(c.line(i), want.lines[i]) {
			ok = false
		}
	}
	if w.trace {
		fmt.Fprintf(rep.Out, "  dispatched %s\n  reference  %s\n  handler error: %v\n", abbrevAll(c.lines()), abbrevAll(want.lines), herr)
	}
	if !ok {
		got := c.lines()
		wl := want.lines
		if want.firstOver >= 0 { // only the lines before the first over-limit line are demanded
			wl = wl[:must]
			if len(got) > must {
				got = got[:must]
			}
		}
		class := classify(got, wl, want)
		w.fail(h, class, func() string {
			return fmt.Sprintf("%s: Dispatch was called with %s, the lines of the delivered bytes are %s (handler error: %v)", mk(), abbrevAll(c.lines()), abbrevAll(want.lines), herr)
		}, mk)
		return
	}
	if want.firstOver >= 0 {
		// at or beyond the limit: observation only
		raws := ref.RawLineLens(w.offeredForObs)
		rl := raws[want.firstOver]
		rest := c.lines()[must:]
		var lens []string
		for i, l := range rest {
			if i == 6 {
				lens = append(lens, "...")
				break
			}
			lens = append(lens, fmt.Sprint(len(l)))
		}
		errs := "n/a"
		if h == "plain" {
			errs = fmt.Sprint(herr)
		}
		key := fmt.Sprintf("%s wire_line_len=limit%+d (%d)", h, rl-limit, rl)
		out := fmt.Sprintf("handler_error=%s; instead of the %d reference line(s) from the long line on (lengths %v) Dispatch got lines of lengths [%s]", errs, len(want.lines)-must, lineLens(want.lines[must:]), strings.Join(lens, " "))
		w.observe(key, out)
	}
	if c.reused() {
		w.st.reuse[h]++
		ord := order{w.rank, w.seq}
		if cur, ok := w.st.reuseCase[h]; !ok || ord.less(cur.ord) {
			w.st.reuseCase[h] = &failure{ord: ord, cs: mk()}
		}
	}
}

func lineLens(ls [][]byte) []int {
	out := []int{}
	for i, l := range ls {
		if i == 6 {
			break
		}
		out = append(out, len(l))
	}
	return out
}

// offeredForObs is set by the callers of judge for over-limit observations.
// (kept on the worker to keep judge's signature small)
func (w *worker) setOffered(b []byte) { w.offeredForObs = b }

// ---------------------------------------------------------------------------
// enumeration: streams

var alphabet = []string{"a 1 2", "", "b 1 2\r", "\r", "c"}

// smallStreams: concatenations of <= maxLines lines of the alphabet, with and
// without final newline, plus the empty stream; deduplicated as byte strings,
// shortest first.
func smallStreams(maxLines int) [][]byte {
	seen := map[string]bool{"": true}
	out := [][]byte{{}}
	var rec func(cur []string)
	rec = func(cur []string) {
		if len(cur) > 0 {
			j := strings.Join(cur, "\n")
			for _, s := range []string{j, j + "\n"} {
				if !seen[s] {
					seen[s] = true
					out = append(out, []byte(s))
				}
			}
		}
		if len(cur) == maxLines {
			return
		}
		for _, a := range alphabet {
			rec(append(append([]string(nil), cur...), a))
		}
	}
	rec(nil)
	sort.SliceStable(out, func(i, j int) bool {
		if len(out[i]) != len(out[j]) {
			return len(out[i]) < len(out[j])
		}
		return bytes.Compare(out[i], out[j]) < 0
	})
	return out
}

func popcount(x int) int {
	n := 0
	for ; x != 0; x &= x - 1 {
		n++
	}
	return n
}

// masks returns all subsets of the n-1 cut positions of an n-byte stream,
// fewest cuts first.
func masks(n int) []int {
	if n <= 1 {
		return []int{0}
	}
	out := make([]int, 1<<(n-1))
	for i := range out {
		out[i] = i
	}
	sort.SliceStable(out, func(i, j int) bool { return popcount(out[i]) < popcount(out[j]) })
	return out
}

func cutsOfMask(m int, buf []int) []int {
	buf = buf[:0]
	for b := 0; m != 0; b, m = b+1, m>>1 {
		if m&1 == 1 {
			buf = append(buf, b+1)
		}
	}
	return buf
}

// cutSetsUpTo returns all subsets of positions with at most k elements (fewest first), plus all positions.
func cutSetsUpTo(pos []int, k int) [][]int {
	out := [][]int{{}}
	var rec func(start int, cur []int)
	for size := 1; size <= k; size++ {
		size := size
		rec = func(start int, cur []int) {
			if len(cur) == size {
				out = append(out, append([]int(nil), cur...))
				return
			}
			for i := start; i < len(pos); i++ {
				rec(i+1, append(cur, pos[i]))
			}
		}
		rec(0, nil)
	}
	if len(pos) > k {
		out = append(out, append([]int(nil), pos...))
	}
	return out
}

func insideLine(stream []byte, cuts []int) bool {
	for _, c := range cuts {
		if stream[c-1] != '\n' {
			return true
		}
	}
	return false
}

// ---------------------------------------------------------------------------
// jobs

type params struct {
	allSegMax       int   // streams up to this many bytes get all 2^(n-1) segmentations
	maxCutsLong     int   // longer small streams: all cut sets up to this size (+ one-byte reads)
	bufSizes        []int // buffer sizes around which long-line lengths are placed
	pairModesAll    bool  // long lines: pairs of cuts also in eof-with-last / timeout-with-last
	amqpSizes       []int
	cutSizes        []int // buffer-size boundaries around which long-line cuts are placed
	oneByteMax      int   // long streams shorter than this also get one-byte reads (both handlers)
	oneByteBigPlain bool  // ... and the longer ones through Plain.Handle
	pairsTcp        bool  // long lines: pairs of cuts also through the tcp path (quick: Plain.Handle only)
}

type job struct {
	rank int
	kind string
	run  func(w *worker)
}

// readerCase: one (stream, cuts, mode, k) through one reader handler.
func (w *worker) readerCase(h string, stream []byte, spec streamSpec, cuts []int, mode, k int, wants map[int]*wantInfo) {
	offered := w.sc.build(stream, cuts, mode, k)
	rep.Beat(w.slot, func() string {
		return caseSpec{Handler: h, Streams: []streamSpec{spec}, Cuts: append([]int(nil), cuts...), Mode: modeNames[mode], K: k}.String()
	})
	want := wants[offered]
	if want == nil {
		want = mkWant(stream[:offered], tcpLimit)
		wants[offered] = want
	}
	herr, pan := w.runReader(h)
	if w.sc.delivered > offered {
		// the handler went on reading after the timeout: what it has to account for is what it was given
		offered = w.sc.delivered
		if want = wants[offered]; want == nil {
			want = mkWant(stream[:offered], tcpLimit)
			wants[offered] = want
		}
	}
	w.setOffered(stream[:offered])
	w.judge(h, want, herr, pan, tcpLimit, func() caseSpec {
		return caseSpec{Handler: h, Streams: []streamSpec{spec}, Cuts: append([]int(nil), cuts...), Mode: modeNames[mode], K: k}
	})
}

// allModes runs every mode of one segmentation through both reader handlers.
// allModes runs every mode of one segmentation through the reader handlers.
// A timeout case is determined by the chunks up to the one the error comes
// with/after (nothing behind it is ever read), so over all segmentations of a
// stream every distinct timeout case is met exactly once by placing the error
// at the chunk that ends at the last cut (k = nch-2) and at the last chunk
// (k = nch-1); everyK is for cut sets that are not part of a complete
// enumeration.
func (w *worker) allModes(stream []byte, spec streamSpec, cuts []int, wants map[int]*wantInfo, tcpToo, everyK bool) {
	nch := len(cuts) + 1
	if len(stream) == 0 {
		nch = 1 // the immediate timeout
	}
	hs := []string{"plain", "tcp"}
	if !tcpToo {
		hs = hs[:1]
	}
	k0 := nch - 2
	if everyK || k0 < 0 {
		k0 = 0
	}
	for _, h := range hs {
		w.readerCase(h, stream, spec, cuts, mBase, 0, wants)
		if len(stream) > 0 && insideLine(stream, cuts) {
			w.st.nontrivial++
		}
		w.readerCase(h, stream, spec, cuts, mEOFWithLast, 0, wants)
		w.readerCase(h, stream, spec, cuts, mZeroReads, 0, wants)
		for k := k0; k < nch; k++ {
			w.readerCase(h, stream, spec, cuts, mTimeoutWith, k, wants)
			w.readerCase(h, stream, spec, cuts, mTimeoutAfter, k, wants)
		}
	}
}

func smallJob(rank int, stream []byte, p params) job {
	return job{rank: rank, kind: "small-stream", run: func(w *worker) {
		n := len(stream)
		spec := rawSpec(stream)
		wants := map[int]*wantInfo{}
		var cbuf []int
		nseg := 0
		if n <= p.allSegMax {
			for _, m := range masks(n) {
				cbuf = cutsOfMask(m, cbuf)
				w.allModes(stream, spec, cbuf, wants, true, false)
				nseg++
			}
		} else {
			pos := make([]int, 0, n-1)
			for i := 1; i < n; i++ {
				pos = append(pos, i)
			}
			for _, cs := range cutSetsUpTo(pos, p.maxCutsLong) {
				w.allModes(stream, spec, cs, wants, true, len(cs) == n-1) // the one-byte segmentation is the only one with more than maxCutsLong cuts
				nseg++
			}
		}
		w.st.samples = append(w.st.samples, sample{order{rank, 0}, map[string]interface{}{"kind": "small stream, handlers plain+tcp", "stream": string(stream), "bytes": n, "all_segmentations": n <= p.allSegMax, "segmentations": nseg, "reference_lines": linesAsStrings(ref.Lines(stream))}})
	}}
}

func linesAsStrings(ls [][]byte) []string {
	out := []string{}
	for _, l := range ls {
		out = append(out, abbrev(l))
	}
	return out
}

// longSpecs: pre + line(L) + term + post for L within +-2 of every size.
func longSpecs(sizes []int, max int) []streamSpec {
	var out []streamSpec
	for _, b := range sizes {
		for d := -2; d <= 2; d++ {
			for _, pre := range []string{"", "a 1 2\n"} {
				for _, term := range []string{"", "\n", "\r\n"} {
					for _, post := range []string{"", "c\n", "c"} {
						if term == "" && post != "" {
							continue // that is just a longer line
						}
						s := streamSpec{Pre: pre, Len: b + d, Term: term, Post: post}
						if max > 0 && len(pre)+b+d+len(term)+len(post) > max {
							continue
						}
						out = append(out, s)
					}
				}
			}
		}
	}
	return out
}

// candidateCuts: positions within +-3 of every token edge of the stream and of
// every buffer-size boundary, counted from the start of the stream and from
// the start of the long line.
func candidateCuts(s streamSpec, bufSizes []int) []int {
	n := len(s.Pre) + s.Len + len(s.Term) + len(s.Post)
	var centres []int
	ls := len(s.Pre)
	le := ls + s.Len
	centres = append(centres, ls, le, le+len(s.Term), n)
	if strings.HasPrefix(s.Term, "\r") {
		centres = append(centres, le+1)
	}
	for _, b := range bufSizes {
		centres = append(centres, b, ls+b)
	}
	set := map[int]bool{}
	for _, c := range centres {
		for d := -3; d <= 3; d++ {
			if p := c + d; p > 0 && p < n {
				set[p] = true
			}
		}
	}
	var out []int
	for p := range set {
		out = append(out, p)
	}
	sort.Ints(out)
	return out
}

var scannerSizes = []int{4096, 8192, 16384, 32768, 65536} // bufio.Scanner grows 4 KiB -> 64 KiB by doubling

func longJob(rank int, spec streamSpec, p params) job {
	return job{rank: rank, kind: "long-line", run: func(w *worker) {
		stream := spec.bytes()
		n := len(stream)
		wants := map[int]*wantInfo{}
		cand := candidateCuts(spec, p.cutSizes)
		// no cut and every single cut: all modes, timeouts at every chunk
		w.allModes(stream, spec, nil, wants, true, true)
		one := make([]int, 1)
		for _, c := range cand {
			one[0] = c
			w.allModes(stream, spec, one, wants, true, true)
		}
		// every pair of cuts
		two := make([]int, 2)
		npairs := 0
		for i := 0; i < len(cand); i++ {
			for j := i + 1; j < len(cand); j++ {
				two[0], two[1] = cand[i], cand[j]
				npairs++
				hs := []string{"plain", "tcp"}
				if !p.pairsTcp {
					hs = hs[:1]
				}
				for _, h := range hs {
					w.readerCase(h, stream, spec, two, mBase, 0, wants)
					w.st.nontrivial++ // a candidate pair always has a cut inside a line
					if p.pairModesAll {
						w.readerCase(h, stream, spec, two, mEOFWithLast, 0, wants)
						w.readerCase(h, stream, spec, two, mTimeoutWith, 2, wants)
					}
				}
			}
		}
		// one-byte reads (bufio.Scanner rescans its whole buffer after every read, so this is
		// quadratic in the line length: 64 KiB lines only in the thorough tier and only through Plain.Handle)
		oneByte := "none"
		if n < p.oneByteMax || p.oneByteBigPlain {
			all := make([]int, 0, n-1)
			for i := 1; i < n; i++ {
				all = append(all, i)
			}
			hs := []string{"plain", "tcp"}
			oneByte = "plain+tcp"
			if n >= p.oneByteMax {
				hs = hs[:1]
				oneByte = "plain"
			}
			for _, h := range hs {
				w.readerCase(h, stream, spec, all, mBase, 0, wants)
				w.st.nontrivial++
				w.readerCase(h, stream, spec, all, mEOFWithLast, 0, wants)
			}
		}
		w.st.samples = append(w.st.samples, sample{order{rank, 0}, map[string]interface{}{"kind": "long line, handlers plain+tcp", "stream": spec.String(), "bytes": n, "single_cuts": len(cand), "pairs_of_cuts": npairs, "no_cut": true, "one_byte_reads": oneByte}})
	}}
}

func concatWant(ws ...*wantInfo) *wantInfo {
	if len(ws) == 1 {
		return ws[0]
	}
	out := &wantInfo{firstOver: -1}
	for _, w := range ws {
		for _, u := range w.unterms {
			out.unterms = append(out.unterms, len(out.lines)+u)
		}
		out.lines = append(out.lines, w.lines...)
	}
	return out
}

// udpCase: the datagrams arrive one after the other, each is its own stream.
func (w *worker) udpCase(specs []streamSpec, ds [][]byte, want *wantInfo) {
	pan := w.runDatagrams(ds)
	if len(ds) == 1 {
		w.setOffered(ds[0])
	}
	if len(want.lines) >= 2 {
		w.st.nontrivial++
	}
	w.judge("udp", want, nil, pan, tcpLimit, func() caseSpec { return caseSpec{Handler: "udp", Streams: specs} })
}

func udpJob(rank int, small [][]byte, p params, shard, shards int) job {
	return job{rank: rank, kind: "udp", run: func(w *worker) {
		wantOf := make([]*wantInfo, len(small))
		for i, s := range small {
			wantOf[i] = mkWant(s, tcpLimit)
		}
		if shard == 0 {
			for i, s := range small {
				w.udpCase([]streamSpec{rawSpec(s)}, [][]byte{s}, wantOf[i])
			}
		}
		// two datagrams in a row
		for i, a := range small {
			if i%shards != shard {
				continue
			}
			for j, b := range small {
				w.udpCase([]streamSpec{rawSpec(a), rawSpec(b)}, [][]byte{a, b}, concatWant(wantOf[i], wantOf[j]))
			}
		}
		if shard != 0 {
			return
		}
		// long lines up to the largest datagram consumeUdp can read
		specs := longSpecs(p.bufSizes, udpMax)
		for _, pre := range []string{"", "a 1 2\n"} {
			for _, term := range []string{"", "\n", "\r\n"} {
				for d := 0; d <= 2; d++ {
					specs = append(specs, streamSpec{Pre: pre, Len: udpMax - len(pre) - len(term) - d, Term: term})
				}
			}
		}
		for _, sp := range specs {
			b := sp.bytes()
			w.udpCase([]streamSpec{sp}, [][]byte{b}, mkWant(b, tcpLimit))
		}
		w.st.samples = append(w.st.samples, sample{order{rank, 0}, map[string]interface{}{"kind": "udp datagrams through Listener.HandleData", "single_datagrams": len(small), "ordered_pairs_of_datagrams_all_shards": len(small) * len(small), "long_line_datagrams": len(specs), "last": specs[len(specs)-1].String()}})
	}}
}

// amqpRig is one long-lived real Amqp plugin with a mock connector.
type amqpRig struct {
	cap     *capture
	a       *input.Amqp
	send    func([]byte, <-chan struct{}) bool
	stalled bool
	giveUp  chan struct{}
	dog     *time.Timer // safety net only: never fires with a working consumer
}

const amqpPatience = 60 * time.Second

func newAmqpRig() *amqpRig {
	r := &amqpRig{cap: &capture{sentinel: make(chan struct{})}, giveUp: make(chan struct{})}
	r.a, r.send = input.VerifC12NewAMQP(r.cap)
	r.a.Start() // real start(): mock connector, then the real consumeAMQP
	r.dog = time.AfterFunc(amqpPatience, func() { close(r.giveUp) })
	return r
}

func (r *amqpRig) stop() {
	r.dog.Stop()
	if !r.stalled {
		r.a.Stop()
	}
}

// deliver hands the bodies to the consumer, then a body holding only the
// sentinel line; when the sentinel is dispatched every earlier body has been
// consumed completely (consumeAMQP is a single loop, the channel is unbuffered).
func (r *amqpRig) deliver(bodies [][]byte) bool {
	r.cap.reset()
	r.dog.Reset(amqpPatience)
	for _, b := range bodies {
		if !r.send(b, r.giveUp) {
			return false
		}
	}
	if !r.send(sentinelLine, r.giveUp) {
		return false
	}
	select {
	case <-r.cap.sentinel:
		return true
	case <-r.giveUp:
		return false
	}
}

func (w *worker) amqpCase(r *amqpRig, specs []streamSpec, bodies [][]byte, want *wantInfo) {
	if r.stalled {
		return
	}
	mk := func() caseSpec { return caseSpec{Handler: "amqp", Streams: specs} }
	if !r.deliver(bodies) {
		r.stalled = true
		w.seq++
		w.fail("amqp", "stalled", func() string { return fmt.Sprintf("%s: the consumer did not reach the end-of-case sentinel", mk()) }, mk)
		return
	}
	saved := w.cap
	w.cap = r.cap
	defer func() { w.cap = saved }()
	if len(bodies) == 1 {
		w.setOffered(bodies[0])
	}
	if len(want.lines) >= 2 {
		w.st.nontrivial++
	}
	w.judge("amqp", want, nil, nil, amqpLimit, mk)
}

// amqpJob: shard 0 runs every stream as one body and the long lines, every
// shard runs the ordered pairs of bodies whose first body has index = shard mod shards.
func amqpJob(rank int, small [][]byte, p params, shard, shards int) job {
	return job{rank: rank, kind: "amqp", run: func(w *worker) {
		r := newAmqpRig()
		defer r.stop()
		wantOf := make([]*wantInfo, len(small))
		for i, s := range small {
			wantOf[i] = mkWant(s, amqpLimit)
		}
		nl := 0
		if shard == 0 {
			for i, s := range small {
				w.amqpCase(r, []streamSpec{rawSpec(s)}, [][]byte{s}, wantOf[i])
			}
		}
		np := 0
		for i, x := range small {
			if i%shards != shard {
				continue
			}
			for j, y := range small {
				np++
				w.amqpCase(r, []streamSpec{rawSpec(x), rawSpec(y)}, [][]byte{x, y}, concatWant(wantOf[i], wantOf[j]))
			}
		}
		if shard == 0 {
			specs := longSpecs(p.amqpSizes, 0)
			nl = len(specs)
			for _, sp := range specs {
				b := sp.bytes()
				w.amqpCase(r, []streamSpec{sp}, [][]byte{b}, mkWant(b, amqpLimit))
			}
			w.st.samples = append(w.st.samples, sample{order{rank, 0}, map[string]interface{}{"kind": "amqp bodies through Amqp.Start/consumeAMQP with a mock connector", "single_bodies": len(small), "ordered_pairs_of_bodies_all_shards": len(small) * len(small), "long_line_bodies": nl, "last": specs[len(specs)-1].String()}})
		}
	}}
}

// ---------------------------------------------------------------------------

func replay(path string) {
	var cs caseSpec
	if err := kit.LoadReplay(path, &cs); err != nil {
		fmt.Fprintln(os.Stderr, err)
		os.Exit(2)
	}
	fmt.Fprintf(rep.Out, "replaying %s\n", cs)
	w := newWorker()
	w.trace = true
	var bodies [][]byte
	for _, s := range cs.Streams {
		bodies = append(bodies, s.bytes())
	}
	switch cs.Handler {
	case "plain", "tcp":
		w.readerCase(cs.Handler, bodies[0], cs.Streams[0], cs.Cuts, modeIndex(cs.Mode), cs.K, map[int]*wantInfo{})
		for i, st := range w.sc.steps {
			if i < 12 {
				fmt.Fprintf(rep.Out, "  read answer %d: %d bytes [%d:%d], err=%v\n", i, st.hi-st.lo, st.lo, st.hi, st.err)
			}
		}
	case "udp":
		var ws []*wantInfo
		for _, b := range bodies {
			ws = append(ws, mkWant(b, tcpLimit))
		}
		w.udpCase(cs.Streams, bodies, concatWant(ws...))
	case "amqp":
		var ws []*wantInfo
		for _, b := range bodies {
			ws = append(ws, mkWant(b, amqpLimit))
		}
		r := newAmqpRig()
		w.amqpCase(r, cs.Streams, bodies, concatWant(ws...))
		r.stop()
	}
	n := 0
	for k, f := range w.st.fails {
		fmt.Fprintf(rep.Out, "VIOLATION reproduced [%s]\n  %s\n", k, f.what)
		n++
	}
	if n > 0 {
		os.Exit(1)
	}
	fmt.Fprintln(rep.Out, "no violation in this replay")
	os.Exit(0)
}

func main() {
	rep = kit.New("C12", "exploration")
	log.SetLevel(log.PanicLevel)
	log.SetOutput(io.Discard)
	rep.Quiet()
	if rep.ReplayOnly != "" {
		replay(rep.ReplayOnly)
	}

	p := params{allSegMax: 14, maxCutsLong: 3, bufSizes: []int{4096, 65536}, cutSizes: []int{4096, 65536}, amqpSizes: []int{4096}, oneByteMax: 20000}
	if rep.Thorough() {
		p = params{allSegMax: 16, maxCutsLong: 4, bufSizes: scannerSizes, cutSizes: scannerSizes, pairModesAll: true, amqpSizes: []int{4096, 8192}, oneByteMax: 20000, oneByteBigPlain: true, pairsTcp: true}
	}
	deadline := rep.Deadline(50*time.Second, 13*time.Minute)

	small := smallStreams(3)
	var jobs []job
	rank := 0
	allSeg, someSeg := 0, 0
	for _, s := range small {
		jobs = append(jobs, smallJob(rank, s, p))
		rank++
		if len(s) <= p.allSegMax {
			allSeg++
		} else {
			someSeg++
		}
	}
	const shards = 8
	for sh := 0; sh < shards; sh++ {
		jobs = append(jobs, udpJob(rank, small, p, sh, shards))
		rank++
	}
	for sh := 0; sh < shards; sh++ {
		jobs = append(jobs, amqpJob(rank, small, p, sh, shards))
		rank++
	}
	longs := longSpecs(p.bufSizes, 0)
	for _, sp := range longs {
		jobs = append(jobs, longJob(rank, sp, p))
		rank++
	}
	// run order: the two serial jobs (amqp, udp) first, then simplest first, so that an internal
	// deadline cuts off the most complex streams; reporting order is by rank in any case
	var runOrder []int
	for _, kind := range []string{"amqp", "udp", "small-stream", "long-line"} {
		for i, j := range jobs {
			if j.kind == kind {
				runOrder = append(runOrder, i)
			}
		}
	}
	var next int64 = -1
	var skipped int64
	// a handler that never returns (a retry loop on a connection that keeps failing, ...) must end the check
	rep.Watch(10*time.Minute, func() map[string]interface{} {
		return map[string]interface{}{"evaluations": rep.Beats(), "distinct_nontrivial": rep.Beats(),
			"rule": "stopped by the liveness watchdog: the numbers are the reader cases started so far", "samples": []string{"see violations"}}
	})
	nw := runtime.NumCPU()
	results := make([]*stats, nw)
	var wg sync.WaitGroup
	for i := 0; i < nw; i++ {
		wg.Add(1)
		go func(i int) {
			defer wg.Done()
			w := newWorker()
			w.slot = i
			results[i] = w.st
			for {
				k := int(atomic.AddInt64(&next, 1))
				if k >= len(jobs) {
					rep.Rest(i)
					return
				}
				if time.Now().After(deadline) {
					atomic.AddInt64(&skipped, 1)
					continue
				}
				j := jobs[runOrder[k]]
				w.rank, w.seq = j.rank, 0
				t0 := time.Now()
				e0 := w.st.evals
				j.run(w)
				w.st.jobEvals[j.kind] += w.st.evals - e0
				w.st.jobsDone[j.kind]++
				w.st.jobTime[j.kind] += time.Since(t0)
			}
		}(i)
	}
	wg.Wait()
	total := newStats()
	for _, r := range results {
		total.merge(r)
	}

	// one violation per (handler, class of first difference): the simplest failing case
	var fs []*failure
	for _, f := range total.fails {
		fs = append(fs, f)
	}
	sort.Slice(fs, func(i, j int) bool { return fs[i].ord.less(fs[j].ord) })
	failing := map[string]interface{}{}
	for _, f := range fs {
		sig := fmt.Sprintf("%s first=%s", f.key, f.cs)
		rep.Violation(sig, fmt.Sprintf("%s (%d cases of this kind)", f.what, total.failCount[f.key]), f.cs)
		failing[f.key] = map[string]interface{}{"cases": total.failCount[f.key], "simplest": f.cs.String()}
	}

	// observations
	var obsKeys []string
	for k := range total.obs {
		obsKeys = append(obsKeys, k)
	}
	sort.Strings(obsKeys)
	var atLimit []interface{}
	for _, k := range obsKeys {
		atLimit = append(atLimit, map[string]interface{}{"case": k, "outcomes": total.obs[k]})
	}
	reuse := map[string]interface{}{}
	for _, h := range []string{"plain", "tcp", "udp", "amqp"} {
		e := map[string]interface{}{"cases_in_which_a_dispatched_slice_changed_after_Dispatch_returned": total.reuse[h], "cases": total.perHandler[h]}
		if f := total.reuseCase[h]; f != nil {
			e["simplest"] = f.cs.String()
		}
		reuse[h] = e
	}
	sort.Slice(total.samples, func(i, j int) bool { return total.samples[i].ord.less(total.samples[j].ord) })
	var samples []interface{}
	stride := len(total.samples)/10 + 1
	for i, s := range total.samples {
		if i%stride == 0 || i >= len(total.samples)-3 {
			samples = append(samples, s.v)
		}
	}
	if os.Getenv("VERIF_C12_TIMING") != "" {
		fmt.Fprintln(os.Stderr, "worker time per job kind:", total.jobTime, total.jobEvals)
	}
	b, _ := json.Marshal(total.jobsDone)
	rep.Assume = []string{
		"the environment is a scripted io.Reader / net.Conn; a Read answer larger than the caller's buffer is continued by the following Read calls, an error accompanies the last piece of its answer",
		"a timeout ends the connection: the stream of a timeout case is the bytes offered up to and including the answer that carries the error",
		"line length limits are applied to the length on the wire without the newline but including the optional carriage return; a stream with a line at or beyond the limit (64 KiB tcp/udp, 4 KiB amqp) is only required to deliver the lines before it, what happens from that line on is recorded under at_and_beyond_limit",
		"udp datagrams are at most 65535 bytes (consumeUdp's buffer) and are handed to HandleData in a reused buffer as consumeUdp does; amqp bodies are delivered whole (no segmentation exists for them)",
		"jobs completed: " + string(b),
	}
	tierNote := "thorough tier: no reductions; one-byte reads of lines >= 20000 bytes through Plain.Handle only (bufio.Scanner rescans its buffer after every read)"
	if !p.pairsTcp {
		tierNote = "quick tier reductions (long lines only): pairs of cuts go through Plain.Handle in base mode only; no one-byte reads of lines >= 20000 bytes; cuts around 4096 and 65536 only"
	}
	rep.Finish(map[string]interface{}{
		"evaluations":                       total.evals,
		"distinct_nontrivial":               total.nontrivial,
		"rule":                              fmt.Sprintf("an evaluation is one (stream, segmentation+error mode, handler) case: Dispatch calls compared with ref.Lines of the offered bytes. Streams: the %d distinct concatenations of <=3 lines of %q with/without final newline (%d of them <= %d bytes: all 2^(n-1) segmentations; %d longer: all cut sets of <= %d cuts and one-byte reads), each segmentation in the modes base / last chunk with io.EOF / (0,nil) before every chunk / chunk k with a timeout error / timeout after chunk k for every k (each distinct delivered prefix + segmentation evaluated once: with all segmentations enumerated, k ranges over the chunk ending at the last cut and the last chunk), through Plain.Handle and through handleConn+TimeoutConn; %d long-line streams (line lengths L-2..L+2 for L in %v, with/without preceding and following line, terminator none/LF/CRLF) with no cut, every single cut (all modes) and every pair of cuts within 3 bytes of a token edge or a buffer-size boundary (counted from the start of the stream and of the line), and one-byte reads; udp and amqp: every stream as one datagram/body, every ordered pair of them, long lines around %v / %v. distinct_nontrivial counts distinct (handler, stream, cut set) with a cut strictly inside a line, resp. datagrams/bodies (or pairs) with >= 2 lines. %s", len(small), alphabet, allSeg, p.allSegMax, someSeg, p.maxCutsLong, len(longs), p.bufSizes, p.bufSizes, p.amqpSizes, tierNote),
		"samples":                           samples,
		"exhaustive":                        skipped == 0,
		"jobs_skipped_at_internal_deadline": skipped,
		"evaluations_per_handler":           total.perHandler,
		"failing_kinds":                     failing,
		"at_and_beyond_limit":               atLimit,
		"buffer_reuse_after_dispatch":       reuse,
	})
}
