// C08: the disk spool queue recovers consistently from a crash at any point.
// For every history over {put(size), get, sync-tick} up to a depth and every
// configuration, the in-memory filesystem is snapshotted after every mutating
// filesystem operation (create, write, sync, rename, remove) of the last step:
// each snapshot is the state a dying process leaves behind. A fresh queue is
// opened on every snapshot, drained, and the delivered sequence compared with
// the contiguous-run oracle of the statement.
package main

import (
	"io"
	"log"
	"time"

	"verif/mc/dq"
	"verif/mc/kit"
	"verif/mc/vrt"
)

func main() {
	rep := kit.New("C08", "fault_enumeration")
	rep.Quiet()
	log.SetOutput(io.Discard) // nsqd logs every file open through the standard logger
	depth := 7
	sizes := []int{0, 3, 30}
	maxBytes := []int64{1, 16, 40}
	syncEvery := []int64{1, 2, 1000}
	if rep.Thorough() {
		depth = 8
		sizes = []int{0, 3, 12, 30}
	}
	var scns []*vrt.Scenario
	for _, mb := range maxBytes {
		for _, se := range syncEvery {
			for _, c := range (dq.Config{MaxBytes: mb, SyncEvery: se, Sizes: sizes, Tick: true, Depth: depth, Crash: true}).Split() {
				scns = append(scns, dq.Scenario(c))
			}
		}
	}
	rep.Assume = []string{
		"failure model: process death between two filesystem operations (every completed operation is durable, as the property states); the filesystem is the in-memory model vos",
		"a crash point is every prefix of the log of mutating filesystem operations; those of the last step of each history are checked in the execution of that history, earlier ones in the execution of the shorter history",
	}
	e1 := &kit.E1{Rep: rep, Scenarios: scns, Deadline: rep.Deadline(100*time.Second, 20*time.Minute)}
	cov := e1.Run()
	if cov != nil {
		cov["depth"] = depth
		c, _ := cov["counters"].(map[string]int64)
		cov["evaluations"] = c["crash_points"]
		cov["distinct_nontrivial"] = c["recoveries_run"] - c["trivial_recoveries"]
		cov["rule"] = "evaluations = crash points (filesystem snapshots after each mutating operation of the last step of every history); distinct_nontrivial = recoveries whose crash image holds at least one message (each is a distinct (history, crash point) pair)"
	}
	rep.Finish(cov)
}
