// Package vrt is a cooperative, fully controlled scheduler for Go code whose
// synchronisation operations have been rewritten (by /verif/vinstr) into calls
// of this package and of the shim packages vsync, vatomic, vtime, vnet, vos.
//
// Exactly one instrumented goroutine ("thread") runs at a time. At every
// *point* (channel operation, select, lock, wait, sleep, yield) the running
// thread publishes its pending operation and parks; the last thread to stop
// runs the scheduler, which computes the enabled transitions of the stopped
// world, picks one (from the replay prefix, else the default = index 0) and
// releases the thread(s) involved. Channels stay real Go channels: readiness
// is computed with reflect, the released thread performs the real operation.
//
// When no world is active every entry point degrades to the plain Go
// operation, so instrumented packages also work free-running.
package vrt

import (
	"fmt"
	"math"
	"os"
	"reflect"
	"runtime"
	"runtime/debug"
	"sort"
	"strings"
	"sync"
	"sync/atomic"
	"time"
)

// ---------------------------------------------------------------------------
// public types

type CostModel int

const (
	// Preemption bounding: only switching away from a still-enabled running
	// thread costs 1; choices at blocking points are free.
	CostPreemption CostModel = iota
	// Delay bounding: every non-default scheduling choice costs 1.
	CostDelay
)

type Config struct {
	// Virtual-time horizon (relative to start). Time never advances beyond it.
	Horizon time.Duration
	// Step horizon per execution (livelock guard).
	MaxSteps int
	// Record human readable descriptions of every point (replay / debugging).
	Verbose bool
	// Yield groups that are active (fine-grained statement yields).
	Groups map[string]bool
	// AtomicPoints makes sync/atomic operations scheduling points.
	AtomicPoints bool
	// ReverseBase uses descending thread id as the base order.
	ReverseBase bool
	// NeedTids records the thread of every alternative at every point
	// (needed by the preemption cost model only).
	NeedTids bool
}

// Point is one recorded choice.
type Point struct {
	Width  int
	Choice int
	Kind   uint8 // 0 scheduling, 1 environment/data choice
	Pre    bool  // alternative 0 belongs to the thread that was running (others are preemptions)
	Tids   []int16
	Desc   string // verbose only
}

type PanicInfo struct {
	Thread string
	Value  string
	Stack  string
}

type BlockedInfo struct {
	Thread string
	Op     string
}

type Result struct {
	Trace      []Point
	Panics     []PanicInfo
	DriverDone bool
	StepLimit  bool
	HorizonHit bool
	Blocked    []BlockedInfo // threads not finished at the end, with their pending operation
	Steps      int
	Now        time.Duration
	Diverged   string // non-empty: replay met a different world than recorded
	Log        []string
}

func (r *Result) Choices() []int {
	c := make([]int, len(r.Trace))
	for i, p := range r.Trace {
		c[i] = p.Choice
	}
	return c
}

// ---------------------------------------------------------------------------
// world

type opKind uint8

const (
	opNone opKind = iota // always enabled (start, yield, after)
	opChan               // send / recv / select
	opLock
	opRLock
	opWLock
	opWait
	opSleep
	opCond
	opQuiesce
)

type chanCase struct {
	send bool
	rv   reflect.Value
	ptr  uintptr
	nilc bool
}

type pendingOp struct {
	kind       opKind
	cases      []chanCase
	hasDefault bool
	isSelect   bool
	mu         *MutexState
	rw         *RWState
	wg         *WGState
	wakeAt     int64
	cond       func() bool
	label      string
}

type Thread struct {
	id      int
	name    string
	wake    chan struct{}
	op      pendingOp
	parked  bool
	done    bool
	chosen  int  // select result
	rdv     bool // last chan op was a rendezvous
	spawnAt string
}

type timer struct {
	id       int
	c        chan time.Time
	deadline int64
	period   int64
	active   bool
}

type World struct {
	mu       sync.Mutex
	threads  []*Thread
	cur      *Thread
	last     *Thread
	running  int
	now      int64
	timers   []*timer
	prefix   []int
	widths   []int
	trace    []Point
	steps    int
	cfg      Config
	aborting bool
	done     chan struct{}
	live     sync.WaitGroup
	panics   []PanicInfo
	closed   map[uintptr]bool
	beat     int64 // wall-clock time of the last scheduling step (watchdog)
	enBuf    []transition
	ordBuf   []*Thread
	qBuf     []*Thread
	needTids bool
	keep     []reflect.Value // closed channels are kept alive: their address must not be reused while it is a key of closed
	res      *Result
	finished bool
	log      []string
	// environment hooks installed by harnesses
	Env map[string]interface{}
}

var w *World

type abortT struct{}

var abortSentinel = abortT{}

// Active reports whether a controlled execution is in progress.
func Active() bool { return w != nil }

// Watchdog limits (see Run) and what to do when they are exceeded.
var (
	StuckAfter        = stuckAfterEnv()
	MemLimit   uint64 = 3 << 30
	OnStuck           = func(reason string, choices []int) {
		fmt.Fprintf(os.Stderr, "vrt: %s; choices so far %v\n", reason, choices)
	}
)

func stuckAfterEnv() time.Duration {
	if v := os.Getenv("VRT_STUCK_AFTER"); v != "" {
		if d, err := time.ParseDuration(v); err == nil {
			return d
		}
	}
	return 180 * time.Second
}

// Base is the wall-clock instant corresponding to virtual time 0.
var Base = time.Unix(1500000000, 0)

// ---------------------------------------------------------------------------
// Run

// Run executes body as the driver thread of a fresh world, following prefix
// and then default choices. The execution ends when the driver returns, a
// thread panics, nothing can move any more, or a horizon is hit.
func Run(body func(), prefix []int, widths []int, cfg Config) *Result {
	if w != nil {
		panic("vrt: nested Run")
	}
	if cfg.MaxSteps == 0 {
		cfg.MaxSteps = 200000
	}
	if cfg.Horizon == 0 {
		cfg.Horizon = 1000 * time.Hour
	}
	world := &World{
		trace:  make([]Point, 0, 512),
		prefix: prefix,
		widths: widths,
		cfg:    cfg,
		done:   make(chan struct{}),
		closed: make(map[uintptr]bool),
		res:    &Result{},
		Env:    make(map[string]interface{}),
	}
	w = world
	t := world.newThread("driver")
	t.parked = false
	world.running = 1
	world.cur = t
	world.last = t
	world.live.Add(1)
	go world.threadMain(t, body, true)
	// watchdog: code under test that loops (or allocates) without ever reaching
	// a scheduling point cannot be stopped by the scheduler. Normal executions
	// take well under a millisecond; after StuckAfter of wall-clock time since the
	// last scheduling step, or MemLimit of heap with no step for 4 s, the process
	// reports the execution as a livelock.
	stop := make(chan struct{})
	go func() {
		tk := time.NewTicker(2 * time.Second)
		defer tk.Stop()
		atomic.StoreInt64(&world.beat, time.Now().UnixNano())
		for {
			select {
			case <-stop:
				return
			case <-tk.C:
				var ms runtime.MemStats
				runtime.ReadMemStats(&ms)
				since := time.Duration(time.Now().UnixNano() - atomic.LoadInt64(&world.beat))
				// the heap limit only applies to code that is not reaching scheduling points any more (a
				// harness that enumerates inside one execution and yields may legitimately hold more)
				if since > StuckAfter || (ms.HeapAlloc > MemLimit && since > 4*time.Second) {
					reason := fmt.Sprintf("livelock: the code under test ran for %v (heap %d MB) without reaching a scheduling point", since.Round(time.Second), ms.HeapAlloc>>20)
					choices := make([]int, 0, len(world.trace))
					for _, p := range world.trace {
						choices = append(choices, p.Choice)
					}
					OnStuck(reason, choices)
					os.Exit(3)
				}
			}
		}
	}()
	<-world.done
	close(stop)
	world.live.Wait()
	w = nil
	r := world.res
	r.Trace = world.trace
	r.Panics = world.panics
	r.Steps = world.steps
	r.Now = time.Duration(world.now)
	r.Log = world.log
	return r
}

func (wd *World) newThread(name string) *Thread {
	t := &Thread{id: len(wd.threads), name: name, wake: make(chan struct{}, 1), parked: true}
	wd.threads = append(wd.threads, t)
	return t
}

func (wd *World) threadMain(t *Thread, f func(), started bool) {
	defer wd.live.Done()
	if !started {
		<-t.wake
		if wd.aborting {
			return
		}
	}
	defer func() {
		if r := recover(); r != nil {
			if _, ok := r.(abortT); ok {
				return
			}
			wd.mu.Lock()
			if !wd.aborting {
				wd.panics = append(wd.panics, PanicInfo{Thread: t.name, Value: fmt.Sprint(r), Stack: string(debug.Stack())})
			}
			wd.mu.Unlock()
		}
		if wd.aborting {
			return
		}
		t.done = true
		wd.stop()
	}()
	f()
}

// stop is called by a thread that stops running (parks or exits); the last
// one runs the scheduler.
func (wd *World) stop() {
	wd.mu.Lock()
	wd.running--
	last := wd.running == 0
	wd.mu.Unlock()
	if last {
		wd.schedule()
	}
}

func (wd *World) park(t *Thread, op pendingOp) {
	t.op = op
	t.parked = true
	wd.stop()
	<-t.wake
	if wd.aborting {
		panic(abortSentinel)
	}
}

// me returns the running thread (valid whenever exactly one thread runs).
func (wd *World) me() *Thread {
	if wd.aborting {
		panic(abortSentinel)
	}
	t := wd.cur
	if t == nil {
		panic("vrt: operation with no current thread (uninstrumented goroutine?)")
	}
	return t
}

// ---------------------------------------------------------------------------
// scheduler

type transition struct {
	t     *Thread
	cs    int // chosen case (-1 default) for chan ops
	p     *Thread
	pcs   int
	timer bool
}

func (wd *World) finish() {
	if wd.finished {
		return
	}
	wd.finished = true
	r := wd.res
	r.DriverDone = wd.threads[0].done
	for _, t := range wd.threads {
		if !t.done {
			r.Blocked = append(r.Blocked, BlockedInfo{Thread: t.name, Op: t.op.describe()})
		}
	}
	wd.aborting = true
	for _, t := range wd.threads {
		if !t.done {
			select {
			case t.wake <- struct{}{}:
			default:
			}
		}
	}
	close(wd.done)
}

func (wd *World) schedule() {
	for {
		if len(wd.panics) > 0 || wd.threads[0].done {
			wd.finish()
			return
		}
		if wd.steps >= wd.cfg.MaxSteps {
			wd.res.StepLimit = true
			wd.finish()
			return
		}
		en := wd.enabled()
		if len(en) == 0 {
			if wd.advance() {
				continue
			}
			wd.finish()
			return
		}
		idx := 0
		pos := len(wd.trace)
		if pos < len(wd.prefix) {
			idx = wd.prefix[pos]
			if idx >= len(en) || (pos < len(wd.widths) && wd.widths[pos] != len(en)) {
				wd.res.Diverged = fmt.Sprintf("point %d: replay wants choice %d of width %d, world offers %d", pos, idx, wdAt(wd.widths, pos), len(en))
				wd.finish()
				return
			}
		}
		pt := Point{Width: len(en), Choice: idx}
		if len(en) > 1 {
			pt.Pre = wd.last != nil && en[0].t == wd.last
			if wd.cfg.NeedTids || wd.cfg.Verbose {
				pt.Tids = make([]int16, len(en))
				for i, tr := range en {
					pt.Tids[i] = int16(tr.t.id)
				}
			}
		}
		if wd.cfg.Verbose {
			var sb strings.Builder
			for i, tr := range en {
				if i == idx {
					sb.WriteString(" *")
				} else {
					sb.WriteString("  ")
				}
				sb.WriteString(tr.describe())
				sb.WriteString(";")
			}
			pt.Desc = fmt.Sprintf("t=%v%s", time.Duration(wd.now), sb.String())
		}
		wd.trace = append(wd.trace, pt)
		wd.steps++
		if wd.steps&15 == 0 {
			atomic.StoreInt64(&wd.beat, time.Now().UnixNano())
		}
		wd.fire(en[idx])
		return
	}
}

func wdAt(ws []int, i int) int {
	if i < len(ws) {
		return ws[i]
	}
	return -1
}

func (wd *World) fire(tr transition) {
	t := tr.t
	wd.last = t
	switch t.op.kind {
	case opLock:
		t.op.mu.locked = true
	case opRLock:
		t.op.rw.readers++
	case opWLock:
		t.op.rw.writer = true
	}
	t.chosen = tr.cs
	t.rdv = tr.p != nil
	t.parked = false
	if tr.p != nil {
		p := tr.p
		p.chosen = tr.pcs
		p.rdv = true
		p.parked = false
		wd.running = 2
		wd.cur = nil
		t.wake <- struct{}{}
		p.wake <- struct{}{}
		return
	}
	wd.running = 1
	wd.cur = t
	t.wake <- struct{}{}
}

// order of threads: last running first, then ascending (or descending) id.
func (wd *World) order() []*Thread {
	out := wd.ordBuf[:0]
	if wd.last != nil && !wd.last.done {
		out = append(out, wd.last)
	}
	if wd.cfg.ReverseBase {
		for i := len(wd.threads) - 1; i >= 0; i-- {
			if t := wd.threads[i]; t != wd.last && !t.done {
				out = append(out, t)
			}
		}
	} else {
		for _, t := range wd.threads {
			if t != wd.last && !t.done {
				out = append(out, t)
			}
		}
	}
	wd.ordBuf = out
	return out
}

type rdvKey struct{ s, sc, r, rc int }

func (wd *World) enabled() []transition {
	en := wd.enBuf[:0]
	var seen map[rdvKey]bool
	quiesce := wd.qBuf[:0]
	for _, t := range wd.order() {
		if !t.parked {
			continue
		}
		op := &t.op
		switch op.kind {
		case opNone:
			en = append(en, transition{t: t})
		case opLock:
			if !op.mu.locked {
				en = append(en, transition{t: t})
			}
		case opRLock:
			if !op.rw.writer {
				en = append(en, transition{t: t})
			}
		case opWLock:
			if !op.rw.writer && op.rw.readers == 0 {
				en = append(en, transition{t: t})
			}
		case opWait:
			if op.wg.n == 0 {
				en = append(en, transition{t: t})
			}
		case opSleep:
			if wd.now >= op.wakeAt {
				en = append(en, transition{t: t})
			}
		case opCond:
			if op.cond() {
				en = append(en, transition{t: t})
			}
		case opQuiesce:
			quiesce = append(quiesce, t)
		case opChan:
			any := false
			for ci := range op.cases {
				c := &op.cases[ci]
				if c.nilc {
					continue
				}
				n, cp := c.rv.Len(), c.rv.Cap()
				if wd.closed[c.ptr] {
					// recv on closed: ready (after buffer drained too); send on closed: panics for real
					en = append(en, transition{t: t, cs: ci})
					any = true
					continue
				}
				if cp > 0 {
					if (c.send && n < cp) || (!c.send && n > 0) {
						en = append(en, transition{t: t, cs: ci})
						any = true
					}
					continue
				}
				// unbuffered: need a partner blocked in the opposite operation
				for _, p := range wd.threads {
					if p == t || p.done || !p.parked || p.op.kind != opChan || p.op.hasDefault {
						continue
					}
					for pi := range p.op.cases {
						pc := &p.op.cases[pi]
						if pc.nilc || pc.ptr != c.ptr || pc.send == c.send {
							continue
						}
						var k rdvKey
						if c.send {
							k = rdvKey{t.id, ci, p.id, pi}
						} else {
							k = rdvKey{p.id, pi, t.id, ci}
						}
						any = true
						if seen == nil {
							seen = make(map[rdvKey]bool)
						}
						if seen[k] {
							continue
						}
						seen[k] = true
						en = append(en, transition{t: t, cs: ci, p: p, pcs: pi})
					}
				}
			}
			if !any && op.hasDefault {
				en = append(en, transition{t: t, cs: -1})
			}
		}
	}
	if len(en) == 0 && len(quiesce) > 0 {
		for _, t := range quiesce {
			en = append(en, transition{t: t})
		}
	}
	wd.enBuf, wd.qBuf = en, quiesce
	return en
}

// advance moves virtual time to the next deadline and fires due timers.
func (wd *World) advance() bool {
	next := int64(-1)
	for _, t := range wd.threads {
		if !t.done && t.parked && t.op.kind == opSleep {
			if next < 0 || t.op.wakeAt < next {
				next = t.op.wakeAt
			}
		}
	}
	for _, tm := range wd.timers {
		if tm.active && (next < 0 || tm.deadline < next) {
			next = tm.deadline
		}
	}
	if next < 0 {
		return false
	}
	if next > int64(wd.cfg.Horizon) {
		wd.res.HorizonHit = true
		return false
	}
	if next > wd.now {
		wd.now = next
	}
	for _, tm := range wd.timers {
		if tm.active && tm.deadline <= wd.now {
			select {
			case tm.c <- Base.Add(time.Duration(wd.now)):
			default:
			}
			if tm.period > 0 {
				tm.deadline += tm.period
			} else {
				tm.active = false
			}
		}
	}
	return true
}

func (tr transition) describe() string {
	s := tr.t.name + ":" + tr.t.op.describe()
	if tr.t.op.kind == opChan {
		s += fmt.Sprintf("#%d", tr.cs)
	}
	if tr.p != nil {
		s += "<->" + tr.p.name + fmt.Sprintf("#%d", tr.pcs)
	}
	return s
}

func (op *pendingOp) describe() string {
	k := ""
	switch op.kind {
	case opNone:
		k = "go"
	case opChan:
		if op.isSelect {
			k = "select"
			if op.hasDefault {
				k = "select+default"
			}
		} else if len(op.cases) == 1 && op.cases[0].send {
			k = "send"
		} else {
			k = "recv"
		}
	case opLock:
		k = "lock"
	case opRLock:
		k = "rlock"
	case opWLock:
		k = "wlock"
	case opWait:
		k = "wgwait"
	case opSleep:
		k = fmt.Sprintf("sleep(until %v)", time.Duration(op.wakeAt))
	case opCond:
		k = "wait"
	case opQuiesce:
		k = "quiesce"
	}
	if op.label != "" {
		k += "@" + op.label
	}
	return k
}

// ---------------------------------------------------------------------------
// API used by instrumented code

type Handle struct{ t *Thread }

type Case struct {
	send bool
	ch   interface{}
}

func SendCase(ch interface{}) Case { return Case{true, ch} }
func RecvCase(ch interface{}) Case { return Case{false, ch} }

func mkCase(c Case) chanCase {
	rv := reflect.ValueOf(c.ch)
	if rv.Kind() != reflect.Chan {
		panic("vrt: not a channel")
	}
	if rv.IsNil() {
		return chanCase{send: c.send, nilc: true}
	}
	return chanCase{send: c.send, rv: rv, ptr: rv.Pointer()}
}

// Go starts f as a new thread.
func Go(f func()) {
	wd := w
	if wd == nil {
		go f()
		return
	}
	if wd.aborting {
		return
	}
	parent := wd.me()
	t := wd.newThread("")
	t.name = fmt.Sprintf("T%d", t.id)
	if wd.cfg.Verbose {
		t.name += "(" + caller(2) + ")"
	}
	_ = parent
	wd.live.Add(1)
	go wd.threadMain(t, f, false)
}

// GoNamed is Go with a thread name (harness use).
func GoNamed(name string, f func()) {
	wd := w
	if wd == nil {
		go f()
		return
	}
	if wd.aborting {
		return
	}
	wd.me()
	t := wd.newThread("")
	t.name = fmt.Sprintf("T%d:%s", t.id, name)
	wd.live.Add(1)
	go wd.threadMain(t, f, false)
}

func label(wd *World) string {
	if wd.cfg.Verbose {
		return caller(3)
	}
	return ""
}

func BeforeSend(ch interface{}) Handle {
	wd := w
	if wd == nil {
		return Handle{}
	}
	t := wd.me()
	wd.park(t, pendingOp{kind: opChan, cases: []chanCase{mkCase(SendCase(ch))}, label: label(wd)})
	return Handle{t}
}

func BeforeRecv(ch interface{}) Handle {
	wd := w
	if wd == nil {
		return Handle{}
	}
	t := wd.me()
	wd.park(t, pendingOp{kind: opChan, cases: []chanCase{mkCase(RecvCase(ch))}, label: label(wd)})
	return Handle{t}
}

// Select parks until one of the cases can proceed (or, with a default, until
// scheduled) and returns the index of the case to execute, -1 for default.
// When inactive it returns (Handle{}, -2): the caller then runs the original
// select statement.
func Select(hasDefault bool, cases ...Case) (Handle, int) {
	wd := w
	if wd == nil {
		return Handle{}, -2
	}
	t := wd.me()
	cs := make([]chanCase, len(cases))
	for i, c := range cases {
		cs[i] = mkCase(c)
	}
	wd.park(t, pendingOp{kind: opChan, cases: cs, hasDefault: hasDefault, isSelect: true, label: label(wd)})
	return Handle{t}, t.chosen
}

// After is called right after the real channel operation. After a rendezvous
// two threads are running; both re-park here so that one of them continues.
func After(h Handle) {
	t := h.t
	if t == nil {
		return
	}
	wd := w
	if wd == nil || wd.aborting {
		if wd != nil {
			panic(abortSentinel)
		}
		return
	}
	if !t.rdv {
		return
	}
	t.rdv = false
	wd.park(t, pendingOp{kind: opNone, label: "after"})
}

func Close(ch interface{}) {
	rv := reflect.ValueOf(ch)
	wd := w
	if wd != nil {
		if wd.aborting {
			return
		}
		wd.mu.Lock()
		wd.closed[rv.Pointer()] = true
		wd.keep = append(wd.keep, rv)
		wd.mu.Unlock()
	}
	rv.Close()
}

// Yield is a pure scheduling point.
func Yield() {
	wd := w
	if wd == nil {
		return
	}
	if wd.aborting {
		return
	}
	t := wd.me()
	wd.park(t, pendingOp{kind: opNone, label: label(wd)})
}

// YieldG is a scheduling point that exists only when its group is active.
func YieldG(group string) {
	wd := w
	if wd == nil || wd.aborting || !wd.cfg.Groups[group] {
		return
	}
	t := wd.me()
	wd.park(t, pendingOp{kind: opNone, label: label(wd)})
}

// AtomicPoint is called by the vatomic shim before each operation.
func AtomicPoint() {
	wd := w
	if wd == nil || wd.aborting || !wd.cfg.AtomicPoints {
		return
	}
	t := wd.me()
	wd.park(t, pendingOp{kind: opNone, label: label(wd)})
}

// Choose is a free environment/data choice with n alternatives (0 = default).
func Choose(n int, lbl string) int {
	wd := w
	if wd == nil {
		return 0
	}
	wd.me()
	if n <= 1 {
		return 0
	}
	idx := 0
	pos := len(wd.trace)
	if pos < len(wd.prefix) {
		idx = wd.prefix[pos]
		if idx >= n || (pos < len(wd.widths) && wd.widths[pos] != n) {
			wd.res.Diverged = fmt.Sprintf("point %d: replay wants data choice %d of %d, world offers %d (%s)", pos, idx, wdAt(wd.widths, pos), n, lbl)
			idx = 0
		}
	}
	pt := Point{Width: n, Choice: idx, Kind: 1}
	if wd.cfg.Verbose {
		pt.Desc = fmt.Sprintf("choose %s = %d of %d", lbl, idx, n)
	}
	wd.trace = append(wd.trace, pt)
	return idx
}

// WaitUntil blocks the calling thread until cond (evaluated by the scheduler
// with the world stopped; must be side-effect free) holds.
func WaitUntil(lbl string, cond func() bool) {
	wd := w
	if wd == nil {
		panic("vrt.WaitUntil without world")
	}
	t := wd.me()
	wd.park(t, pendingOp{kind: opCond, cond: cond, label: lbl})
}

// Quiesce blocks until no other thread can move (virtual time does not advance).
func Quiesce() {
	wd := w
	if wd == nil {
		return
	}
	t := wd.me()
	wd.park(t, pendingOp{kind: opQuiesce})
}

// Sleep lets virtual time pass for the calling thread.
// satAdd: a deadline centuries away must not wrap around into the past (the Go runtime saturates too).
func satAdd(now, d int64) int64 {
	if d > 0 && now > math.MaxInt64-d {
		return math.MaxInt64
	}
	return now + d
}

func Sleep(d time.Duration) {
	wd := w
	if wd == nil {
		time.Sleep(d)
		return
	}
	if wd.aborting {
		panic(abortSentinel)
	}
	t := wd.me()
	if d <= 0 {
		wd.park(t, pendingOp{kind: opNone, label: "sleep0"})
		return
	}
	wd.park(t, pendingOp{kind: opSleep, wakeAt: satAdd(wd.now, int64(d)), label: label(wd)})
}

// Now returns the virtual wall-clock time.
func Now() time.Time {
	wd := w
	if wd == nil {
		return time.Now()
	}
	return Base.Add(time.Duration(wd.now))
}

// Elapsed returns virtual time since start.
func Elapsed() time.Duration {
	if w == nil {
		return 0
	}
	return time.Duration(w.now)
}

// NewTimer registers a one-shot (period 0) or periodic timer and returns its
// channel and id.
func NewTimer(d, period time.Duration) (chan time.Time, int) {
	wd := w
	c := make(chan time.Time, 1)
	if wd == nil {
		panic("vrt.NewTimer without world")
	}
	tm := &timer{id: len(wd.timers), c: c, deadline: satAdd(wd.now, int64(d)), period: int64(period), active: true}
	wd.timers = append(wd.timers, tm)
	return c, tm.id
}

func StopTimer(id int) bool {
	wd := w
	if wd == nil {
		return false
	}
	tm := wd.timers[id]
	was := tm.active
	tm.active = false
	return was
}

func ResetTimer(id int, d time.Duration) bool {
	wd := w
	if wd == nil {
		return false
	}
	tm := wd.timers[id]
	was := tm.active
	tm.active = true
	tm.deadline = satAdd(wd.now, int64(d))
	return was
}

// Logf appends to the execution log (verbose runs only).
func Logf(format string, a ...interface{}) {
	wd := w
	if wd == nil || !wd.cfg.Verbose {
		return
	}
	wd.mu.Lock()
	wd.log = append(wd.log, fmt.Sprintf("[%v] ", time.Duration(wd.now))+fmt.Sprintf(format, a...))
	wd.mu.Unlock()
}

// Env gives harness-installed environment objects to shims (vnet, vos).
func Env(key string) interface{} {
	wd := w
	if wd == nil {
		return nil
	}
	return wd.Env[key]
}

func SetEnv(key string, v interface{}) {
	if w != nil {
		w.Env[key] = v
	}
}

// ThreadCount returns the number of threads created so far.
func ThreadCount() int {
	if w == nil {
		return 0
	}
	return len(w.threads)
}

// ---------------------------------------------------------------------------
// state of shim primitives (kept here so the scheduler can read it)

type MutexState struct{ locked bool }
type RWState struct {
	writer  bool
	readers int
}
type WGState struct{ n int }

func Lock(m *MutexState) {
	wd := w
	t := wd.me()
	wd.park(t, pendingOp{kind: opLock, mu: m, label: label(wd)})
}

func Unlock(m *MutexState) {
	wd := w
	if wd == nil || wd.aborting {
		return
	}
	if !m.locked {
		panic("sync: unlock of unlocked mutex")
	}
	m.locked = false
}

func RLock(s *RWState) {
	wd := w
	t := wd.me()
	wd.park(t, pendingOp{kind: opRLock, rw: s, label: label(wd)})
}

func RUnlock(s *RWState) {
	wd := w
	if wd == nil || wd.aborting {
		return
	}
	if s.readers <= 0 {
		panic("sync: RUnlock of unlocked RWMutex")
	}
	s.readers--
}

func WLock(s *RWState) {
	wd := w
	t := wd.me()
	wd.park(t, pendingOp{kind: opWLock, rw: s, label: label(wd)})
}

func WUnlock(s *RWState) {
	wd := w
	if wd == nil || wd.aborting {
		return
	}
	if !s.writer {
		panic("sync: Unlock of unlocked RWMutex")
	}
	s.writer = false
}

func WGAdd(s *WGState, d int) {
	wd := w
	if wd == nil || wd.aborting {
		return
	}
	s.n += d
	if s.n < 0 {
		panic("sync: negative WaitGroup counter")
	}
}

func WGWait(s *WGState) {
	wd := w
	t := wd.me()
	wd.park(t, pendingOp{kind: opWait, wg: s, label: label(wd)})
}

// ---------------------------------------------------------------------------

func caller(skip int) string {
	pcs := make([]uintptr, 24)
	n := runtime.Callers(2, pcs)
	fr := runtime.CallersFrames(pcs[:n])
	for {
		f, more := fr.Next()
		if !strings.Contains(f.File, "/mc/vrt/") && !strings.Contains(f.Function, "runtime.") {
			parts := strings.Split(f.File, "/")
			if len(parts) > 2 {
				parts = parts[len(parts)-2:]
			}
			return fmt.Sprintf("%s:%d", strings.Join(parts, "/"), f.Line)
		}
		if !more {
			return "?"
		}
	}
}

// SortedKeys helps harnesses build canonical observations.
func SortedKeys(m map[string]int) []string {
	ks := make([]string, 0, len(m))
	for k := range m {
		ks = append(ks, k)
	}
	sort.Strings(ks)
	return ks
}

// SendTo / RecvFrom are guarded channel operations for hand-written harness
// code (which is not passed through the instrumenter).
func SendTo(ch interface{}, v interface{}) {
	h := BeforeSend(ch)
	reflect.ValueOf(ch).Send(reflect.ValueOf(v))
	After(h)
}

func RecvFrom(ch interface{}) (interface{}, bool) {
	h := BeforeRecv(ch)
	v, ok := reflect.ValueOf(ch).Recv()
	After(h)
	if !ok {
		return nil, false
	}
	return v.Interface(), true
}

// TryRecv is a non-blocking guarded receive for harness code: it succeeds
// only if a value is buffered or a sender is blocked on the channel.
func TryRecv(ch interface{}) (interface{}, bool) {
	h, k := Select(true, RecvCase(ch))
	if k != 0 {
		return nil, false
	}
	v, ok := reflect.ValueOf(ch).Recv()
	After(h)
	if !ok {
		return nil, false
	}
	return v.Interface(), true
}

// Steps returns the number of transitions fired so far in this execution.
func Steps() int {
	if w == nil {
		return 0
	}
	return w.steps
}
