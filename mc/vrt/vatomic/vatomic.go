// Package vatomic replaces "sync/atomic" in instrumented packages.
package vatomic

import (
	"sync/atomic"

	"verif/mc/vrt"
)

type Value struct{ real atomic.Value }

func (v *Value) Load() interface{}   { vrt.AtomicPoint(); return v.real.Load() }
func (v *Value) Store(x interface{}) { vrt.AtomicPoint(); v.real.Store(x) }

func AddInt64(p *int64, d int64) int64     { vrt.AtomicPoint(); return atomic.AddInt64(p, d) }
func LoadInt64(p *int64) int64             { vrt.AtomicPoint(); return atomic.LoadInt64(p) }
func StoreInt64(p *int64, v int64)         { vrt.AtomicPoint(); atomic.StoreInt64(p, v) }
func AddInt32(p *int32, d int32) int32     { vrt.AtomicPoint(); return atomic.AddInt32(p, d) }
func LoadInt32(p *int32) int32             { vrt.AtomicPoint(); return atomic.LoadInt32(p) }
func StoreInt32(p *int32, v int32)         { vrt.AtomicPoint(); atomic.StoreInt32(p, v) }
func AddUint64(p *uint64, d uint64) uint64 { vrt.AtomicPoint(); return atomic.AddUint64(p, d) }
func LoadUint64(p *uint64) uint64          { vrt.AtomicPoint(); return atomic.LoadUint64(p) }
func StoreUint64(p *uint64, v uint64)      { vrt.AtomicPoint(); atomic.StoreUint64(p, v) }
func AddUint32(p *uint32, d uint32) uint32 { vrt.AtomicPoint(); return atomic.AddUint32(p, d) }
func LoadUint32(p *uint32) uint32          { vrt.AtomicPoint(); return atomic.LoadUint32(p) }
func StoreUint32(p *uint32, v uint32)      { vrt.AtomicPoint(); atomic.StoreUint32(p, v) }
func CompareAndSwapInt32(p *int32, o, n int32) bool {
	vrt.AtomicPoint()
	return atomic.CompareAndSwapInt32(p, o, n)
}
func CompareAndSwapInt64(p *int64, o, n int64) bool {
	vrt.AtomicPoint()
	return atomic.CompareAndSwapInt64(p, o, n)
}
