package vatomic

import (
	"sync/atomic"

	"verif/mc/vrt"
)

// The rest of sync/atomic: every operation is a scheduling point followed by the real operation.

func (v *Value) Swap(x interface{}) interface{} { vrt.AtomicPoint(); return v.real.Swap(x) }
func (v *Value) CompareAndSwap(o, n interface{}) bool {
	vrt.AtomicPoint()
	return v.real.CompareAndSwap(o, n)
}

func SwapInt32(p *int32, n int32) int32     { vrt.AtomicPoint(); return atomic.SwapInt32(p, n) }
func SwapInt64(p *int64, n int64) int64     { vrt.AtomicPoint(); return atomic.SwapInt64(p, n) }
func SwapUint32(p *uint32, n uint32) uint32 { vrt.AtomicPoint(); return atomic.SwapUint32(p, n) }
func SwapUint64(p *uint64, n uint64) uint64 { vrt.AtomicPoint(); return atomic.SwapUint64(p, n) }
func CompareAndSwapUint32(p *uint32, o, n uint32) bool {
	vrt.AtomicPoint()
	return atomic.CompareAndSwapUint32(p, o, n)
}
func CompareAndSwapUint64(p *uint64, o, n uint64) bool {
	vrt.AtomicPoint()
	return atomic.CompareAndSwapUint64(p, o, n)
}

type Int32 struct{ real atomic.Int32 }

func (x *Int32) Load() int32        { vrt.AtomicPoint(); return x.real.Load() }
func (x *Int32) Store(v int32)      { vrt.AtomicPoint(); x.real.Store(v) }
func (x *Int32) Add(d int32) int32  { vrt.AtomicPoint(); return x.real.Add(d) }
func (x *Int32) Swap(v int32) int32 { vrt.AtomicPoint(); return x.real.Swap(v) }
func (x *Int32) CompareAndSwap(o, n int32) bool {
	vrt.AtomicPoint()
	return x.real.CompareAndSwap(o, n)
}

type Int64 struct{ real atomic.Int64 }

func (x *Int64) Load() int64        { vrt.AtomicPoint(); return x.real.Load() }
func (x *Int64) Store(v int64)      { vrt.AtomicPoint(); x.real.Store(v) }
func (x *Int64) Add(d int64) int64  { vrt.AtomicPoint(); return x.real.Add(d) }
func (x *Int64) Swap(v int64) int64 { vrt.AtomicPoint(); return x.real.Swap(v) }
func (x *Int64) CompareAndSwap(o, n int64) bool {
	vrt.AtomicPoint()
	return x.real.CompareAndSwap(o, n)
}

type Uint32 struct{ real atomic.Uint32 }

func (x *Uint32) Load() uint32         { vrt.AtomicPoint(); return x.real.Load() }
func (x *Uint32) Store(v uint32)       { vrt.AtomicPoint(); x.real.Store(v) }
func (x *Uint32) Add(d uint32) uint32  { vrt.AtomicPoint(); return x.real.Add(d) }
func (x *Uint32) Swap(v uint32) uint32 { vrt.AtomicPoint(); return x.real.Swap(v) }
func (x *Uint32) CompareAndSwap(o, n uint32) bool {
	vrt.AtomicPoint()
	return x.real.CompareAndSwap(o, n)
}

type Uint64 struct{ real atomic.Uint64 }

func (x *Uint64) Load() uint64         { vrt.AtomicPoint(); return x.real.Load() }
func (x *Uint64) Store(v uint64)       { vrt.AtomicPoint(); x.real.Store(v) }
func (x *Uint64) Add(d uint64) uint64  { vrt.AtomicPoint(); return x.real.Add(d) }
func (x *Uint64) Swap(v uint64) uint64 { vrt.AtomicPoint(); return x.real.Swap(v) }
func (x *Uint64) CompareAndSwap(o, n uint64) bool {
	vrt.AtomicPoint()
	return x.real.CompareAndSwap(o, n)
}

type Bool struct{ real atomic.Bool }

func (x *Bool) Load() bool       { vrt.AtomicPoint(); return x.real.Load() }
func (x *Bool) Store(v bool)     { vrt.AtomicPoint(); x.real.Store(v) }
func (x *Bool) Swap(v bool) bool { vrt.AtomicPoint(); return x.real.Swap(v) }
func (x *Bool) CompareAndSwap(o, n bool) bool {
	vrt.AtomicPoint()
	return x.real.CompareAndSwap(o, n)
}

type Pointer[T any] struct{ real atomic.Pointer[T] }

func (x *Pointer[T]) Load() *T     { vrt.AtomicPoint(); return x.real.Load() }
func (x *Pointer[T]) Store(v *T)   { vrt.AtomicPoint(); x.real.Store(v) }
func (x *Pointer[T]) Swap(v *T) *T { vrt.AtomicPoint(); return x.real.Swap(v) }
func (x *Pointer[T]) CompareAndSwap(o, n *T) bool {
	vrt.AtomicPoint()
	return x.real.CompareAndSwap(o, n)
}
