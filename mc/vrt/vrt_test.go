package vrt

import (
	"fmt"
	"testing"
	"time"
)

type lostUpdate struct{ x int }

func (l *lostUpdate) Body() {
	done := make(chan bool)
	for i := 0; i < 2; i++ {
		Go(func() {
			Yield()
			v := l.x
			Yield()
			l.x = v + 1
			h := BeforeSend(done)
			done <- true
			After(h)
		})
	}
	for i := 0; i < 2; i++ {
		h := BeforeRecv(done)
		<-done
		After(h)
	}
}
func (l *lostUpdate) Check(r *Result) (string, string) {
	if !r.DriverDone {
		return "hang", "driver not done"
	}
	return fmt.Sprint(l.x), ""
}

func TestLostUpdate(t *testing.T) {
	for _, b := range []int{0, 1, 2} {
		s := &Scenario{Name: "lu", Bound: b, Model: CostPreemption, New: func() Exec { return &lostUpdate{} }}
		st := Explore(s, ExploreOpts{})
		t.Logf("bound %d: execs=%d outcomes=%v infra=%q", b, st.Executions, st.Outcomes, st.Infra)
		if st.Infra != "" {
			t.Fatal(st.Infra)
		}
		if b >= 1 && st.Outcomes["1"] == 0 {
			t.Fatalf("lost update not found at bound %d", b)
		}
	}
}

// non-blocking send to an unbuffered channel: succeeds only if receiver waits
type nbSend struct{ got, sent bool }

func (n *nbSend) Body() {
	c := make(chan int)
	fin := make(chan bool, 1)
	Go(func() {
		Yield()
		h, k := Select(false, RecvCase(c), RecvCase(Tm(50*time.Millisecond)))
		if k == 0 {
			<-c
			After(h)
			n.got = true
		}
		fin <- true
	})
	Yield()
	h, k := Select(true, SendCase(c))
	switch k {
	case 0:
		c <- 1
		After(h)
		n.sent = true
	default:
	}
	Sleep(time.Second)
}
func Tm(d time.Duration) chan time.Time { c, _ := NewTimer(d, 0); return c }
func (n *nbSend) Check(r *Result) (string, string) {
	if n.got != n.sent {
		return "", "mismatch"
	}
	return fmt.Sprint(n.sent), ""
}

func TestNonBlockingSend(t *testing.T) {
	s := &Scenario{Name: "nb", Bound: 2, Model: CostPreemption, New: func() Exec { return &nbSend{} }}
	st := Explore(s, ExploreOpts{})
	t.Logf("execs=%d outcomes=%v viol=%v infra=%q", st.Executions, st.Outcomes, st.Violations, st.Infra)
	if st.Outcomes["true"] == 0 || st.Outcomes["false"] == 0 || len(st.Violations) > 0 || st.Infra != "" {
		t.Fatal("expected both outcomes")
	}
}

type dl struct{}

func (dl) Body() {
	a, b := &MutexState{}, &MutexState{}
	fin := make(chan bool)
	Go(func() {
		Lock(a)
		Lock(b)
		Unlock(b)
		Unlock(a)
		h := BeforeSend(fin)
		fin <- true
		After(h)
	})
	Lock(b)
	Lock(a)
	Unlock(a)
	Unlock(b)
	h := BeforeRecv(fin)
	<-fin
	After(h)
}
func (dl) Check(r *Result) (string, string) {
	if !r.DriverDone {
		return "deadlock", "deadlock: " + fmt.Sprint(r.Blocked)
	}
	return "ok", ""
}

func TestDeadlock(t *testing.T) {
	s := &Scenario{Name: "dl", Bound: 1, Model: CostPreemption, New: func() Exec { return dl{} }}
	st := Explore(s, ExploreOpts{MaxViol: 1})
	t.Logf("execs=%d outcomes=%v viol=%d", st.Executions, st.Outcomes, len(st.Violations))
	if len(st.Violations) == 0 {
		t.Fatal("deadlock not found")
	}
	r, o, v := Replay(s, st.Violations[0].Prefix, st.Violations[0].Widths)
	if v == "" || o != "deadlock" {
		t.Fatal("replay did not reproduce")
	}
	for _, p := range r.Trace {
		t.Log(p.Desc)
	}
}

type tick struct{ n int }

func (k *tick) Body() {
	c, id := NewTimer(time.Second, time.Second)
	Go(func() {
		for {
			h := BeforeRecv(c)
			<-c
			After(h)
			k.n++
		}
	})
	Sleep(3500 * time.Millisecond)
	StopTimer(id)
}
func (k *tick) Check(r *Result) (string, string) { return fmt.Sprint(k.n), "" }

func TestTicker(t *testing.T) {
	s := &Scenario{Name: "tick", Bound: 0, New: func() Exec { return &tick{} }}
	st := Explore(s, ExploreOpts{})
	t.Logf("execs=%d outcomes=%v", st.Executions, st.Outcomes)
	if st.Outcomes["3"] != 1 {
		t.Fatal("expected 3 ticks")
	}
}

func BenchmarkRun(b *testing.B) {
	for i := 0; i < b.N; i++ {
		l := &lostUpdate{}
		Run(l.Body, nil, nil, Config{})
	}
}
