package vrt

import (
	"bufio"
	"encoding/json"
	"fmt"
	"io"
	"os"
	"os/exec"
	"runtime"
	"sort"
	"sync"
	"time"
)

// Exec is one execution of a scenario: Body runs as the driver thread under
// the scheduler, Check is evaluated afterwards (world stopped and torn down).
type Exec interface {
	Body()
	// Check returns a canonical description of what was observed (used to
	// count distinct outcomes and to verify replay determinism) and a
	// non-empty message if the oracle is violated.
	Check(r *Result) (outcome string, violation string)
}

type Scenario struct {
	Name  string
	Cfg   Config
	Model CostModel
	Bound int
	New   func() Exec
}

type Violation struct {
	Scenario string   `json:"scenario"`
	Prefix   []int    `json:"prefix"`
	Widths   []int    `json:"widths"`
	Cost     int      `json:"cost"`
	Msg      string   `json:"msg"`
	Outcome  string   `json:"outcome"`
	Trace    []string `json:"trace,omitempty"`
}

type Stats struct {
	Executions   int64            `json:"executions"`
	Points       int64            `json:"points"`
	Rechecked    int64            `json:"rechecked"`
	MaxTrace     int              `json:"max_trace"`
	MaxThreads   int              `json:"max_threads"`
	Outcomes     map[string]int   `json:"outcomes"`
	Violations   []Violation      `json:"violations"`
	Capped       bool             `json:"capped"`
	StepLimits   int64            `json:"step_limits"`
	Infra        string           `json:"infra,omitempty"`
	Fatal        bool             `json:"fatal,omitempty"` // the worker process exits after this result (watchdog)
	Counters     map[string]int64 `json:"counters,omitempty"`
	Sample       []string         `json:"sample,omitempty"`
	SamplePrefix []int            `json:"sample_prefix,omitempty"`
	// Recycle: the worker's heap grew past RecycleHeap (the code under test keeps process-global
	// state, e.g. go-metrics' meter arbiter); it exits after this result and Rest is the unexplored
	// part of its depth-first stack, to be continued by a fresh process
	Recycle  bool   `json:"recycle,omitempty"`
	Rest     []item `json:"rest,omitempty"`
	Recycled int64  `json:"recycled,omitempty"`
}

// RecycleHeap is the live-heap size at which a worker process hands its remaining work back.
var RecycleHeap uint64 = 1 << 30

func (s *Stats) merge(o *Stats) {
	s.Executions += o.Executions
	s.Points += o.Points
	s.Rechecked += o.Rechecked
	s.StepLimits += o.StepLimits
	if o.MaxTrace > s.MaxTrace {
		s.MaxTrace = o.MaxTrace
	}
	if o.MaxThreads > s.MaxThreads {
		s.MaxThreads = o.MaxThreads
	}
	if s.Outcomes == nil {
		s.Outcomes = map[string]int{}
	}
	for k, v := range o.Outcomes {
		if len(s.Outcomes) < 5000 || s.Outcomes[k] > 0 {
			s.Outcomes[k] += v
		}
	}
	for k, v := range o.Counters {
		if s.Counters == nil {
			s.Counters = map[string]int64{}
		}
		s.Counters[k] += v
	}
	s.Violations = append(s.Violations, o.Violations...)
	s.Capped = s.Capped || o.Capped
	s.Recycled += o.Recycled
	if o.Infra != "" && s.Infra == "" {
		s.Infra = o.Infra
	}
}

type item struct {
	Prefix []int  `json:"p"`
	Widths []int  `json:"w"`
	Cost   int    `json:"c"`
	Scn    string `json:"s,omitempty"`
	Whole  bool   `json:"whole,omitempty"`
	Stack  []item `json:"stack,omitempty"` // continue a depth-first search from this stack (top is last)
}

type explorer struct {
	scn      *Scenario
	deadline time.Time
	stats    Stats
	recheck  int
	maxViol  int
	worker   bool
}

func altCost(model CostModel, pt *Point, alt int) int {
	if alt == 0 || pt.Kind == 1 {
		return 0
	}
	if model == CostDelay {
		return 1
	}
	if pt.Pre && len(pt.Tids) > alt && pt.Tids[alt] != pt.Tids[0] {
		return 1
	}
	return 0
}

// runOne executes one prefix, checks it, and returns the children prefixes.
func (e *explorer) runOne(it item) []item {
	ex := e.scn.New()
	cfg := e.scn.Cfg
	cfg.NeedTids = e.scn.Model == CostPreemption
	r := Run(ex.Body, it.Prefix, it.Widths, cfg)
	e.stats.Executions++
	e.stats.Points += int64(len(r.Trace))
	if len(r.Trace) > e.stats.MaxTrace {
		e.stats.MaxTrace = len(r.Trace)
	}
	if r.Diverged != "" {
		e.stats.Infra = "NONDETERMINISM " + e.scn.Name + ": " + r.Diverged
		return nil
	}
	if r.StepLimit {
		e.stats.StepLimits++
	}
	outcome, viol := ex.Check(r)
	if c, ok := ex.(interface{ Counts() map[string]int64 }); ok {
		if e.stats.Counters == nil {
			e.stats.Counters = map[string]int64{}
		}
		for k, v := range c.Counts() {
			e.stats.Counters[k] += v
		}
	}
	if e.stats.Outcomes == nil {
		e.stats.Outcomes = map[string]int{}
	}
	if len(e.stats.Outcomes) < 5000 || e.stats.Outcomes[outcome] > 0 {
		e.stats.Outcomes[outcome]++
	}
	widths := make([]int, len(r.Trace))
	for i := range r.Trace {
		widths[i] = r.Trace[i].Width
	}
	choices := r.Choices()
	// determinism re-check: every recheck-th run and every failing run
	if viol != "" || (e.recheck > 0 && e.stats.Executions%int64(e.recheck) == 0) {
		n := 1
		if viol != "" {
			n = 4
		}
		for k := 0; k < n; k++ {
			ex2 := e.scn.New()
			r2 := Run(ex2.Body, choices, widths, e.scn.Cfg)
			o2, v2 := ex2.Check(r2)
			e.stats.Rechecked++
			if r2.Diverged != "" || o2 != outcome || (v2 == "") != (viol == "") {
				e.stats.Infra = fmt.Sprintf("NONDETERMINISM %s: replay of %v gave outcome %q/%q (diverged=%q), first run %q/%q", e.scn.Name, choices, o2, v2, r2.Diverged, outcome, viol)
				return nil
			}
		}
	}
	if viol != "" {
		if len(e.stats.Violations) < e.maxViol {
			e.stats.Violations = append(e.stats.Violations, Violation{Scenario: e.scn.Name, Prefix: choices, Widths: widths, Cost: it.Cost, Msg: viol, Outcome: outcome})
		}
		return nil
	}
	var kids []item
	for i := len(it.Prefix); i < len(r.Trace); i++ {
		pt := &r.Trace[i]
		for alt := 1; alt < pt.Width; alt++ {
			c := it.Cost + altCost(e.scn.Model, pt, alt)
			if c > e.scn.Bound {
				continue
			}
			p := make([]int, i+1)
			copy(p, choices[:i])
			p[i] = alt
			kids = append(kids, item{Prefix: p, Widths: widths[:i+1], Cost: c})
		}
	}
	return kids
}

func (e *explorer) stopNow() bool {
	if e.stats.Infra != "" || len(e.stats.Violations) >= e.maxViol {
		return true
	}
	if !e.deadline.IsZero() && time.Now().After(e.deadline) {
		e.stats.Capped = true
		return true
	}
	return false
}

// dfs explores the whole subtree below it.
func (e *explorer) dfs(root item) { e.dfsStack([]item{root}) }

func (e *explorer) dfsStack(stack []item) {
	var ms runtime.MemStats
	for len(stack) > 0 {
		if e.stopNow() {
			return
		}
		if e.worker && e.stats.Executions%128 == 127 {
			if runtime.ReadMemStats(&ms); ms.HeapAlloc > RecycleHeap {
				runtime.GC()
				if runtime.ReadMemStats(&ms); ms.HeapAlloc > RecycleHeap*3/4 {
					e.stats.Recycle, e.stats.Rest, e.stats.Recycled = true, stack, 1
					return
				}
			}
		}
		it := stack[len(stack)-1]
		stack = stack[:len(stack)-1]
		kids := e.runOne(it)
		for i := len(kids) - 1; i >= 0; i-- {
			stack = append(stack, kids[i])
		}
	}
}

func envOr(k, d string) string {
	if v := os.Getenv(k); v != "" {
		return v
	}
	return d
}

// ExploreOpts controls one exploration.
type ExploreOpts struct {
	Workers  int
	Deadline time.Time
	Recheck  int // re-execute every n-th run for the determinism check
	MaxViol  int
}

// Explore enumerates all executions of scn within its bound. With Workers>1
// the subtrees are handed to worker processes (this binary re-executed with
// VRT_WORKER=<scenario name>; the harness main must call ServeWorker first).
func Explore(scn *Scenario, o ExploreOpts) *Stats {
	if o.MaxViol == 0 {
		o.MaxViol = 3
	}
	if o.Recheck == 0 {
		o.Recheck = 97
	}
	e := &explorer{scn: scn, deadline: o.Deadline, recheck: o.Recheck, maxViol: o.MaxViol}
	if o.Workers <= 1 {
		e.dfs(item{})
		e.sample()
		return &e.stats
	}
	// expand breadth-first in the master until there are enough subtrees;
	// small scenarios finish here without any worker
	queue := []item{{}}
	target := o.Workers * 24
	for len(queue) > 0 && (len(queue) < target || e.stats.Executions < 2000) && !e.stopNow() {
		it := queue[0]
		queue = queue[1:]
		queue = append(queue, e.runOne(it)...)
	}
	if len(queue) == 0 || e.stopNow() {
		if len(queue) > 0 {
			e.stats.Capped = e.stats.Capped || e.stats.Infra == "" && len(e.stats.Violations) < e.maxViol
		}
		e.sample()
		return &e.stats
	}
	// largest subtrees are the shallowest prefixes: hand them out first
	sort.SliceStable(queue, func(i, j int) bool { return len(queue[i].Prefix) < len(queue[j].Prefix) })
	var mu sync.Mutex
	next := 0
	stop := false
	busy := 0
	var wg sync.WaitGroup
	for k := 0; k < o.Workers; k++ {
		wg.Add(1)
		go func() {
			defer wg.Done()
			var p *proc
			defer func() { p.close() }()
			for {
				mu.Lock()
				for !stop && next >= len(queue) && busy > 0 {
					// another worker may still hand back the rest of its stack
					mu.Unlock()
					time.Sleep(20 * time.Millisecond)
					mu.Lock()
				}
				if stop || next >= len(queue) {
					mu.Unlock()
					break
				}
				it := queue[next]
				it.Scn = scn.Name
				next++
				busy++
				mu.Unlock()
				if p == nil {
					var err error
					if p, err = startProc(o); err != nil {
						mu.Lock()
						e.stats.Infra, stop = "worker start: "+err.Error(), true
						busy--
						mu.Unlock()
						break
					}
				}
				st, err := p.roundtrip(it)
				mu.Lock()
				busy--
				if err != nil {
					e.stats.Infra, stop = "worker died: "+err.Error(), true
					mu.Unlock()
					break
				}
				e.stats.merge(st)
				if st.Recycle {
					if len(st.Rest) > 0 {
						queue = append(queue, item{Stack: st.Rest})
					}
				}
				if e.stats.Infra != "" || len(e.stats.Violations) >= e.maxViol || st.Capped || st.Fatal {
					stop = true
				}
				mu.Unlock()
				if st.Fatal || st.Recycle {
					p.close()
					p = nil
				}
			}
		}()
	}
	wg.Wait()
	if next < len(queue) && e.stats.Infra == "" && len(e.stats.Violations) < e.maxViol {
		e.stats.Capped = true
	}
	e.sample()
	return &e.stats
}

// sample records a verbose rendering of the default execution.
func (e *explorer) sample() {
	cfg := e.scn.Cfg
	cfg.Verbose = true
	ex := e.scn.New()
	r := Run(ex.Body, nil, nil, cfg)
	var lines []string
	for i, p := range r.Trace {
		if i >= 40 {
			lines = append(lines, fmt.Sprintf("... (%d points)", len(r.Trace)))
			break
		}
		lines = append(lines, p.Desc)
	}
	e.stats.Sample = lines
	if n := len(w0threads(r)); n > e.stats.MaxThreads {
		e.stats.MaxThreads = n
	}
}

func w0threads(r *Result) map[int16]bool {
	m := map[int16]bool{0: true}
	for _, p := range r.Trace {
		for _, t := range p.Tids {
			m[t] = true
		}
	}
	return m
}

// ServeWorker must be called at the start of main by harness binaries. If the
// process is a worker it serves requests on stdin (one JSON item per line:
// either a subtree of a scenario or a whole scenario) and exits at EOF.
func ServeWorker(scenarios func(name string) *Scenario) {
	if os.Getenv("VRT_WORKER") == "" {
		return
	}
	runtime.GOMAXPROCS(1)
	runtime.MemProfileRate = 0
	var dl time.Time
	var u int64
	fmt.Sscanf(os.Getenv("VRT_DEADLINE"), "%d", &u)
	if u > 0 {
		dl = time.Unix(u, 0)
	}
	recheck := 97
	fmt.Sscanf(os.Getenv("VRT_RECHECK"), "%d", &recheck)
	maxViol := 3
	fmt.Sscanf(os.Getenv("VRT_MAXVIOL"), "%d", &maxViol)
	if maxViol <= 0 {
		maxViol = 3
	}
	var mb uint64
	if fmt.Sscanf(os.Getenv("VRT_RECYCLE_MB"), "%d", &mb); mb > 0 {
		RecycleHeap = mb << 20
	}
	rd := bufio.NewReaderSize(os.Stdin, 1<<20)
	// results go to the original stdout; anything the code under test prints
	// to os.Stdout afterwards is discarded so it cannot corrupt the protocol
	out := bufio.NewWriter(os.NewFile(1, "stdout"))
	if dn, err := os.OpenFile(os.DevNull, os.O_WRONLY, 0); err == nil {
		os.Stdout = dn
	}
	for {
		line, err := rd.ReadBytes('\n')
		if err != nil {
			os.Exit(0)
		}
		var it item
		if err := json.Unmarshal(line, &it); err != nil {
			fmt.Fprintf(os.Stderr, "worker: bad item: %v\n", err)
			os.Exit(2)
		}
		scn := scenarios(it.Scn)
		if scn == nil {
			fmt.Fprintf(os.Stderr, "worker: unknown scenario %q\n", it.Scn)
			os.Exit(2)
		}
		e := &explorer{scn: scn, deadline: dl, recheck: recheck, maxViol: maxViol, worker: true}
		OnStuck = func(reason string, choices []int) {
			e.stats.Violations = append(e.stats.Violations, Violation{Scenario: scn.Name, Prefix: choices, Msg: reason + "\n(the schedule prefix reaches the point where the code stopped responding)", Outcome: "stuck"})
			e.stats.Fatal = true
			e.stats.Executions++
			b, _ := json.Marshal(&e.stats)
			out.Write(b)
			out.WriteByte('\n')
			out.Flush()
		}
		switch {
		case len(it.Stack) > 0:
			e.dfsStack(it.Stack)
		case it.Whole:
			e.dfs(item{})
		default:
			e.dfs(it)
		}
		if it.Whole && !e.stats.Recycle {
			e.sample()
		}
		b, _ := json.Marshal(&e.stats)
		out.Write(b)
		out.WriteByte('\n')
		out.Flush()
		if e.stats.Recycle {
			os.Exit(0)
		}
	}
}

// proc is one worker process.
type proc struct {
	cmd *exec.Cmd
	in  io.WriteCloser
	rd  *bufio.Reader
	enc *json.Encoder
}

func startProc(o ExploreOpts) (*proc, error) {
	cmd := exec.Command(os.Args[0], os.Args[1:]...)
	cmd.Env = append(os.Environ(), "VRT_WORKER=1", fmt.Sprintf("VRT_DEADLINE=%d", o.Deadline.Unix()), fmt.Sprintf("VRT_RECHECK=%d", o.Recheck), fmt.Sprintf("VRT_MAXVIOL=%d", o.MaxViol), "GOMAXPROCS=1", "GOGC="+envOr("VRT_WORKER_GOGC", "400"), "GOMEMLIMIT="+envOr("VRT_WORKER_MEMLIMIT", "2500MiB"), "GODEBUG="+envOr("VRT_WORKER_GODEBUG", ""))
	cmd.Stderr = os.Stderr
	in, _ := cmd.StdinPipe()
	out, _ := cmd.StdoutPipe()
	if err := cmd.Start(); err != nil {
		return nil, err
	}
	return &proc{cmd: cmd, in: in, rd: bufio.NewReaderSize(out, 1<<20), enc: json.NewEncoder(in)}, nil
}

func (p *proc) roundtrip(it item) (*Stats, error) {
	if err := p.enc.Encode(it); err != nil {
		return nil, err
	}
	line, err := p.rd.ReadBytes('\n')
	if err != nil {
		return nil, err
	}
	var st Stats
	if err := json.Unmarshal(line, &st); err != nil {
		return nil, fmt.Errorf("%v: %.200s", err, line)
	}
	return &st, nil
}

func (p *proc) close() {
	if p == nil || p.cmd == nil {
		return
	}
	p.in.Close()
	p.cmd.Wait()
	p.cmd = nil
}

// ExploreMany explores whole scenarios in parallel worker processes (one
// scenario per request). Results are returned in scenario order.
func ExploreMany(scns []*Scenario, o ExploreOpts) ([]*Stats, string) {
	res := make([]*Stats, len(scns))
	var mu sync.Mutex
	next := 0
	infra := ""
	var wg sync.WaitGroup
	nw := o.Workers
	if nw > len(scns) {
		nw = len(scns)
	}
	for k := 0; k < nw; k++ {
		wg.Add(1)
		go func() {
			defer wg.Done()
			var p *proc
			defer func() { p.close() }()
			for {
				mu.Lock()
				if infra != "" || next >= len(scns) || (!o.Deadline.IsZero() && time.Now().After(o.Deadline)) {
					mu.Unlock()
					break
				}
				i := next
				next++
				mu.Unlock()
				req := item{Scn: scns[i].Name, Whole: true}
				total := &Stats{}
				for {
					var st *Stats
					var err error
					if p == nil {
						p, err = startProc(o)
					}
					if err == nil {
						st, err = p.roundtrip(req)
					}
					if err != nil {
						mu.Lock()
						infra = fmt.Sprintf("worker failed on scenario %q: %v", scns[i].Name, err)
						mu.Unlock()
						return
					}
					total.merge(st)
					total.Sample, total.Fatal = st.Sample, st.Fatal
					if st.Fatal || st.Recycle {
						p.close() // the worker has exited
						p = nil
					}
					if !st.Recycle || len(st.Rest) == 0 || total.Infra != "" || len(total.Violations) >= o.MaxViol && o.MaxViol > 0 {
						break
					}
					req = item{Scn: scns[i].Name, Whole: true, Stack: st.Rest}
				}
				mu.Lock()
				res[i] = total
				if total.Infra != "" {
					infra = total.Infra
				}
				mu.Unlock()
			}
		}()
	}
	wg.Wait()
	return res, infra
}

// Replay re-executes one recorded choice sequence verbosely.
func Replay(scn *Scenario, prefix, widths []int) (*Result, string, string) {
	cfg := scn.Cfg
	cfg.Verbose = true
	ex := scn.New()
	r := Run(ex.Body, prefix, widths, cfg)
	o, v := ex.Check(r)
	return r, o, v
}
