// Package vos replaces "os" in the nsqd package with an in-memory filesystem
// that logs every mutating operation, so that "the process died between two
// filesystem operations" can be enumerated (every prefix of the log is a crash
// state). The filesystem is installed by the harness with vrt.SetEnv("fs", fs);
// without one the real os package is used.
package vos

import (
	"errors"
	"fmt"
	"io"
	"os"
	"sort"
	"strings"
	stdtime "time"

	"verif/mc/vrt"
)

type FileMode = os.FileMode

const (
	ModePerm = os.ModePerm
	O_RDONLY = os.O_RDONLY
	O_WRONLY = os.O_WRONLY
	O_RDWR   = os.O_RDWR
	O_CREATE = os.O_CREATE
	O_APPEND = os.O_APPEND
	O_TRUNC  = os.O_TRUNC
)

var Stderr = os.Stderr

func Exit(code int) { os.Exit(code) }

// Op is one logged mutating filesystem operation.
type Op struct {
	Kind string // mkdir create write sync close rename remove
	Path string
	To   string
	Off  int64
	Data []byte
}

func (o Op) String() string {
	switch o.Kind {
	case "write":
		return fmt.Sprintf("write(%s@%d,%dB)", short(o.Path), o.Off, len(o.Data))
	case "rename":
		return fmt.Sprintf("rename(%s->%s)", short(o.Path), short(o.To))
	}
	return o.Kind + "(" + short(o.Path) + ")"
}

func short(p string) string {
	if i := strings.LastIndex(p, "/"); i >= 0 {
		p = p[i+1:]
	}
	p = strings.Replace(p, ".diskqueue", "", 1)
	return p
}

// FS is the in-memory filesystem.
type FS struct {
	Files map[string][]byte
	Dirs  map[string]bool
	Log   []Op
	// CrashAfter >= 0: the operation with this log index and all later
	// mutating operations are not applied (the process is "dead"); reads
	// still work so that the dying code cannot observe anything new.
	CrashAfter int
	// Hook, if set, is called after every applied mutating operation.
	Hook func(fs *FS, op Op)
	// FailOpen makes OpenFile of matching paths fail (fault injection).
	FailOpen func(path string, flag int) error
}

func NewFS() *FS {
	return &FS{Files: map[string][]byte{}, Dirs: map[string]bool{}, CrashAfter: -1}
}

// Clone copies the durable state (files and directories), not the log.
func (fs *FS) Clone() *FS {
	n := NewFS()
	for k, v := range fs.Files {
		n.Files[k] = append([]byte(nil), v...)
	}
	for k := range fs.Dirs {
		n.Dirs[k] = true
	}
	return n
}

// Key is a canonical rendering of the durable state.
func (fs *FS) Key() string {
	names := make([]string, 0, len(fs.Files))
	for k := range fs.Files {
		names = append(names, k)
	}
	sort.Strings(names)
	var sb strings.Builder
	for _, n := range names {
		fmt.Fprintf(&sb, "%s=%x;", short(n), fs.Files[n])
	}
	return sb.String()
}

func (fs *FS) dead() bool { return fs.CrashAfter >= 0 && len(fs.Log) >= fs.CrashAfter }

// record logs op and reports whether it is to be applied.
func (fs *FS) record(op Op) bool {
	if fs.dead() {
		fs.Log = append(fs.Log, op)
		return false
	}
	fs.Log = append(fs.Log, op)
	return true
}

func (fs *FS) after(op Op) {
	if fs.Hook != nil {
		fs.Hook(fs, op)
	}
}

func cur() *FS {
	if f, ok := vrt.Env("fs").(*FS); ok {
		return f
	}
	return nil
}

type File struct {
	fs     *FS
	path   string
	pos    int64
	flag   int
	closed bool
	real   *os.File
}

var errClosed = errors.New("file already closed")

func IsNotExist(err error) bool { return os.IsNotExist(err) }

func MkdirAll(path string, perm FileMode) error {
	fs := cur()
	if fs == nil {
		return os.MkdirAll(path, perm)
	}
	if fs.Dirs[path] {
		return nil
	}
	op := Op{Kind: "mkdir", Path: path}
	if fs.record(op) {
		fs.Dirs[path] = true
		fs.after(op)
	}
	return nil
}

func Open(name string) (*File, error) { return OpenFile(name, O_RDONLY, 0) }

func OpenFile(name string, flag int, perm FileMode) (*File, error) {
	fs := cur()
	if fs == nil {
		f, err := os.OpenFile(name, flag, perm)
		if err != nil {
			return nil, err
		}
		return &File{real: f}, nil
	}
	if fs.FailOpen != nil {
		if err := fs.FailOpen(name, flag); err != nil {
			return nil, err
		}
	}
	_, exists := fs.Files[name]
	if !exists {
		if flag&O_CREATE == 0 {
			return nil, &os.PathError{Op: "open", Path: name, Err: os.ErrNotExist}
		}
		op := Op{Kind: "create", Path: name}
		if fs.record(op) {
			fs.Files[name] = []byte{}
			fs.after(op)
		}
	} else if flag&O_TRUNC != 0 {
		op := Op{Kind: "create", Path: name}
		if fs.record(op) {
			fs.Files[name] = []byte{}
			fs.after(op)
		}
	}
	return &File{fs: fs, path: name, flag: flag}, nil
}

func (f *File) Name() string {
	if f.real != nil {
		return f.real.Name()
	}
	return f.path
}

func (f *File) Read(b []byte) (int, error) {
	if f.real != nil {
		return f.real.Read(b)
	}
	if f.closed {
		return 0, errClosed
	}
	data := f.fs.Files[f.path]
	if f.pos >= int64(len(data)) {
		return 0, io.EOF
	}
	n := copy(b, data[f.pos:])
	f.pos += int64(n)
	return n, nil
}

func (f *File) Write(b []byte) (int, error) {
	if f.real != nil {
		return f.real.Write(b)
	}
	if f.closed {
		return 0, errClosed
	}
	if f.flag&(O_WRONLY|O_RDWR) == 0 {
		return 0, errors.New("bad file descriptor")
	}
	op := Op{Kind: "write", Path: f.path, Off: f.pos, Data: append([]byte(nil), b...)}
	if f.fs.record(op) {
		data, ok := f.fs.Files[f.path]
		if !ok {
			// unlinked while open: the write goes to the orphaned inode
			f.pos += int64(len(b))
			return len(b), nil
		}
		end := f.pos + int64(len(b))
		for int64(len(data)) < end {
			data = append(data, 0)
		}
		copy(data[f.pos:], b)
		f.fs.Files[f.path] = data
		f.fs.after(op)
	}
	f.pos += int64(len(b))
	return len(b), nil
}

func (f *File) Seek(off int64, whence int) (int64, error) {
	if f.real != nil {
		return f.real.Seek(off, whence)
	}
	if f.closed {
		return 0, errClosed
	}
	switch whence {
	case 0:
		f.pos = off
	case 1:
		f.pos += off
	case 2:
		f.pos = int64(len(f.fs.Files[f.path])) + off
	}
	return f.pos, nil
}

func (f *File) Sync() error {
	if f.real != nil {
		return f.real.Sync()
	}
	if f.closed {
		return errClosed
	}
	op := Op{Kind: "sync", Path: f.path}
	if f.fs.record(op) {
		f.fs.after(op)
	}
	return nil
}

func (f *File) Close() error {
	if f.real != nil {
		return f.real.Close()
	}
	if f.closed {
		return errClosed
	}
	f.closed = true
	return nil
}

func Remove(name string) error {
	fs := cur()
	if fs == nil {
		return os.Remove(name)
	}
	if _, ok := fs.Files[name]; !ok {
		return &os.PathError{Op: "remove", Path: name, Err: os.ErrNotExist}
	}
	op := Op{Kind: "remove", Path: name}
	if fs.record(op) {
		delete(fs.Files, name)
		fs.after(op)
	}
	return nil
}

func Rename(from, to string) error {
	fs := cur()
	if fs == nil {
		return os.Rename(from, to)
	}
	data, ok := fs.Files[from]
	if !ok {
		return &os.LinkError{Op: "rename", Old: from, New: to, Err: os.ErrNotExist}
	}
	op := Op{Kind: "rename", Path: from, To: to}
	if fs.record(op) {
		fs.Files[to] = data
		delete(fs.Files, from)
		fs.after(op)
	}
	return nil
}

// ---------------------------------------------------------------------------
// The rest of the os surface a change to the queue may plausibly reach for
// (file sizes, truncation, whole-file helpers). Mutating calls are logged like
// the ones above, so they are crash points too.

type FileInfo = os.FileInfo
type PathError = os.PathError
type LinkError = os.LinkError

const (
	O_EXCL   = os.O_EXCL
	O_SYNC   = os.O_SYNC
	SEEK_SET = 0
	SEEK_CUR = 1
	SEEK_END = 2
)

var (
	ErrNotExist = os.ErrNotExist
	ErrExist    = os.ErrExist
	ErrClosed   = os.ErrClosed
	Stdout      = os.Stdout
)

func IsExist(err error) bool    { return os.IsExist(err) }
func Getpid() int               { return 1 }
func Getenv(k string) string    { return os.Getenv(k) }
func Hostname() (string, error) { return "vhost", nil }
func TempDir() string           { return "/vtmp" }
func Create(name string) (*File, error) {
	return OpenFile(name, O_RDWR|O_CREATE|O_TRUNC, 0666)
}

type fileInfo struct {
	name string
	size int64
	dir  bool
}

func (fi fileInfo) Name() string { return fi.name }
func (fi fileInfo) Size() int64  { return fi.size }
func (fi fileInfo) Mode() FileMode {
	if fi.dir {
		return os.ModeDir | 0755
	}
	return 0600
}
func (fi fileInfo) ModTime() (t stdtime.Time) { return }
func (fi fileInfo) IsDir() bool               { return fi.dir }
func (fi fileInfo) Sys() interface{}          { return nil }

func base(p string) string {
	if i := strings.LastIndex(p, "/"); i >= 0 {
		return p[i+1:]
	}
	return p
}

func Stat(name string) (FileInfo, error) {
	fs := cur()
	if fs == nil {
		return os.Stat(name)
	}
	if d, ok := fs.Files[name]; ok {
		return fileInfo{name: base(name), size: int64(len(d))}, nil
	}
	if fs.Dirs[name] || fs.Dirs[strings.TrimSuffix(name, "/")] {
		return fileInfo{name: base(name), dir: true}, nil
	}
	return nil, &os.PathError{Op: "stat", Path: name, Err: os.ErrNotExist}
}

func Lstat(name string) (FileInfo, error) { return Stat(name) }

func (f *File) Stat() (FileInfo, error) {
	if f.real != nil {
		return f.real.Stat()
	}
	if f.closed {
		return nil, errClosed
	}
	return fileInfo{name: base(f.path), size: int64(len(f.fs.Files[f.path]))}, nil
}

func (fs *FS) truncate(name string, size int64) error {
	data, ok := fs.Files[name]
	if !ok {
		return &os.PathError{Op: "truncate", Path: name, Err: os.ErrNotExist}
	}
	op := Op{Kind: "truncate", Path: name, Off: size}
	if fs.record(op) {
		for int64(len(data)) < size {
			data = append(data, 0)
		}
		fs.Files[name] = append([]byte(nil), data[:size]...)
		fs.after(op)
	}
	return nil
}

func Truncate(name string, size int64) error {
	fs := cur()
	if fs == nil {
		return os.Truncate(name, size)
	}
	return fs.truncate(name, size)
}

func (f *File) Truncate(size int64) error {
	if f.real != nil {
		return f.real.Truncate(size)
	}
	if f.closed {
		return errClosed
	}
	if _, ok := f.fs.Files[f.path]; !ok {
		return nil // unlinked while open
	}
	return f.fs.truncate(f.path, size)
}

func (f *File) WriteString(s string) (int, error) { return f.Write([]byte(s)) }

func (f *File) ReadAt(b []byte, off int64) (int, error) {
	if f.real != nil {
		return f.real.ReadAt(b, off)
	}
	if f.closed {
		return 0, errClosed
	}
	data := f.fs.Files[f.path]
	if off >= int64(len(data)) {
		return 0, io.EOF
	}
	n := copy(b, data[off:])
	if n < len(b) {
		return n, io.EOF
	}
	return n, nil
}

func (f *File) WriteAt(b []byte, off int64) (int, error) {
	if f.real != nil {
		return f.real.WriteAt(b, off)
	}
	save := f.pos
	f.pos = off
	n, err := f.Write(b)
	f.pos = save
	return n, err
}

func ReadFile(name string) ([]byte, error) {
	fs := cur()
	if fs == nil {
		return os.ReadFile(name)
	}
	d, ok := fs.Files[name]
	if !ok {
		return nil, &os.PathError{Op: "open", Path: name, Err: os.ErrNotExist}
	}
	return append([]byte(nil), d...), nil
}

func WriteFile(name string, data []byte, perm FileMode) error {
	f, err := OpenFile(name, O_WRONLY|O_CREATE|O_TRUNC, perm)
	if err != nil {
		return err
	}
	_, err = f.Write(data)
	if e := f.Close(); err == nil {
		err = e
	}
	return err
}

func RemoveAll(path string) error {
	fs := cur()
	if fs == nil {
		return os.RemoveAll(path)
	}
	names := []string{}
	for n := range fs.Files {
		if n == path || strings.HasPrefix(n, strings.TrimSuffix(path, "/")+"/") {
			names = append(names, n)
		}
	}
	sort.Strings(names)
	for _, n := range names {
		if err := Remove(n); err != nil {
			return err
		}
	}
	return nil
}
