package vsync

import (
	"sync"

	"verif/mc/vrt"
)

func OnceFunc(f func()) func() { return sync.OnceFunc(f) }

// Cond: Wait releases L, parks until a Signal/Broadcast issued after the call, and takes L again.
type Cond struct {
	L    Locker
	real *sync.Cond
	q    []*bool
}

func NewCond(l Locker) *Cond { return &Cond{L: l, real: sync.NewCond(l)} }

func (c *Cond) Wait() {
	if !vrt.Active() {
		c.real.Wait()
		return
	}
	tok := new(bool)
	c.q = append(c.q, tok)
	c.L.Unlock()
	vrt.WaitUntil("Cond.Wait", func() bool { return *tok })
	c.L.Lock()
}

func (c *Cond) Signal() {
	if !vrt.Active() {
		c.real.Signal()
		return
	}
	vrt.AtomicPoint()
	if len(c.q) > 0 {
		*c.q[0] = true
		c.q = c.q[1:]
	}
}

func (c *Cond) Broadcast() {
	if !vrt.Active() {
		c.real.Broadcast()
		return
	}
	vrt.AtomicPoint()
	for _, t := range c.q {
		*t = true
	}
	c.q = nil
}
