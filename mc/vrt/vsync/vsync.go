// Package vsync replaces "sync" in instrumented packages.
package vsync

import (
	"sync"

	"verif/mc/vrt"
)

type Pool = sync.Pool
type Once = sync.Once
type Locker = sync.Locker

// Map is passed through: its operations are linearizable and never block, so they need no
// scheduling point of their own (statement-level yields around them expose check-then-act races).
type Map = sync.Map

type Mutex struct {
	real sync.Mutex
	st   vrt.MutexState
}

func (m *Mutex) Lock() {
	if !vrt.Active() {
		m.real.Lock()
		return
	}
	vrt.Lock(&m.st)
}

func (m *Mutex) Unlock() {
	if !vrt.Active() {
		m.real.Unlock()
		return
	}
	vrt.Unlock(&m.st)
}

type RWMutex struct {
	real sync.RWMutex
	st   vrt.RWState
}

func (m *RWMutex) Lock() {
	if !vrt.Active() {
		m.real.Lock()
		return
	}
	vrt.WLock(&m.st)
}

func (m *RWMutex) Unlock() {
	if !vrt.Active() {
		m.real.Unlock()
		return
	}
	vrt.WUnlock(&m.st)
}

func (m *RWMutex) RLock() {
	if !vrt.Active() {
		m.real.RLock()
		return
	}
	vrt.RLock(&m.st)
}

func (m *RWMutex) RUnlock() {
	if !vrt.Active() {
		m.real.RUnlock()
		return
	}
	vrt.RUnlock(&m.st)
}

type WaitGroup struct {
	real sync.WaitGroup
	st   vrt.WGState
}

func (g *WaitGroup) Add(d int) {
	if !vrt.Active() {
		g.real.Add(d)
		return
	}
	vrt.WGAdd(&g.st, d)
}

func (g *WaitGroup) Done() { g.Add(-1) }

func (g *WaitGroup) Wait() {
	if !vrt.Active() {
		g.real.Wait()
		return
	}
	vrt.WGWait(&g.st)
}
