// Package vnet replaces "net" in the destination package: TCP connections are
// served by an in-memory endpoint model installed by the harness
// (vrt.SetEnv("net", Network)). Without a model it falls through to the real
// network.
package vnet

import (
	"errors"
	"net"

	"verif/mc/vrt"
)

type TCPAddr = net.TCPAddr
type Conn = net.Conn
type Addr = net.Addr
type OpError = net.OpError

// Endpoint is one accepted connection of the modelled remote side.
type Endpoint interface {
	Read(b []byte) (int, error)  // blocks (vrt.WaitUntil) until the peer writes or closes
	Write(b []byte) (int, error) // may block when the modelled socket buffer is full
	Close() error
}

// Network decides what a dial reaches.
type Network interface {
	Dial(addr string) (Endpoint, error)
}

type TCPConn struct {
	ep   Endpoint
	real *net.TCPConn
}

func network() Network {
	if n, ok := vrt.Env("net").(Network); ok {
		return n
	}
	return nil
}

func ResolveTCPAddr(network_, addr string) (*TCPAddr, error) {
	if network() != nil {
		if addr == "" {
			return nil, errors.New("missing address")
		}
		return &TCPAddr{Zone: addr}, nil
	}
	return net.ResolveTCPAddr(network_, addr)
}

func DialTCP(network_ string, laddr, raddr *TCPAddr) (*TCPConn, error) {
	if n := network(); n != nil {
		ep, err := n.Dial(raddr.Zone)
		if err != nil {
			return nil, err
		}
		return &TCPConn{ep: ep}, nil
	}
	c, err := net.DialTCP(network_, laddr, raddr)
	if err != nil {
		return nil, err
	}
	return &TCPConn{real: c}, nil
}

func (c *TCPConn) Read(b []byte) (int, error) {
	if c.real != nil {
		return c.real.Read(b)
	}
	return c.ep.Read(b)
}

func (c *TCPConn) Write(b []byte) (int, error) {
	if c.real != nil {
		return c.real.Write(b)
	}
	return c.ep.Write(b)
}

func (c *TCPConn) Close() error {
	if c.real != nil {
		return c.real.Close()
	}
	return c.ep.Close()
}

// ---------------------------------------------------------------------------
// what package input needs: TCP listeners pass through to the real network,
// the UDP socket is a model when the harness installs one
// (vrt.SetEnv("udp", UDPModel)).

type TCPListener = net.TCPListener
type UDPAddr = net.UDPAddr

func ListenTCP(network string, laddr *TCPAddr) (*TCPListener, error) {
	return net.ListenTCP(network, laddr)
}

func ResolveUDPAddr(network, address string) (*UDPAddr, error) {
	if udpModel() != nil {
		return &UDPAddr{Zone: address}, nil
	}
	return net.ResolveUDPAddr(network, address)
}

// UDPModel delivers datagrams to the relay's UDP read loop.
type UDPModel interface {
	// ReadFrom blocks (vrt.WaitUntil) until a datagram is available or the socket is closed.
	ReadFrom(b []byte) (int, Addr, error)
	Close() error
}

type UDPConn struct {
	m    UDPModel
	real *net.UDPConn
}

func udpModel() UDPModel {
	if m, ok := vrt.Env("udp").(UDPModel); ok {
		return m
	}
	return nil
}

func ListenUDP(network string, laddr *UDPAddr) (*UDPConn, error) {
	if m := udpModel(); m != nil {
		return &UDPConn{m: m}, nil
	}
	c, err := net.ListenUDP(network, laddr)
	if err != nil {
		return nil, err
	}
	return &UDPConn{real: c}, nil
}

func (c *UDPConn) ReadFrom(b []byte) (int, Addr, error) {
	if c.real != nil {
		return c.real.ReadFrom(b)
	}
	return c.m.ReadFrom(b)
}

func (c *UDPConn) Close() error {
	if c.real != nil {
		return c.real.Close()
	}
	return c.m.Close()
}
