package vnet

import "net"

// The rest of the net surface that code in the instrumented packages may reach for without
// touching a socket: passed through unchanged, so that a change which names one of these still
// builds under instrumentation.

type (
	Error               = net.Error
	IP                  = net.IP
	IPMask              = net.IPMask
	IPNet               = net.IPNet
	IPAddr              = net.IPAddr
	Listener            = net.Listener
	PacketConn          = net.PacketConn
	AddrError           = net.AddrError
	DNSError            = net.DNSError
	ParseError          = net.ParseError
	UnknownNetworkError = net.UnknownNetworkError
	InvalidAddrError    = net.InvalidAddrError
	Dialer              = net.Dialer
	HardwareAddr        = net.HardwareAddr
)

var (
	ErrClosed    = net.ErrClosed
	IPv4zero     = net.IPv4zero
	IPv6zero     = net.IPv6zero
	IPv6loopback = net.IPv6loopback
)

func IPv4(a, b, c, d byte) IP                         { return net.IPv4(a, b, c, d) }
func ParseIP(s string) IP                             { return net.ParseIP(s) }
func ParseCIDR(s string) (IP, *IPNet, error)          { return net.ParseCIDR(s) }
func JoinHostPort(host, port string) string           { return net.JoinHostPort(host, port) }
func SplitHostPort(hp string) (string, string, error) { return net.SplitHostPort(hp) }
func LookupPort(network, service string) (int, error) { return net.LookupPort(network, service) }
func Pipe() (Conn, Conn)                              { return net.Pipe() }
