package vtime

import (
	"time"

	"verif/mc/vrt"
)

// The rest of the time surface: pure functions, types and constants are passed through; AfterFunc
// runs its function on a controlled thread once the virtual timer is due.

type (
	Weekday    = time.Weekday
	ParseError = time.ParseError
)

const (
	Layout      = time.Layout
	ANSIC       = time.ANSIC
	UnixDate    = time.UnixDate
	RubyDate    = time.RubyDate
	RFC822      = time.RFC822
	RFC822Z     = time.RFC822Z
	RFC850      = time.RFC850
	RFC1123     = time.RFC1123
	RFC1123Z    = time.RFC1123Z
	RFC3339Nano = time.RFC3339Nano
	Kitchen     = time.Kitchen
	Stamp       = time.Stamp
	StampMilli  = time.StampMilli
	StampMicro  = time.StampMicro
	StampNano   = time.StampNano
	DateTime    = time.DateTime
	DateOnly    = time.DateOnly
	TimeOnly    = time.TimeOnly

	January   = time.January
	February  = time.February
	March     = time.March
	April     = time.April
	May       = time.May
	June      = time.June
	July      = time.July
	August    = time.August
	September = time.September
	October   = time.October
	November  = time.November
	December  = time.December

	Sunday    = time.Sunday
	Monday    = time.Monday
	Tuesday   = time.Tuesday
	Wednesday = time.Wednesday
	Thursday  = time.Thursday
	Friday    = time.Friday
	Saturday  = time.Saturday
)

var Local = time.Local

func Parse(layout, value string) (Time, error) { return time.Parse(layout, value) }
func ParseInLocation(layout, value string, loc *Location) (Time, error) {
	return time.ParseInLocation(layout, value, loc)
}
func UnixMilli(ms int64) Time                     { return time.UnixMilli(ms) }
func UnixMicro(us int64) Time                     { return time.UnixMicro(us) }
func FixedZone(name string, offset int) *Location { return time.FixedZone(name, offset) }
func LoadLocation(name string) (*Location, error) { return time.LoadLocation(name) }

// AfterFunc: under a controlled execution the function runs on a thread of its own that waits for
// the virtual timer; Stop before the deadline prevents the call (the thread then stays parked and
// is reclaimed at the end of the execution).
func AfterFunc(d Duration, f func()) *Timer {
	if !vrt.Active() {
		r := time.AfterFunc(d, f)
		return &Timer{real: r}
	}
	c, id := vrt.NewTimer(d, 0)
	vrt.GoNamed("AfterFunc", func() {
		h := vrt.BeforeRecv(c)
		<-c
		vrt.After(h)
		f()
	})
	return &Timer{id: id}
}
