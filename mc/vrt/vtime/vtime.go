// Package vtime replaces "time" in instrumented packages: types and pure
// functions are passed through, everything that observes or waits for the
// clock is virtual while a controlled execution is active.
package vtime

import (
	"errors"
	"time"

	"verif/mc/vrt"
)

type Duration = time.Duration
type Time = time.Time
type Month = time.Month
type Location = time.Location

const (
	Nanosecond  = time.Nanosecond
	Microsecond = time.Microsecond
	Millisecond = time.Millisecond
	Second      = time.Second
	Minute      = time.Minute
	Hour        = time.Hour
	RFC3339     = time.RFC3339
)

var UTC = time.UTC

func ParseDuration(s string) (Duration, error) { return time.ParseDuration(s) }
func Unix(s, ns int64) Time                    { return time.Unix(s, ns) }
func Date(y int, m Month, d, h, mi, s, ns int, l *Location) Time {
	return time.Date(y, m, d, h, mi, s, ns, l)
}

func Now() Time { return vrt.Now() }

func Since(t Time) Duration { return vrt.Now().Sub(t) }
func Until(t Time) Duration { return t.Sub(vrt.Now()) }

func Sleep(d Duration) { vrt.Sleep(d) }

type Ticker struct {
	C    <-chan Time
	real *time.Ticker
	id   int
}

func NewTicker(d Duration) *Ticker {
	if d <= 0 {
		panic(errors.New("non-positive interval for NewTicker"))
	}
	if !vrt.Active() {
		r := time.NewTicker(d)
		return &Ticker{C: r.C, real: r}
	}
	c, id := vrt.NewTimer(d, d)
	return &Ticker{C: c, id: id}
}

func (t *Ticker) Stop() {
	if t.real != nil {
		t.real.Stop()
		return
	}
	vrt.StopTimer(t.id)
}

func Tick(d Duration) <-chan Time {
	if d <= 0 {
		return nil
	}
	return NewTicker(d).C
}

type Timer struct {
	C    <-chan Time
	real *time.Timer
	id   int
}

func NewTimer(d Duration) *Timer {
	if !vrt.Active() {
		r := time.NewTimer(d)
		return &Timer{C: r.C, real: r}
	}
	c, id := vrt.NewTimer(d, 0)
	return &Timer{C: c, id: id}
}

func (t *Timer) Stop() bool {
	if t.real != nil {
		return t.real.Stop()
	}
	return vrt.StopTimer(t.id)
}

func (t *Timer) Reset(d Duration) bool {
	if t.real != nil {
		return t.real.Reset(d)
	}
	return vrt.ResetTimer(t.id, d)
}

func After(d Duration) <-chan Time { return NewTimer(d).C }
