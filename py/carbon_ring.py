#!/usr/bin/env python3
"""Transcription of Carbon's consistent-hash ring (graphite carbon 0.9.x,
lib/carbon/hashing.py ConsistentHashRing and the part of lib/carbon/routers.py
ConsistentHashingRouter that turns destinations into ring nodes), i.e. the
classic algorithm before the later "bump the position on a collision" change.

Carbon 0.9.x is Python 2 code. Two things differ under Python 3 and are
restored here, everything else is the original text:

  * md5() wants bytes: keys are encoded (they are ASCII in Carbon anyway);
  * Python 2 orders values of different types (None < numbers < str < tuple,
    and None sorts before everything), Python 3 refuses to compare them. The
    ring is a sorted list of (position, (server, instance)) tuples where
    instance may be None, and get_nodes() bisects with (position, None), so
    the Python 2 order is part of the algorithm. py2key() maps a value to a
    Python 3 value that sorts the way the original sorts under Python 2, and
    the sorted list is kept through that key.

Usage:
  carbon_ring.py < request.json > response.json
    request : {"keys": [str, ...], "rings": [[[server, instance|null], ...], ...]}
    response: {"owners": [str, ...]}   one string per ring, one character per
              key: the index (0-9) into that ring's node list of get_node(key)
  carbon_ring.py --selftest
"""
import bisect
import json
import sys
from hashlib import md5


def py2key(x):
  """Order-embedding of Python 2's default ordering for the values the ring uses."""
  if x is None:
    return (0,)
  if isinstance(x, int):
    return (1, x)
  if isinstance(x, str):
    return (2, x.encode('latin-1'))
  if isinstance(x, tuple):
    return (3, tuple(py2key(e) for e in x))
  raise TypeError(type(x))


class ConsistentHashRing:
  def __init__(self, nodes, replica_count=100):
    self.ring = []
    self._ring_keys = []  # py2key(entry) for entry in self.ring
    self.nodes = set()
    self.replica_count = replica_count
    for node in nodes:
      self.add_node(node)

  def compute_ring_position(self, key):
    big_hash = md5(str(key).encode('latin-1')).hexdigest()
    small_hash = int(big_hash[:4], 16)
    return small_hash

  def add_node(self, node):
    self.nodes.add(node)
    for i in range(self.replica_count):
      replica_key = "%s:%d" % (node, i)
      position = self.compute_ring_position(replica_key)
      entry = (position, node)
      # bisect.insort(self.ring, entry)
      k = py2key(entry)
      at = bisect.bisect_right(self._ring_keys, k)
      self._ring_keys.insert(at, k)
      self.ring.insert(at, entry)

  def remove_node(self, node):
    self.nodes.discard(node)
    self.ring = [entry for entry in self.ring if entry[1] != node]
    self._ring_keys = [py2key(entry) for entry in self.ring]

  def get_node(self, key):
    assert self.ring
    node = None
    node_iter = self.get_nodes(key)
    node = next(node_iter)
    node_iter.close()
    return node

  def get_nodes(self, key):
    assert self.ring
    nodes = set()
    position = self.compute_ring_position(key)
    search_entry = (position, None)
    # index = bisect.bisect_left(self.ring, search_entry) % len(self.ring)
    index = bisect.bisect_left(self._ring_keys, py2key(search_entry)) % len(self.ring)
    last_index = (index - 1) % len(self.ring)
    while len(nodes) < len(self.nodes) and index != last_index:
      next_entry = self.ring[index]
      (position, next_node) = next_entry
      if next_node not in nodes:
        nodes.add(next_node)
        yield next_node

      index = (index + 1) % len(self.ring)


class ConsistentHashingRouter:
  """routers.py, replication factor 1: destinations are (server, port, instance)."""

  def __init__(self):
    self.instance_ports = {}  # { (server, instance) : port }
    self.ring = ConsistentHashRing([])

  def addDestination(self, destination):
    (server, port, instance) = destination
    if (server, instance) in self.instance_ports:
      raise Exception("destination instance (%s, %s) already configured" % (server, instance))
    self.instance_ports[(server, instance)] = port
    self.ring.add_node((server, instance))

  def removeDestination(self, destination):
    (server, port, instance) = destination
    if (server, instance) not in self.instance_ports:
      raise Exception("destination instance (%s, %s) not configured" % (server, instance))
    del self.instance_ports[(server, instance)]
    self.ring.remove_node((server, instance))

  def getDestination(self, key):
    (server, instance) = self.ring.get_node(key)
    port = self.instance_ports[(server, instance)]
    return (server, port, instance)


def owners(nodes, keys):
  router = ConsistentHashingRouter()
  index = {}
  for i, (server, instance) in enumerate(nodes):
    router.addDestination((server, 2003 + i, instance))
    index[(server, instance)] = i
  out = []
  for key in keys:
    (server, port, instance) = router.getDestination(key)
    assert port == 2003 + index[(server, instance)]
    out.append(str(index[(server, instance)]))
  return "".join(out)


def selftest():
  ring = ConsistentHashRing([])
  # values pinned by carbon-relay-ng's own test-suite, which took them from Carbon
  assert ring.compute_ring_position("a.b.c.d") == 54437
  assert ring.compute_ring_position("") == 54301
  ring = ConsistentHashRing([("10.0.0.1", None), ("127.0.0.1", "a"), ("127.0.0.1", "b")], replica_count=2)
  assert [p for (p, n) in ring.ring] == [7885, 10461, 24043, 35540, 46982, 54295], ring.ring
  assert py2key((5, None)) < py2key((5, ("h", None))) < py2key((5, ("h", "a"))) < py2key((5, ("i", None)))
  ring.remove_node(("127.0.0.1", "a"))
  assert [p for (p, n) in ring.ring] == [10461, 35540, 46982, 54295]
  print("ok")


def main():
  if len(sys.argv) > 1 and sys.argv[1] == "--selftest":
    selftest()
    return
  req = json.load(sys.stdin)
  keys = req["keys"]
  res = {"owners": [owners([(n[0], n[1]) for n in nodes], keys) for nodes in req["rings"]]}
  json.dump(res, sys.stdout)


if __name__ == "__main__":
  main()
