#!/usr/bin/env python3
"""CPython side of the C16 check (batch decoder).

stdin, one request per line:
    P <id> <hex>     a carbon pickle frame: 4-byte big-endian length + pickle payload
    F <id> <token>   a float spelling (cross-check of the harness' reference parser)
stdout, one JSON object per request, same order:
    P: {"id", "prefix", "payload_len", "consumed", "obj": <typed tree>} or {"id", "error"}
    F: {"id", "bits": "<16 hex digits of the IEEE-754 double>", "nan": bool} or {"id", "error"}

The typed tree keeps Python's types apart (list vs tuple, int vs float vs bool,
str vs bytes), which json.dumps of the object itself would not.
"""
import io
import json
import pickle
import struct
import sys


def tree(o):
    t = type(o)
    if t is list:
        return {"t": "list", "v": [tree(x) for x in o]}
    if t is tuple:
        return {"t": "tuple", "v": [tree(x) for x in o]}
    if t is str:
        return {"t": "str", "v": o}
    if t is bytes:
        return {"t": "bytes", "v": o.hex()}
    if t is bool:
        return {"t": "bool", "v": str(o)}
    if t is int:
        return {"t": "int", "v": str(o)}
    if t is float:
        return {"t": "float", "v": struct.pack(">d", o).hex(), "nan": o != o}
    return {"t": t.__name__, "v": repr(o)}


def do_pickle(ident, hx):
    try:
        b = bytes.fromhex(hx)
        if len(b) < 4:
            return {"id": ident, "error": "frame shorter than its length prefix"}
        prefix = struct.unpack(">I", b[:4])[0]
        payload = b[4:]
        f = io.BytesIO(payload)
        obj = pickle.Unpickler(f).load()
        return {"id": ident, "prefix": prefix, "payload_len": len(payload), "consumed": f.tell(), "obj": tree(obj)}
    except Exception as e:  # noqa: BLE001 - every decoding failure is a result
        return {"id": ident, "error": "%s: %s" % (type(e).__name__, e)}


def do_float(ident, tok):
    try:
        try:
            v = float(tok)
        except ValueError:
            v = float.fromhex(tok)  # C99 hex floats: float() refuses them, fromhex accepts
        return {"id": ident, "bits": struct.pack(">d", v).hex(), "nan": v != v}
    except Exception as e:  # noqa: BLE001
        return {"id": ident, "error": "%s: %s" % (type(e).__name__, e)}


def main():
    out = sys.stdout
    for line in sys.stdin:
        parts = line.split()
        if not parts:
            continue
        if parts[0] == "P" and len(parts) == 3:
            r = do_pickle(parts[1], parts[2])
        elif parts[0] == "F" and len(parts) == 3:
            r = do_float(parts[1], parts[2])
        else:
            r = {"id": parts[1] if len(parts) > 1 else "", "error": "bad request"}
        out.write(json.dumps(r) + "\n")
    out.flush()


if __name__ == "__main__":
    main()
