#!/usr/bin/env python3
"""Corpus generator for the C13 check (pickle input == plain-text input).

    python3 py/gen_pickles.py --out mc/props/c13/corpus.json
    python3 py/gen_pickles.py --check-py2 /path/to/python2.7   (optional cross-check)

Every frame of the corpus is what CPython writes for a carbon "pickle
protocol" message: pickle.dumps(datapoints, protocol=p) preceded by the
4-byte big-endian payload length.

* flavour "py3": pickle.dumps of CPython 3 (the interpreter running this
  script), protocols 0-4.
* flavour "py2": CPython 3 cannot emit the Python-2 byte-string opcodes
  (S / U / T), the Python-2 `I<big>` int spelling or `long` objects, so those
  frames are assembled by Py2Pickler below, a transcription of the save_*
  methods of CPython 2.7's Lib/pickle.py (protocols 0-2, memo PUTs included).
  Each of them is verified with pickletools.dis and by loading it with
  pickle.loads(encoding="bytes"); --check-py2 additionally compares every
  py2 frame byte for byte with a real CPython 2.7 when one is available.

The corpus is a finite, fully enumerated shape space (see build_corpus); the
output is deterministic: no randomness, no time, no interpreter version.
"""
import io
import itertools
import json
import pickle
import pickletools
import struct
import subprocess
import sys

# ----------------------------------------------------------------------------
# CPython 2.7 pickle.py, transcribed (only the types a datapoint list can hold)


class Py2Str(bytes):
    """CPython 2 `str` (a byte string)."""


class Py2Long(int):
    """CPython 2 `long`. A plain int stands for a CPython 2 `int` (64-bit build)."""


def py2_repr_str(b):
    """repr() of a CPython 2 str."""
    quote = "'"
    if b"'" in b and b'"' not in b:
        quote = '"'
    out = [quote]
    for c in b:
        ch = chr(c)
        if ch == quote or ch == "\\":
            out.append("\\" + ch)
        elif ch == "\t":
            out.append("\\t")
        elif ch == "\n":
            out.append("\\n")
        elif ch == "\r":
            out.append("\\r")
        elif c < 0x20 or c >= 0x7f:
            out.append("\\x%02x" % c)
        else:
            out.append(ch)
    out.append(quote)
    return "".join(out).encode("ascii")


def py2_encode_long(x):
    if x == 0:
        return b""
    nbytes = (x.bit_length() >> 3) + 1
    result = x.to_bytes(nbytes, byteorder="little", signed=True)
    if x < 0 and nbytes > 1:
        if result[-1] == 0xFF and (result[-2] & 0x80) != 0:
            result = result[:-1]
    return result


class Py2Pickler:
    BATCHSIZE = 1000

    def __init__(self, proto):
        assert 0 <= proto <= 2
        self.proto = proto
        self.bin = proto >= 1
        self.out = io.BytesIO()
        self.write = self.out.write
        self.memo = {}
        self.keep = []  # keeps memoized objects alive so ids stay unique

    def dumps(self, obj):
        if self.proto >= 2:
            self.write(b"\x80" + bytes([self.proto]))
        self.save(obj)
        self.write(b".")
        return self.out.getvalue()

    def memoize(self, obj):
        assert id(obj) not in self.memo
        n = len(self.memo)
        self.write(self.put(n))
        self.memo[id(obj)] = n
        self.keep.append(obj)

    def put(self, i):
        if self.bin:
            if i < 256:
                return b"q" + bytes([i])
            return b"r" + struct.pack("<i", i)
        return b"p" + repr(i).encode() + b"\n"

    def get(self, i):
        if self.bin:
            if i < 256:
                return b"h" + bytes([i])
            return b"j" + struct.pack("<i", i)
        return b"g" + repr(i).encode() + b"\n"

    def save(self, obj):
        if id(obj) in self.memo:
            self.write(self.get(self.memo[id(obj)]))
            return
        t = type(obj)
        if obj is None:
            self.write(b"N")
        elif t is bool:
            if self.proto >= 2:
                self.write(b"\x88" if obj else b"\x89")
            else:
                self.write(b"I01\n" if obj else b"I00\n")
        elif t is Py2Long:
            self.save_long(int(obj))
        elif t is int:
            self.save_int(obj)
        elif t is float:
            self.save_float(obj)
        elif t is Py2Str:
            self.save_string(obj)
        elif t is str:
            self.save_unicode(obj)
        elif t is tuple:
            self.save_tuple(obj)
        elif t is list:
            self.save_list(obj)
        elif t is dict:
            self.save_dict(obj)
        else:
            raise TypeError(t)

    def save_int(self, obj):
        assert -2**63 <= obj < 2**63
        if self.bin:
            if obj >= 0:
                if obj <= 0xFF:
                    self.write(b"K" + bytes([obj]))
                    return
                if obj <= 0xFFFF:
                    self.write(b"M" + bytes([obj & 0xFF, obj >> 8]))
                    return
            high_bits = obj >> 31
            if high_bits == 0 or high_bits == -1:
                self.write(b"J" + struct.pack("<i", obj))
                return
        self.write(b"I" + repr(obj).encode() + b"\n")

    def save_long(self, obj):
        if self.proto >= 2:
            b = py2_encode_long(obj)
            n = len(b)
            if n < 256:
                self.write(b"\x8a" + bytes([n]) + b)
            else:
                self.write(b"\x8b" + struct.pack("<i", n) + b)
            return
        self.write(b"L" + repr(obj).encode() + b"L\n")

    def save_float(self, obj):
        if self.bin:
            self.write(b"G" + struct.pack(">d", obj))
        else:
            self.write(b"F" + repr(obj).encode() + b"\n")

    def save_string(self, obj):
        if self.bin:
            n = len(obj)
            if n < 256:
                self.write(b"U" + bytes([n]) + bytes(obj))
            else:
                self.write(b"T" + struct.pack("<i", n) + bytes(obj))
        else:
            self.write(b"S" + py2_repr_str(bytes(obj)) + b"\n")
        self.memoize(obj)

    def save_unicode(self, obj):
        if self.bin:
            enc = obj.encode("utf-8")
            self.write(b"X" + struct.pack("<i", len(enc)) + enc)
        else:
            o = obj.replace("\\", "\\u005c").replace("\n", "\\u000a")
            self.write(b"V" + o.encode("raw-unicode-escape") + b"\n")
        self.memoize(obj)

    def save_tuple(self, obj):
        n = len(obj)
        if n == 0:
            self.write(b")" if self.proto else b"(t")
            return
        if n <= 3 and self.proto >= 2:
            for e in obj:
                self.save(e)
            assert id(obj) not in self.memo  # no recursive tuples here
            self.write({1: b"\x85", 2: b"\x86", 3: b"\x87"}[n])
            self.memoize(obj)
            return
        self.write(b"(")
        for e in obj:
            self.save(e)
        assert id(obj) not in self.memo
        self.write(b"t")
        self.memoize(obj)

    def save_list(self, obj):
        self.write(b"]" if self.bin else b"(l")
        self.memoize(obj)
        items = list(obj)
        if not self.bin:
            for x in items:
                self.save(x)
                self.write(b"a")
            return
        for k in range(0, len(items), self.BATCHSIZE):
            tmp = items[k:k + self.BATCHSIZE]
            if len(tmp) > 1:
                self.write(b"(")
                for x in tmp:
                    self.save(x)
                self.write(b"e")
            elif tmp:
                self.save(tmp[0])
                self.write(b"a")

    def save_dict(self, obj):
        self.write(b"}" if self.bin else b"(d")
        self.memoize(obj)
        items = list(obj.items())
        if not self.bin:
            for k, v in items:
                self.save(k)
                self.save(v)
                self.write(b"s")
            return
        for j in range(0, len(items), self.BATCHSIZE):
            tmp = items[j:j + self.BATCHSIZE]
            if len(tmp) > 1:
                self.write(b"(")
                for k, v in tmp:
                    self.save(k)
                    self.save(v)
                self.write(b"u")
            elif tmp:
                k, v = tmp[0]
                self.save(k)
                self.save(v)
                self.write(b"s")


def py2_as_loaded(o):
    """What pickle.loads(..., encoding='bytes') of CPython 3 returns for a py2 object tree."""
    t = type(o)
    if t is Py2Str:
        return bytes(o)
    if t is Py2Long:
        return int(o)
    if t is tuple:
        return tuple(py2_as_loaded(x) for x in o)
    if t is list:
        return [py2_as_loaded(x) for x in o]
    if t is dict:
        return {py2_as_loaded(k): py2_as_loaded(v) for k, v in o.items()}
    return o


def py2_source(o, env):
    """Python-2 source text that rebuilds the tree with the same object sharing."""
    if id(o) in env:
        return env[id(o)]
    t = type(o)
    if o is None:
        s = "None"
    elif t is Py2Str:
        s = "fresh(%s)" % py2_repr_str(bytes(o)).decode()
    elif t is Py2Long:
        s = "long(%d)" % int(o)
    elif t is int:
        s = "int(%d)" % o
    elif t is float:
        s = "float(%r)" % repr(o)
    elif t is str:
        s = "fresh(%s.decode('utf-8'))" % py2_repr_str(o.encode("utf-8")).decode()
    elif t is tuple:
        s = "(" + "".join(py2_source(x, env) + "," for x in o) + ")"
    elif t is list:
        s = "[" + ",".join(py2_source(x, env) for x in o) + "]"
    elif t is dict:
        s = "{" + ",".join(py2_source(k, env) + ":" + py2_source(v, env) for k, v in o.items()) + "}"
    else:
        raise TypeError(t)
    if t in (Py2Str, str, tuple, list, dict) and len(o) > 0:
        name = "o%d" % len(env)
        env[id(o)] = name
        env.setdefault("_stmts", []).append("%s = %s" % (name, s))
        return name
    return s


# ----------------------------------------------------------------------------
# alphabets


def long_name(n):
    """Deterministic, non-periodic ASCII name of exactly n bytes."""
    s = ""
    k = 0
    while len(s) < n:
        s += "m%04d." % k
        k += 1
    s = s[:n]
    if s.endswith("."):
        s = s[:-1] + "x"
    return s


NAMES = [
    # id, kind, flavour, protocols, utf-8 bytes of the name, python type, full product?
    ("str-ascii", "ascii-str", "py3", (0, 1, 2, 3, 4), "a.b".encode(), "str", True),
    ("str-latin1", "nonascii-str-latin1", "py3", (0, 1, 2, 3, 4), "caf\u00e9.b".encode(), "str", True),
    ("str-bmp", "nonascii-str-bmp", "py3", (0, 1, 2, 3, 4), "\u65e5\u672c.b".encode(), "str", True),
    ("str-astral", "nonascii-str-astral", "py3", (0, 1, 2, 3, 4), "\U0001f600.b".encode(), "str", False),
    ("bytes-ascii", "py3-bytes", "py3", (3, 4), b"a.b", "bytes", True),
    ("str-ascii-1500", "ascii-str", "py3", (0, 1, 2, 3, 4), long_name(1500).encode(), "str", False),
    ("str-ascii-3000", "ascii-str", "py3", (0, 1, 2, 3, 4), long_name(3000).encode(), "str", False),
    ("bytes-ascii-1500", "py3-bytes", "py3", (3, 4), long_name(1500).encode(), "bytes", False),
    ("py2str-ascii", "py2-bytestr-ascii", "py2", (0, 1, 2), b"a.b", "py2str", True),
    ("py2str-utf8", "py2-bytestr-utf8", "py2", (0, 1, 2), "caf\u00e9.b".encode(), "py2str", True),
    ("py2str-ascii-1500", "py2-bytestr-ascii", "py2", (0, 1, 2), long_name(1500).encode(), "py2str", False),
    ("py2str-ascii-3000", "py2-bytestr-ascii", "py2", (0, 1, 2), long_name(3000).encode(), "py2str", False),
    ("py2uni-ascii", "py2-unicode-ascii", "py2", (0, 1, 2), b"a.b", "py2unicode", False),
]
NAME = {n[0]: n for n in NAMES}

# id -> (python type, python value)
TS = [
    ("0", "int", 0), ("255", "int", 255), ("256", "int", 256), ("65536", "int", 65536),
    ("2^31", "int", 2**31), ("2^32", "int", 2**32), ("1.5e9", "float", 1.5e9),
    ("s1500000000", "str", "1500000000"),
]
TS_PY2_EXTRA = [("2^31L", "long", 2**31), ("2^32L", "long", 2**32)]
# integers beyond 64 bits (og-rek yields *big.Int): outside the product, section 1b
BIG = [("2^63-1", 2**63 - 1), ("2^63", 2**63), ("2^64-1", 2**64 - 1), ("2^64+5", 2**64 + 5), ("10^30", 10**30),
       ("-2^63", -2**63), ("-2^63-1", -2**63 - 1), ("-2^64-5", -2**64 - 5)]
VAL = [
    ("0", "int", 0), ("1", "int", 1), ("-1", "int", -1), ("70000", "int", 70000),
    ("2^31", "int", 2**31), ("0.1", "float", 0.1), ("1e-7", "float", 1e-7), ("1e20", "float", 1e20),
    ("s1.5", "str", "1.5"),
]
VAL_PY2_EXTRA = [("2^31L", "long", 2**31)]
def _bigtyp(fl, v):
    return "int" if fl == "py3" or -2**63 <= v < 2**63 else "long"


TSD = {t[0]: t for t in TS + TS_PY2_EXTRA}
VALD = {v[0]: v for v in VAL + VAL_PY2_EXTRA}
for _fl in ("py3", "py2"):
    for _id, _v in BIG:
        VALD["%s:%s" % (_fl, _id)] = ("%s:%s" % (_fl, _id), _bigtyp(_fl, _v), _v)
        if _v >= 0:
            TSD["%s:%s" % (_fl, _id)] = ("%s:%s" % (_fl, _id), _bigtyp(_fl, _v), _v)

BASE = {"py3": "str-ascii", "py2": "py2str-ascii"}
PROTOS = {"py3": (0, 1, 2, 3, 4), "py2": (0, 1, 2)}
CONTAINERS = ("tt", "tl", "lt", "ll")  # item container, data container


def ts_text(typ, v):
    """Text of the field in the equivalent plain-text line."""
    if typ in ("int", "long"):
        return "%d" % v
    if typ == "str":
        return v
    assert float(v).is_integer()  # the plain protocol has integer timestamps only
    return "%d" % v


def val_text(typ, v):
    if typ in ("int", "long"):
        return "%d" % v
    if typ == "str":
        return v
    return "%f" % v  # "floating-point values to six decimals"


INVALID = [
    # id, description
    ("item-arity0", "item is an empty tuple"),
    ("item-arity1", "item is (name,)"),
    ("item-arity3", "item is (name, (ts, value), 3)"),
    ("item-dict", "item is {name: (ts, value)}"),
    ("item-none", "item is None"),
    ("item-str", "item is the string 'a.b 1 255'"),
    ("name-int", "name is the int 5"),
    ("name-none", "name is None"),
    ("name-float", "name is the float 1.5"),
    ("data-arity1", "data is (ts,)"),
    ("data-arity3", "data is (ts, value, 3)"),
    ("data-dict", "data is {ts: value}"),
    ("data-none", "data is None"),
    # shape (name, (ts, value)) intact, but a field of a type that is no number and no string
    ("value-none", "value is None"),
    ("value-dict", "value is {1: 2}"),
    ("ts-none", "timestamp is None"),
    ("ts-list", "timestamp is [255]"),
]


# ----------------------------------------------------------------------------
# object construction


def fresh_str(s):
    r = s.encode("utf-8").decode("utf-8")
    assert len(s) < 2 or r is not s
    return r


def mk_name(nid):
    _, _, flavour, _, raw, typ, _ = NAME[nid]
    if typ == "str" or typ == "py2unicode":
        return fresh_str(raw.decode("utf-8"))
    if typ == "bytes":
        return bytes(bytearray(raw))
    return Py2Str(raw)


def mk_scalar(flavour, typ, v):
    if typ == "int":
        return v
    if typ == "long":
        assert flavour == "py2"
        return Py2Long(v)
    if typ == "float":
        return float(v)
    return fresh_str(v) if flavour == "py3" else Py2Str(v.encode())


def cont(kind, elems):
    return tuple(elems) if kind == "t" else list(elems)


def mk_item(flavour, spec):
    """spec: [name id, ts id, value id, containers] or ["!", invalid id, containers]."""
    if spec[0] != "!":
        nid, tid, vid, c = spec
        data = cont(c[1], [mk_scalar(flavour, *TSD[tid][1:]), mk_scalar(flavour, *VALD[vid][1:])])
        return cont(c[0], [mk_name(nid), data])
    kind, c = spec[1], spec[2]
    name = mk_name(BASE[flavour])
    ts, val = 255, 1
    data = cont(c[1], [ts, val])
    if kind == "item-arity0":
        return cont(c[0], [])
    if kind == "item-arity1":
        return cont(c[0], [name])
    if kind == "item-arity3":
        return cont(c[0], [name, data, 3])
    if kind == "item-dict":
        return {name: data}
    if kind == "item-none":
        return None
    if kind == "item-str":
        return mk_scalar(flavour, "str", "a.b 1 255")
    if kind == "name-int":
        return cont(c[0], [5, data])
    if kind == "name-none":
        return cont(c[0], [None, data])
    if kind == "name-float":
        return cont(c[0], [1.5, data])
    if kind == "data-arity1":
        return cont(c[0], [name, cont(c[1], [ts])])
    if kind == "data-arity3":
        return cont(c[0], [name, cont(c[1], [ts, val, 3])])
    if kind == "data-dict":
        return cont(c[0], [name, {ts: val}])
    if kind == "data-none":
        return cont(c[0], [name, None])
    if kind == "value-none":
        return cont(c[0], [name, cont(c[1], [ts, None])])
    if kind == "value-dict":
        return cont(c[0], [name, cont(c[1], [ts, {1: 2}])])
    if kind == "ts-none":
        return cont(c[0], [name, cont(c[1], [None, val])])
    if kind == "ts-list":
        return cont(c[0], [name, cont(c[1], [[255], val])])
    raise ValueError(kind)


def frame(payload):
    return struct.pack(">I", len(payload)) + payload


class Corpus:
    def __init__(self):
        self.frames = []
        self.conns = []
        self.py2_checks = []  # (frame id, proto, object) for --check-py2
        self.index = {}

    def add_frame(self, flavour, proto, items, share="", opt=False, key=None):
        """Pickle a datapoint list. share: '' (all objects fresh), 'item' (item 1 is the
        same object as item 0), 'name' (same name object), 'data' (same data object)."""
        k = key or (flavour, proto, json.dumps(items), share, opt)
        if k in self.index:
            return self.index[k]
        objs = [mk_item(flavour, it) for it in items]
        if share:
            assert len(objs) >= 2 and items[0][0] != "!" and items[1][0] != "!"
            if share == "item":
                assert items[0] == items[1]
                objs[1] = objs[0]
            elif share == "name":
                assert items[0][0] == items[1][0]
                objs[1] = cont(items[1][3][0], [objs[0][0], objs[1][1]])
            elif share == "data":
                assert items[0][1:3] == items[1][1:3] and items[0][3][1] == items[1][3][1]
                objs[1] = cont(items[1][3][0], [objs[1][0], objs[0][1]])
        if flavour == "py3":
            payload = pickle.dumps(objs, protocol=proto)
            if opt:
                payload = pickletools.optimize(payload)
            assert pickle.loads(payload) == objs
        else:
            assert not opt
            payload = Py2Pickler(proto).dumps(objs)
            try:
                pickletools.dis(payload, out=io.StringIO())  # raises on a malformed pickle
            except UnicodeDecodeError:
                # pickletools can only display ASCII STRING arguments; S'caf\xc3\xa9' is
                # well-formed (pickle.loads below decodes it), it just cannot be shown
                assert proto == 0 and b"\\x" in payload
            got = pickle.loads(payload, encoding="bytes")
            assert got == py2_as_loaded(objs), (payload, got)
            self.py2_checks.append((len(self.frames), proto, objs))
        f = {"i": len(self.frames), "f": flavour, "p": proto, "items": items, "hex": frame(payload).hex()}
        if share:
            f["share"] = share
        if opt:
            f["opt"] = 1
        self.frames.append(f)
        self.index[k] = f["i"]
        return f["i"]

    def add_raw(self, bad, note, wire, ends_stream, key=None):
        """A malformed frame given as wire bytes. ends_stream: the stream necessarily
        ends inside this frame (it is a truncation), so nothing can follow it."""
        k = key or ("raw", bad, note)
        if k in self.index:
            return self.index[k]
        f = {"i": len(self.frames), "bad": bad, "note": note, "hex": wire.hex()}
        if ends_stream:
            f["ends"] = 1
        self.frames.append(f)
        self.index[k] = f["i"]
        return f["i"]

    def conn(self, cls, frames):
        self.conns.append({"cls": cls, "frames": list(frames)})


def names_for(flavour, proto, full_only):
    return [n[0] for n in NAMES if n[2] == flavour and proto in n[3] and (n[6] or not full_only)]


def build_corpus():
    c = Corpus()

    # -- 1. lists of length 0 and 1: the full product
    for flavour in ("py3", "py2"):
        tss = [t[0] for t in TS] + ([t[0] for t in TS_PY2_EXTRA] if flavour == "py2" else [])
        vals = [v[0] for v in VAL] + ([v[0] for v in VAL_PY2_EXTRA] if flavour == "py2" else [])
        for proto in PROTOS[flavour]:
            c.conn("len0", [c.add_frame(flavour, proto, [])])
            if flavour == "py3":
                c.conn("len0-optimized", [c.add_frame(flavour, proto, [], opt=True)])
            # simplest first: number of non-baseline dimensions ascending is established by the checker;
            # here: names x ts x value x containers in alphabet order
            for nid in names_for(flavour, proto, True):
                for tid in tss:
                    for vid in vals:
                        for cc in CONTAINERS:
                            c.conn("len1", [c.add_frame(flavour, proto, [[nid, tid, vid, cc]])])
            # names outside the product: with baseline fields only
            for nid in names_for(flavour, proto, False):
                if not NAME[nid][6]:
                    c.conn("len1", [c.add_frame(flavour, proto, [[nid, "0", "0", "tt"]])])
            if flavour == "py3":
                c.conn("len1-optimized", [c.add_frame(flavour, proto, [[BASE[flavour], "0", "0", "tt"]], opt=True)])
                c.conn("len1-optimized", [c.add_frame(flavour, proto, [[BASE[flavour], "2^32", "0.1", "ll"]], opt=True)])

    # -- 1b. integers at and beyond the 64-bit boundary, as value and as timestamp
    for flavour in ("py3", "py2"):
        for proto in PROTOS[flavour]:
            for bid, v in BIG:
                k = "%s:%s" % (flavour, bid)
                for cc in ("tt", "ll"):
                    c.conn("bigint", [c.add_frame(flavour, proto, [[BASE[flavour], "255", k, cc]])])
                    if v >= 0:
                        c.conn("bigint", [c.add_frame(flavour, proto, [[BASE[flavour], k, "1", cc]])])
            k1, k2 = "%s:2^64+5" % flavour, "%s:-2^63-1" % flavour
            c.conn("bigint", [c.add_frame(flavour, proto, [[BASE[flavour], "0", k1, "tt"], [BASE[flavour], "255", "1", "tl"], [BASE[flavour], "65536", k2, "tt"]])])

    # -- 2. lists of length 2 and 3 over an item alphabet
    alpha = {
        "py3": [
            ["str-ascii", "0", "0", "tt"],
            ["str-ascii", "255", "1", "tl"],
            ["str-latin1", "1.5e9", "0.1", "lt"],
            ["str-bmp", "s1500000000", "s1.5", "ll"],
            ["str-ascii", "2^32", "2^31", "tt"],
            ["str-ascii", "65536", "-1", "tt"],
        ],
        "py2": [
            ["py2str-ascii", "0", "0", "tt"],
            ["py2str-ascii", "255", "1", "tl"],
            ["py2str-utf8", "1.5e9", "0.1", "lt"],
            ["py2str-ascii", "s1500000000", "s1.5", "ll"],
            ["py2str-ascii", "2^32L", "2^31L", "tt"],
            ["py2str-ascii", "65536", "-1", "tt"],
        ],
    }
    bytes_item = ["bytes-ascii", "256", "70000", "tt"]
    for flavour in ("py3", "py2"):
        for proto in PROTOS[flavour]:
            a = list(alpha[flavour])
            if flavour == "py3" and proto >= 3:
                a.append(bytes_item)
            for n in (2, 3):
                for seq in itertools.product(a, repeat=n):
                    c.conn("len%d" % n, [c.add_frame(flavour, proto, [list(x) for x in seq])])
            # object sharing (pickle memo GETs)
            it = a[1]
            c.conn("len2-shared-item", [c.add_frame(flavour, proto, [it, it], share="item")])
            c.conn("len2-shared-name", [c.add_frame(flavour, proto, [a[0], a[1]], share="name")])
            c.conn("len3-shared-data", [c.add_frame(flavour, proto, [a[1], [a[3][0], a[1][1], a[1][2], "ll"], a[0]], share="data")])

    # -- 3. one structurally invalid item at each position
    fill = {
        "py3": [["str-ascii", "255", "1", "tt"], ["str-bmp", "65536", "0.1", "tt"]],
        "py2": [["py2str-ascii", "255", "1", "tt"], ["py2str-utf8", "65536", "0.1", "tt"]],
    }
    for flavour in ("py3", "py2"):
        v1, v2 = fill[flavour]
        for proto in PROTOS[flavour]:
            for kind, _ in INVALID:
                ccs = CONTAINERS
                if kind in ("item-dict", "item-none", "item-str"):
                    ccs = ("tt",)
                elif kind in ("item-arity0", "item-arity1"):
                    ccs = ("tt", "lt")
                elif kind in ("data-dict", "data-none", "value-none", "value-dict", "ts-none", "ts-list"):
                    ccs = ("tt", "lt")
                for cc in ccs:
                    x = ["!", kind, cc]
                    shapes = [[x], [x, v1], [v1, x], [x, v1, v2], [v1, x, v2], [v1, v2, x]]
                    if cc != "tt":
                        shapes = [[x], [v1, x, v2]]
                    for sh in shapes:
                        c.conn("invalid-item", [c.add_frame(flavour, proto, sh)])
                # an invalid item at the end of a frame must not reach into the next frame of the connection
                last = c.add_frame(flavour, proto, [v1, ["!", kind, "tt"]])
                c.conn("invalid-item-frames", [last, c.add_frame(flavour, proto, [v2])])
            # two invalid items in one frame
            c.conn("invalid-item", [c.add_frame(flavour, proto, [["!", "value-none", "tt"], v1, ["!", "ts-none", "tt"], v2])])
            c.conn("invalid-item", [c.add_frame(flavour, proto, [["!", "item-arity1", "tt"], v1, ["!", "data-dict", "tt"]])])
            c.conn("invalid-item", [c.add_frame(flavour, proto, [["!", "name-int", "tt"], ["!", "item-none", "tt"], v1])])

    # -- 4. big frames: > 4096 and > 8192 payload bytes
    small = {}
    for flavour in ("py3", "py2"):
        for proto in PROTOS[flavour]:
            small[flavour, proto] = c.add_frame(flavour, proto, [alpha[flavour][1], alpha[flavour][2]])
    bigs = [("py3", "str-ascii-1500"), ("py3", "str-ascii-3000"), ("py3", "bytes-ascii-1500"),
            ("py2", "py2str-ascii-1500"), ("py2", "py2str-ascii-3000")]
    for flavour, nid in bigs:
        for proto in NAME[nid][3]:
            items = [[nid, "255", "1", "tt"], [nid, "256", "0.1", "tt"], [nid, "65536", "70000", "ll"]]
            fid = c.add_frame(flavour, proto, items)
            n = len(c.frames[fid]["hex"]) // 2 - 4
            assert n > (8192 if "3000" in nid else 4096), n
            sm = small[flavour, proto]
            c.conn("big", [fid])
            c.conn("big", [sm, fid])
            c.conn("big", [fid, sm])
            c.conn("big", [fid, fid])
    for flavour, a, b in (("py3", "str-ascii-1500", "str-ascii-3000"), ("py2", "py2str-ascii-1500", "py2str-ascii-3000")):
        for proto in PROTOS[flavour]:
            fa = c.add_frame(flavour, proto, [[a, "255", "1", "tt"], [a, "256", "0.1", "tt"], [a, "65536", "70000", "ll"]])
            fb = c.add_frame(flavour, proto, [[b, "255", "1", "tt"], [b, "256", "0.1", "tt"], [b, "65536", "70000", "ll"]])
            c.conn("big", [fa, fb, small[flavour, proto]])
            c.conn("big", [fb, small[flavour, proto], fa])

    # -- 5. 2 and 3 frames per connection over a frame alphabet
    a3 = alpha["py3"]
    fa = [
        c.add_frame("py3", 0, [a3[0]]),
        c.add_frame("py3", 1, []),
        c.add_frame("py3", 2, [a3[1], a3[2]]),
        c.add_frame("py3", 3, [a3[3]]),
        c.add_frame("py3", 4, [a3[0], a3[1], a3[2]]),
        c.add_frame("py2", 1, [alpha["py2"][1]]),
        c.add_frame("py3", 2, [fill["py3"][0], ["!", "item-arity1", "tt"], fill["py3"][1]]),
        c.add_frame("py3", 4, [a3[4]]),
        c.add_frame("py3", 3, [bytes_item]),
    ]
    for n in (2, 3):
        for seq in itertools.product(fa, repeat=n):
            c.conn("frames%d" % n, seq)
    # -- 5b. memo back-references (a repeated name object) in a later frame of a connection:
    # every frame must be decoded with an empty memo (protocol 4 MEMOIZE numbers entries implicitly)
    for proto in (0, 1, 2, 3, 4):
        x = a3[0]
        y = [x[0], a3[1][1], a3[1][2], a3[1][3]]  # same name, different data
        sh = c.add_frame("py3", proto, [x, y], share="name")
        other = c.add_frame("py3", proto, [a3[2], a3[3]])
        c.conn("frames-memo", [other, sh])
        c.conn("frames-memo", [sh, sh])
        c.conn("frames-memo", [other, other, sh])
    for proto in (0, 1, 2, 3, 4):  # shortest possible connections: empty lists, all segmentations
        e = c.add_frame("py3", proto, [], opt=True)
        c.conn("frames2-empty", [e, e])
        c.conn("frames3-empty", [e, e, e])

    # -- 6. malformed frames, alone and after / before valid frames
    for proto in (0, 1, 2, 3, 4):
        w1 = c.add_frame("py3", proto, [a3[0], a3[1]])
        w2 = c.add_frame("py3", proto, [a3[3]])
        base = bytes.fromhex(c.frames[w1]["hex"])
        payload = base[4:]
        n = len(payload)
        tag = "p%d" % proto
        bad = []
        for k in (1, 2, 3):
            bad.append(c.add_raw("truncated-length", "%s %d of 4 length bytes" % (tag, k), base[:k], True))
        for j in sorted({0, 1, 2, 3, n // 2, n - 1}):
            bad.append(c.add_raw("truncated-payload", "%s %d of %d payload bytes" % (tag, j, n), base[:4 + j], True))
        for j in sorted({n // 2, n - 1}):
            bad.append(c.add_raw("pickle-cut", "%s length word %d, pickle of %d bytes cut there" % (tag, j, n), frame(payload[:j]), False))
        tup = pickle.dumps(tuple(pickle.loads(payload)), protocol=proto)
        bad.append(c.add_raw("bad-prefix", "%s top-level tuple" % tag, frame(tup), False))
        dic = pickle.dumps({"a.b": (0, 0)}, protocol=proto)
        bad.append(c.add_raw("bad-prefix", "%s top-level dict" % tag, frame(dic), False))
        bad.append(c.add_raw("bad-prefix", "%s top-level None" % tag, frame(pickle.dumps(None, protocol=proto)), False))
        for m in bad:
            ends = c.frames[m].get("ends")
            c.conn("malformed", [m])
            c.conn("malformed", [w1, m])
            c.conn("malformed", [w1, w2, m])
            if not ends:
                c.conn("malformed", [m, w2])
                c.conn("malformed", [w1, m, w2])
    w1 = c.add_frame("py3", 2, [a3[0], a3[1]])
    w2 = c.add_frame("py3", 2, [a3[3]])
    generic = [
        c.add_raw("bad-prefix", "plain text line sent to the pickle port", b"a.b 1 1500000000\n", False),
        c.add_raw("bad-prefix", "payload 00 01 02 03", frame(b"\x00\x01\x02\x03"), False),
        c.add_raw("bad-prefix", "protocol 2 header followed by a tuple", frame(b"\x80\x02)."), False),
        c.add_raw("oversize", "length word ffffffff", b"\xff\xff\xff\xff]." , False),
        c.add_raw("oversize", "length word 500MiB+1", struct.pack(">I", 500 * 1024 * 1024 + 1) + b"].", False),
        c.add_raw("zero-length", "length word 0", frame(b""), False),
        c.add_raw("garbage", "] then ff ff", frame(b"]\xff\xff."), False),
        c.add_raw("garbage", "(l then ff", frame(b"(l\xff."), False),
        c.add_raw("garbage", "80 02 ] then ff", frame(b"\x80\x02]\xff."), False),
        c.add_raw("garbage", "80 04 95 <8 bytes> then ff", frame(b"\x80\x04\x95\x05\x00\x00\x00\x00\x00\x00\x00]\xff."), False),
        c.add_raw("garbage", "(l then POP on the empty stack", frame(b"(l00."), False),
        c.add_raw("garbage", "] then APPEND without an item", frame(b"]a."), False),
    ]
    for m in generic:
        c.conn("malformed", [m])
        c.conn("malformed", [w1, m])
        c.conn("malformed", [w1, w2, m])
        c.conn("malformed", [m, w2])
        c.conn("malformed", [w1, m, w2])
    return c


def tables():
    def num(t, textf):
        return {"py": t[1], "text": textf(t[1], t[2])}
    return {
        "names": {n[0]: {"kind": n[1], "flavour": n[2], "py": n[5], "text_hex": n[4].hex(), "len": len(n[4])} for n in NAMES},
        "ts": {k: num(t, ts_text) for k, t in TSD.items()},
        "values": {k: num(v, val_text) for k, v in VALD.items()},
        "invalid": {k: d for k, d in INVALID},
        "baseline": {"py3": ["str-ascii", "0", "0", "tt"], "py2": ["py2str-ascii", "0", "0", "tt"]},
    }


def render(c):
    out = io.StringIO()
    out.write("{\n")
    out.write(' "_comment": "generated by py/gen_pickles.py - do not edit; frames[].hex is the wire form (4-byte big-endian length + pickle)",\n')
    t = tables()
    for k in ("names", "ts", "values", "invalid", "baseline"):
        out.write(' "%s": %s,\n' % (k, json.dumps(t[k], sort_keys=True)))
    out.write(' "frames": [\n')
    out.write(",\n".join("  " + json.dumps(f, sort_keys=True, separators=(",", ":")) for f in c.frames))
    out.write("\n ],\n")
    out.write(' "connections": [\n')
    out.write(",\n".join("  " + json.dumps(x, sort_keys=True, separators=(",", ":")) for x in c.conns))
    out.write("\n ]\n}\n")
    return out.getvalue()


PY2_DRIVER = r'''
import pickle, sys
def fresh(s):
    return s[:1] + s[1:] if len(s) > 1 else s
out = []
%s
sys.stdout.write("\n".join(out) + "\n")
'''


def check_py2(c, exe):
    body = []
    for fid, proto, objs in c.py2_checks:
        env = {}
        src = py2_source(objs, env)
        for st in env.get("_stmts", []):
            body.append(st)
        body.append("out.append('%d ' + pickle.dumps(%s, %d).encode('hex'))" % (fid, src, proto))
    script = PY2_DRIVER % "\n".join(body)
    r = subprocess.run([exe, "-"], input=script, capture_output=True, text=True)
    if r.returncode != 0:
        sys.stderr.write(r.stderr[-2000:])
        return 2
    bad = 0
    n = 0
    for line in r.stdout.split("\n"):
        if not line:
            continue
        fid, hx = line.split(" ")
        n += 1
        mine = c.frames[int(fid)]["hex"][8:]
        if mine != hx:
            bad += 1
            if bad <= 5:
                sys.stderr.write("py2 mismatch frame %s\n mine %s\n real %s\n" % (fid, mine[:200], hx[:200]))
    sys.stderr.write("check-py2: %d frames compared with %s, %d differ\n" % (n, exe, bad))
    return 1 if bad or n != len(c.py2_checks) else 0


def main(argv):
    if sys.version_info < (3, 8):
        sys.stderr.write("gen_pickles.py needs CPython >= 3.8 (protocol 4 framing rules)\n")
        return 3
    c = build_corpus()
    if "--check-py2" in argv:
        return check_py2(c, argv[argv.index("--check-py2") + 1])
    text = render(c)
    if "--out" in argv:
        with open(argv[argv.index("--out") + 1], "w") as f:
            f.write(text)
        sys.stderr.write("%d frames, %d connections, %d bytes\n" % (len(c.frames), len(c.conns), len(text)))
    else:
        sys.stdout.write(text)
    return 0


if __name__ == "__main__":
    sys.exit(main(sys.argv[1:]))
